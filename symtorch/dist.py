"""Euclidean distance abstraction: norm2(dx,dy) is an uninterpreted function with sound linear axioms.

Every axiom is true of sqrt(dx^2+dy^2), so `unsat` carries over to the real code; a `sat` model is a
candidate only (replayed; harnesses can request collinear instances, for which the axioms are exact).
"""
from __future__ import annotations

import z3

from .scalar import _real, is_sym

R = z3.RealSort()
N2 = z3.Function("norm2", R, R, R)
SQRT2_UP = z3.RealVal("1.41422")

_apps = []  # (dx, dy, app)
_seen = set()
_emitted = 0
TRIANGLE = False  # instantiate the triangle inequality over all compatible application triples


def reset():
    global _apps, _seen, _emitted
    _apps, _seen, _emitted = [], set(), 0


def norm2(dx, dy):
    dx, dy = _real(dx), _real(dy)
    app = N2(dx, dy)
    k = app.get_id()
    if k not in _seen:
        _seen.add(k)
        _apps.append((dx, dy, app))
    return app


def _abs(x):
    return z3.If(x >= 0, x, -x)


FULL_SANDWICH = False  # also bound the norm from above by 1.41422*max(|dx|,|dy|) (needed only where ranges of coordinates must bound distances)


def _axioms_for(dx, dy, app):
    ax = [app >= 0, app >= dx, app >= -dx, app >= dy, app >= -dy, app == N2(-dx, -dy), z3.Implies(z3.And(dx == 0, dy == 0), app == 0)]
    if FULL_SANDWICH:
        a_x, a_y = _abs(dx), _abs(dy)
        mx = z3.If(a_x >= a_y, a_x, a_y)
        ax += [app <= SQRT2_UP * mx]
    return ax


def collinear_axioms():
    """exactness on axis-parallel differences; added when extracting replayable (collinear) models"""
    out = []
    for dx, dy, app in _apps:
        out.append(z3.Implies(dy == 0, app == _abs(dx)))
        out.append(z3.Implies(dx == 0, app == _abs(dy)))
    return out


def new_axioms():
    global _emitted
    out = []
    start = _emitted
    for dx, dy, app in _apps[start:]:
        out.extend(_axioms_for(dx, dy, app))
    _emitted = len(_apps)
    if TRIANGLE and len(_apps) > start:
        # n(u+v) <= n(u) + n(v) for all pairs of applications and the application of their sum, if present
        for i in range(len(_apps)):
            for j in range(i, len(_apps)):
                if i < start and j < start:
                    continue
                (ax, ay, a), (bx, by, b) = _apps[i], _apps[j]
                out.append(N2(ax + bx, ay + by) <= a + b)
                out.append(N2(ax - bx, ay - by) <= a + b)
    return out


def all_axioms():
    out = []
    for dx, dy, app in _apps:
        out.extend(_axioms_for(dx, dy, app))
    return out
