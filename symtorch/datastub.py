"""torch.utils.data contract stub: a DataLoader yields batches of `batch_size` consecutive indices of the index
order (identity, or a symbolic-free permutation supplied by the harness when shuffle=True), fetched through
`__getitems__` if the dataset defines it (else item by item) and passed to `collate_fn`."""
from __future__ import annotations

from . import tensor as T
from . import tdict
from .scalar import Unsupported

SHUFFLE_ORDER = None  # harness may set: callable(n) -> list of indices (explored by the harness)


class Dataset:
    def __init__(self, *a, **k):
        pass

    def __class_getitem__(cls, item):
        return cls


def default_collate(batch):
    b0 = batch[0]
    if isinstance(b0, T.Tensor):
        return T.stack(batch, 0)
    if isinstance(b0, tdict.TensorDict):
        return tdict.td_stack(batch, 0)
    if isinstance(b0, dict):
        return {k: default_collate([b[k] for b in batch]) for k in b0}
    if isinstance(b0, (int, float)):
        return T.tensor(batch)
    if isinstance(b0, (tuple, list)):
        return [default_collate(list(x)) for x in zip(*batch)]
    raise Unsupported(f"default_collate of {type(b0)}")


class DataLoader:
    def __init__(self, dataset, batch_size=1, shuffle=False, num_workers=0, collate_fn=None, drop_last=False, sampler=None, **kw):
        self.dataset, self.batch_size, self.shuffle, self.drop_last = dataset, batch_size, shuffle, drop_last
        self.collate_fn = collate_fn or default_collate
        self.num_workers = num_workers
        self.kw = kw

    def __len__(self):
        n = len(self.dataset)
        return n // self.batch_size if self.drop_last else -(-n // self.batch_size)

    def __iter__(self):
        n = len(self.dataset)
        order = list(range(n))
        if self.shuffle:
            if SHUFFLE_ORDER is None:
                raise Unsupported("shuffle=True without a harness-provided order")
            order = list(SHUFFLE_ORDER(n))
        for s in range(0, n, self.batch_size):
            idx = order[s : s + self.batch_size]
            if len(idx) < self.batch_size and self.drop_last:
                return
            if hasattr(self.dataset, "__getitems__"):
                from .scalar import is_sym as _is_sym

                # indices may be symbolic (a sampler's order): handed over as 0-dim integer tensors, so that any comparison
                # the dataset code makes on them goes through the explorer
                idx = [T.Tensor(i, T.int64) if _is_sym(i) else i for i in idx]
                items = self.dataset.__getitems__(idx)
            else:
                from . import explore
                from .scalar import is_sym

                # item-by-item datasets index python lists: a symbolic index is case-split over its feasible values
                idx = [explore.EXP.concretize_int(i, 0, n) if is_sym(i) else i for i in idx]
                items = [self.dataset[i] for i in idx]
            yield self.collate_fn(items)
