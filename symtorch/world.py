"""Loader: executes the *real* rl4co sources from /repo with torch / tensordict / torchrl / einops / lightning
resolved to the symtorch stand-ins.  Nothing is cached across runs: the encoding follows the working tree."""
from __future__ import annotations

import ast
import builtins
import hashlib
import io
import os
import sys
import types

import numpy as np

from . import einops_, nnmod
from . import tensor as T
from . import tdict
from .scalar import Unsupported

REPO = os.environ.get("VERIF_REPO", "/repo")


# ---------------------------------------------------------------------------------- torchrl stand-in
class _Spec:
    def __init__(self, *a, shape=None, dtype=None, low=None, high=None, **k):
        self.shape, self.dtype, self.low, self.high, self.kw = shape, dtype, low, high, k


class _Composite(dict):
    def __init__(self, *a, **k):
        k.pop("shape", None)
        super().__init__(**k)


class EnvBaseStub:
    """the two behaviours of torchrl.envs.EnvBase the library relies on:
    reset(td) = `_reset` output merged into the input td, plus done/terminated of the done-spec shape."""

    batch_locked = False
    training = True  # torchrl's EnvBase is an nn.Module (default training mode)

    def __init__(self, *, device="cpu", batch_size=None, run_type_checks=False, allow_done_after_reset=False, **kw):
        self.device = device
        self.batch_size = T.Size(tuple(batch_size) if batch_size is not None else ())
        self.done_spec = _Spec(shape=(1,), dtype=T.bool_)

    def set_seed(self, seed=None, static_seed=False):
        self._set_seed(seed)
        return seed

    def _set_seed(self, seed):
        self.rng = T.Generator()

    def to(self, device):
        return self

    def reset(self, td=None, **kw):
        r = self._reset(td, **kw)
        bs = list(r.batch_size)
        shp = self.done_spec.shape
        if isinstance(shp, int):
            shp = (shp,)
        shp = tuple(shp or ())
        for k in ("done", "terminated"):
            if k not in r.d:
                r.d[k] = T.zeros(*bs, *shp, dtype=T.bool_)
        if td is not None and not td.is_empty():
            td.update(r)
            td.batch_size = r.batch_size
            return td
        return r

    def _assert_tensordict_shape(self, td):
        return None

    def _step_proc_data(self, td):
        return td

    def gen_params(self, *a, **k):
        raise Unsupported("EnvBase.gen_params")


# ---------------------------------------------------------------------------------- generic inert stubs
_stub_classes = {}


def _stub_class(qual):
    if qual not in _stub_classes:

        def __init__(self, *a, **k):
            pass

        def __getattr__(self, n):
            if n.startswith("__"):
                raise AttributeError(n)
            return lambda *a, **k: None

        _stub_classes[qual] = type(qual.rpartition(".")[2], (object,), {"__init__": __init__, "__getattr__": __getattr__})
    return _stub_classes[qual]


class _Anything(types.ModuleType):
    def __getattr__(self, n):
        if n.startswith("__"):
            raise AttributeError(n)
        if n[0].isupper():
            return _stub_class(self.__name__ + "." + n)
        return _Anything(self.__name__ + "." + n)

    def __call__(self, *a, **k):
        if len(a) == 1 and callable(a[0]) and not k:
            return a[0]  # used as a decorator
        return _Anything(self.__name__ + "()")


def _tqdm_module(name):
    m = types.ModuleType(name)

    def tqdm(it=None, *a, **k):
        return it

    tqdm.write = lambda *a, **k: None
    m.tqdm = tqdm
    m.trange = lambda *a, **k: range(*a)
    m.auto = m
    return m


class _Log:
    def __getattr__(self, n):
        return lambda *a, **k: None


class World:
    """one isolated universe of loaded rl4co modules"""

    INERT_SUFFIXES = ("render", "local_search")
    INERT_TOP = ("lightning", "hydra", "omegaconf", "wandb", "matplotlib", "robust_downloader", "tqdm", "torch_geometric",
                 "pyvrp", "ortools", "lkh", "numba", "scipy", "rich", "pytorch_lightning", "colorlog", "pyrootutils", "vrplib", "tsplib95")

    def __init__(self, inert=("rl4co.data.dataset", "rl4co.data.utils"), source_filter=None, nn_mode="opaque"):
        self.mods = {}
        self.inert = set(inert)
        self.source_filter = source_filter  # callable(path, text) -> text  (self-test mutations only)
        self.sources = {}  # path -> sha1 of the text executed
        self.fixed = self._build_fixed()
        self._saved_sys = {}

    # ------------------------------------------------------------------ library namespaces
    def _build_fixed(self):
        torch = types.ModuleType("torch")
        for k, v in vars(T).items():
            if not k.startswith("_"):
                setattr(torch, k, v)
        torch.bool, torch.float, torch.long, torch.int, torch.double, torch.half = T.bool_, T.float32, T.int64, T.int32, T.float64, T.float16
        torch.float32, torch.float64, torch.int64, torch.int32, torch.uint8, torch.int8, torch.int16 = T.float32, T.float64, T.int64, T.int32, T.uint8, T.int8, T.int16
        torch.cfloat = torch.complex64 = T.complex64
        torch.dtype = T.dtype_
        torch.inf = float("inf")
        torch.pi = 3.141592653589793
        torch.Tensor, torch.Size = T.Tensor, T.Size
        torch.scatter_add = T.scatter_add_fn
        torch.device = lambda *a, **k: "cpu"
        torch.cuda = types.SimpleNamespace(is_available=lambda: False, empty_cache=lambda: None, device_count=lambda: 0)
        torch.backends = _Anything("torch.backends")
        torch.__version__ = "2.0.0-symtorch"

        def cat(ts, dim=0, **k):
            ts = list(ts)
            return tdict.td_cat(ts, dim) if isinstance(ts[0], tdict.TensorDict) else T.cat(ts, dim)

        def stack(ts, dim=0, **k):
            ts = list(ts)
            return tdict.td_stack(ts, dim) if isinstance(ts[0], tdict.TensorDict) else T.stack(ts, dim)

        torch.cat, torch.stack = cat, stack
        torch.complex = lambda *a, **k: (_ for _ in ()).throw(Unsupported("complex tensors"))
        torch.inverse = lambda *a, **k: (_ for _ in ()).throw(Unsupported("matrix inverse"))
        torch.load = lambda *a, **k: (_ for _ in ()).throw(Unsupported("torch.load"))
        torch.save = lambda *a, **k: (_ for _ in ()).throw(Unsupported("torch.save"))
        torch.compile = lambda f=None, **k: f if f is not None else (lambda g: g)
        torch.jit = types.SimpleNamespace(script=lambda f: f, ignore=lambda f: f)

        F = types.ModuleType("torch.nn.functional")
        F.pad, F.mse_loss, F.huber_loss, F.one_hot = nnmod.pad, nnmod.mse_loss, nnmod.huber_loss, nnmod.one_hot
        F.scaled_dot_product_attention = nnmod.sdpa
        F.softmax = lambda t, dim=-1, **k: T.SOFTMAX_HOOK(t, dim, False)
        F.log_softmax = lambda t, dim=-1, **k: T.SOFTMAX_HOOK(t, dim, True)
        F.relu = lambda t, **k: nnmod.apply_elem("relu", t)
        F.gelu = lambda t, **k: nnmod.apply_elem("gelu", t)
        F.leaky_relu = lambda t, *a, **k: nnmod.apply_elem("lrelu", t)
        F.tanh = lambda t: t.tanh()
        F.sigmoid = lambda t: t.sigmoid()
        F.dropout = lambda t, *a, **k: t
        F.normalize = lambda *a, **k: (_ for _ in ()).throw(Unsupported("F.normalize"))

        nn = types.ModuleType("torch.nn")
        for k in ("Module Linear LazyLinear Embedding Identity Dropout ReLU GELU Tanh Sigmoid LeakyReLU SiLU ELU Softplus Softmax "
                  "BatchNorm1d InstanceNorm1d LayerNorm Sequential ModuleList ModuleDict Parameter init").split():
            setattr(nn, k, getattr(nnmod, k))
        nn.functional = F
        nn.utils = _Anything("torch.nn.utils")
        nn.modules = types.SimpleNamespace(Module=nnmod.Module)
        nn.MSELoss = lambda **k: nnmod.mse_loss
        nn.HuberLoss = lambda **k: nnmod.huber_loss
        torch.nn = nn

        utils_data = types.ModuleType("torch.utils.data")
        from . import datastub

        utils_data.Dataset, utils_data.DataLoader = datastub.Dataset, datastub.DataLoader
        utils_data.IterableDataset = datastub.Dataset
        utils_data.default_collate = datastub.default_collate
        utils = types.ModuleType("torch.utils")
        utils.data = utils_data
        utils.checkpoint = _Anything("torch.utils.checkpoint")
        torch.utils = utils
        from . import diststub

        distributions = types.ModuleType("torch.distributions")
        for k in ("Uniform", "Normal", "Categorical", "Exponential", "Poisson", "MultivariateNormal", "Beta", "Distribution"):
            setattr(distributions, k, getattr(diststub, k))
        torch.distributions = distributions
        optim = _Anything("torch.optim")
        torch.optim = optim

        td_mod = types.ModuleType("tensordict")
        td_mod.__version__ = "0.14.2"
        td_mod.TensorDict = tdict.TensorDict
        td_mod.TensorDictBase = tdict.TensorDict
        td_tensordict = types.ModuleType("tensordict.tensordict")
        td_tensordict.TensorDict = tdict.TensorDict
        td_tensordict.TensorDictBase = tdict.TensorDict
        td_mod.tensordict = td_tensordict
        td_mod.NonTensorData = lambda x, **k: x
        td_mod.is_tensor_collection = lambda x: isinstance(x, tdict.TensorDict)

        rl_data = types.ModuleType("torchrl.data")
        for k in ("Bounded", "Unbounded", "BoundedTensorSpec", "UnboundedContinuousTensorSpec", "UnboundedDiscreteTensorSpec",
                  "BoundedContinuous", "UnboundedContinuous", "UnboundedDiscrete", "Categorical", "DiscreteTensorSpec", "Binary"):
            setattr(rl_data, k, _Spec)
        rl_data.Composite = rl_data.CompositeSpec = _Composite
        rl_envs = types.ModuleType("torchrl.envs")
        rl_envs.EnvBase = EnvBaseStub
        rl_modules = _Anything("torchrl.modules")
        rl = types.ModuleType("torchrl")
        rl.data, rl.envs, rl.modules = rl_data, rl_envs, rl_modules

        pylogger = types.ModuleType("rl4co.utils.pylogger")
        pylogger.get_pylogger = lambda *a, **k: _Log()

        einops = types.ModuleType("einops")
        einops.rearrange, einops.repeat, einops.reduce, einops.einsum = einops_.rearrange, einops_.repeat, einops_.reduce, einops_.einsum
        einops_layers = _Anything("einops.layers")

        return {
            "torch": torch, "torch.nn": nn, "torch.nn.functional": F, "torch.utils": utils, "torch.utils.data": utils_data,
            "torch.distributions": distributions, "torch.optim": optim,
            "tensordict": td_mod, "tensordict.tensordict": td_tensordict,
            "torchrl": rl, "torchrl.data": rl_data, "torchrl.envs": rl_envs, "torchrl.modules": rl_modules,
            "einops": einops, "einops.layers": einops_layers, "rl4co.utils.pylogger": pylogger,
        }

    @property
    def torch(self):
        return self.fixed["torch"]

    # ------------------------------------------------------------------ source access
    def read(self, path):
        with open(path) as f:
            s = f.read()
        if self.source_filter is not None:
            s = self.source_filter(path, s)
        self.sources[os.path.relpath(path, REPO)] = hashlib.sha1(s.encode()).hexdigest()[:12]
        return s

    # ------------------------------------------------------------------ loading
    def load(self, name):
        if name in self.mods:
            return self.mods[name]
        if name in self.fixed:
            return self.fixed[name]
        path = REPO + "/" + name.replace(".", "/")
        if os.path.isdir(path):
            m = types.ModuleType(name)
            m.__path__ = [path]
            m.__package__ = name
            self.mods[name] = m
            ini = path + "/__init__.py"
            if os.path.isfile(ini):
                src = self.read(ini)
                if "import" not in src:
                    exec(compile(src, ini, "exec"), m.__dict__)  # constants-only __init__
            return m  # other package __init__s deliberately NOT executed (they import the whole zoo)
        if not os.path.isfile(path + ".py"):
            raise ImportError(name)
        m = types.ModuleType(name)
        m.__file__ = path + ".py"
        m.__package__ = name.rpartition(".")[0]
        self.mods[name] = m
        sys.modules[name] = m  # dataclasses / typing look modules up by name
        src = self.read(path + ".py")
        g = m.__dict__
        g["__builtins__"] = dict(vars(builtins), __import__=self._imp)
        try:
            exec(compile(src, path + ".py", "exec"), g)
        except BaseException:
            self.mods.pop(name, None)
            sys.modules.pop(name, None)
            raise
        return m

    def _reexport(self, pkg, attr):
        ini = REPO + "/" + pkg.replace(".", "/") + "/__init__.py"
        if not os.path.isfile(ini):
            return None
        for node in ast.walk(ast.parse(self.read(ini))):
            if isinstance(node, ast.ImportFrom):
                for al in node.names:
                    if (al.asname or al.name) == attr:
                        mod = node.module or ""
                        if node.level:
                            base = pkg.split(".")
                            base = base[: len(base) - (node.level - 1)]
                            mod = ".".join(base + ([mod] if mod else []))
                        return mod, al.name
        return None

    def _imp(self, name, globals=None, locals=None, fromlist=(), level=0):  # noqa: A002
        if level:
            pkg = globals["__package__"]
            base = pkg.split(".")
            base = base[: len(base) - (level - 1)]
            name = ".".join(base + ([name] if name else []))
        top = name.split(".")[0]
        if top in ("rl4co", "torch", "tensordict", "torchrl", "einops"):
            if name in self.inert or any(name.endswith(s) for s in self.INERT_SUFFIXES):
                return _Anything(name)
            if name not in self.fixed and top != "rl4co":
                return _Anything(name)
            m = self.load(name)
            if fromlist:
                for f in fromlist:
                    if f == "*" or hasattr(m, f):
                        continue
                    try:
                        setattr(m, f, self._imp(name + "." + f, None, None, ("__x",), 0))
                    except ImportError:
                        src = self._reexport(name, f)
                        if src is not None:
                            setattr(m, f, getattr(self._imp(src[0], None, None, (src[1],), 0), src[1]))
                        elif hasattr(m, "__path__"):
                            def _deferred(*a, _n=name + "." + f, **k):
                                raise Unsupported("package-level name defined in an unexecuted __init__: " + _n)

                            setattr(m, f, _deferred)
                        else:
                            raise ImportError(f"cannot import name {f!r} from {name!r}")
                return m
            return self.load(top) if "." in name else m
        if top == "tqdm":
            return _tqdm_module(name)
        if top in self.INERT_TOP:
            return _Anything(name)
        return _real_import(name, globals, locals, fromlist, level)


_real_import = builtins.__import__


def make_world(**kw):
    return World(**kw)
