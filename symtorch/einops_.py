"""mini einops over symtorch tensors (rearrange / repeat / reduce by pattern)."""
from __future__ import annotations

import re

import numpy as np

from . import tensor as T
from .scalar import Unsupported
from .tensor import Tensor


def _parse(side):
    toks = re.findall(r"\.\.\.|\(|\)|[A-Za-z_]\w*|\d+", side)
    out, grp = [], None
    for t in toks:
        if t == "(":
            grp = []
        elif t == ")":
            out.append(tuple(grp))
            grp = None
        elif grp is not None:
            grp.append(t)
        else:
            out.append(t)
    return out


def _analyse(t_shape, lhs, sizes):
    shape = list(t_shape)
    n_named = len([x for x in lhs if x != "..."])
    n_ell = len(shape) - n_named
    dims, elem_order, i = {}, [], 0
    for x in lhs:
        if x == "...":
            for e in range(n_ell):
                dims[f"_e{e}"] = shape[i]
                elem_order.append(f"_e{e}")
                i += 1
        elif isinstance(x, tuple):
            known, unk = 1, None
            for nm in x:
                if nm.isdigit():
                    dims[nm] = int(nm)
                    known *= int(nm)
                elif nm in sizes:
                    dims[nm] = sizes[nm]
                    known *= sizes[nm]
                else:
                    assert unk is None, "two unknown axes in a group"
                    unk = nm
            if unk is not None:
                dims[unk] = shape[i] // known
            elem_order.extend(x)
            i += 1
        else:
            if x.isdigit():
                assert shape[i] == int(x)
                dims[f"_c{i}"] = int(x)
                elem_order.append(f"_c{i}")
            else:
                dims[x] = shape[i]
                elem_order.append(x)
            i += 1
    return dims, elem_order, n_ell


def rearrange(t, pattern, **sizes):
    if isinstance(t, (list, tuple)):
        t = T.stack(list(t), 0)
    if not isinstance(t, Tensor):
        # TensorDict: apply to batch dims of every entry
        raise Unsupported("einops.rearrange on non-tensor")
    l, r = pattern.split("->")
    lhs, rhs = _parse(l), _parse(r)
    dims, elem_order, n_ell = _analyse(t.a.shape, lhs, sizes)
    a = t.a.reshape([dims[e] for e in elem_order])
    tgt = []
    for x in rhs:
        if x == "...":
            tgt.extend(f"_e{e}" for e in range(n_ell))
        elif isinstance(x, tuple):
            tgt.extend(x)
        else:
            tgt.append(x)
    new1 = [e for e in tgt if e not in elem_order]
    for e in new1:
        if e != "1" and not (e in sizes and sizes[e] == 1):
            raise Unsupported(f"rearrange introduces axis {e}")
    src_order = [e for e in tgt if e in elem_order]
    drop = [e for e in elem_order if e not in tgt]
    for e in drop:
        assert dims[e] == 1, f"rearrange drops non-unit axis {e}"
    a = np.transpose(a, [elem_order.index(e) for e in src_order] + [elem_order.index(e) for e in drop])
    final = []
    for x in rhs:
        if x == "...":
            final.extend(dims[f"_e{e}"] for e in range(n_ell))
        elif isinstance(x, tuple):
            final.append(int(np.prod([dims.get(e, 1) for e in x])) if x else 1)
        else:
            final.append(dims.get(x, 1))
    return Tensor(a.reshape(final).copy(), t.dtype)


def repeat(t, pattern, **sizes):
    l, r = pattern.split("->")
    lhs, rhs = _parse(l), _parse(r)
    dims, elem_order, n_ell = _analyse(t.a.shape, lhs, sizes)
    a = t.a.reshape([dims[e] for e in elem_order])
    tgt = []
    for x in rhs:
        if x == "...":
            tgt.extend(f"_e{e}" for e in range(n_ell))
        elif isinstance(x, tuple):
            tgt.extend(x)
        else:
            tgt.append(x)
    new = [e for e in tgt if e not in elem_order]
    for e in new:
        dims[e] = int(e) if e.isdigit() else sizes[e]
    # append new axes then broadcast
    a = a.reshape(a.shape + (1,) * len(new))
    a = np.broadcast_to(a, a.shape[: len(elem_order)] + tuple(dims[e] for e in new))
    order_names = elem_order + new
    a = np.transpose(a, [order_names.index(e) for e in tgt])
    final = []
    for x in rhs:
        if x == "...":
            final.extend(dims[f"_e{e}"] for e in range(n_ell))
        elif isinstance(x, tuple):
            final.append(int(np.prod([dims[e] for e in x])))
        else:
            final.append(dims[x])
    return Tensor(a.reshape(final).copy(), t.dtype)


def reduce(t, pattern, reduction, **sizes):
    l, r = pattern.split("->")
    lhs, rhs = _parse(l), _parse(r)
    dims, elem_order, n_ell = _analyse(t.a.shape, lhs, sizes)
    tgt = []
    for x in rhs:
        if x == "...":
            tgt.extend(f"_e{e}" for e in range(n_ell))
        elif isinstance(x, tuple):
            tgt.extend(x)
        else:
            tgt.append(x)
    a = t.a.reshape([dims[e] for e in elem_order])
    red_axes = [i for i, e in enumerate(elem_order) if e not in tgt]
    cur = Tensor(a, t.dtype)
    for ax in sorted(red_axes, reverse=True):
        if reduction == "any":
            cur = cur.any(ax)
        elif reduction == "all":
            cur = cur.all(ax)
        elif reduction == "sum":
            cur = cur.sum(ax)
        elif reduction == "max":
            cur = cur.max(ax).values
        elif reduction == "min":
            cur = cur.min(ax).values
        elif reduction == "mean":
            cur = cur.mean(ax)
        else:
            raise Unsupported(f"einops.reduce {reduction}")
    kept = [e for e in elem_order if e in tgt]
    cur = Tensor(np.transpose(cur.a, [kept.index(e) for e in tgt]), cur.dtype)
    final = []
    for x in rhs:
        if x == "...":
            final.extend(dims[f"_e{e}"] for e in range(n_ell))
        elif isinstance(x, tuple):
            final.append(int(np.prod([dims[e] for e in x])))
        else:
            final.append(dims[x])
    return Tensor(cur.a.reshape(final).copy(), cur.dtype)


def einsum(*args):
    """einops.einsum(t1, ..., pattern) with space separated axis names (no ellipsis / groups)"""
    import itertools

    from .scalar import s_add, s_mul

    pattern = args[-1]
    ops = list(args[:-1])
    lhs, rhs = pattern.split("->")
    ins = [x.split() for x in lhs.split(",")]
    out = rhs.split()
    if any("..." in x or "(" in " ".join(x) for x in ins):
        raise Unsupported("einops.einsum pattern " + pattern)
    dims = {}
    for names, t in zip(ins, ops):
        assert len(names) == t.a.ndim, (names, t.shape)
        for nme, sz in zip(names, t.a.shape):
            assert dims.setdefault(nme, sz) == sz
    red = [nme for nme in dims if nme not in out]
    res = np.empty([dims[o] for o in out], dtype=object)
    dt = ops[0].dtype
    for t in ops[1:]:
        dt = T.promote(dt, t.dtype)
    for pos in np.ndindex(*res.shape):
        env = dict(zip(out, pos))
        acc = 0.0 if T._isf(dt) else 0
        for rpos in itertools.product(*[range(dims[r]) for r in red]):
            env.update(zip(red, rpos))
            term = None
            for names, t in zip(ins, ops):
                v = t.a[tuple(env[nme] for nme in names)]
                term = v if term is None else s_mul(term, v)
            acc = s_add(acc, term)
        res[pos] = acc
    return Tensor(res, dt)


def torch_einsum(pattern, *ops):
    lhs, rhs = pattern.replace(" ", "").split("->")
    spaced = ", ".join(" ".join(x) for x in lhs.split(",")) + " -> " + " ".join(rhs)
    return einsum(*ops, spaced)
