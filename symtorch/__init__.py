"""symtorch: z3-backed stand-in for torch / tensordict / torchrl / einops used to execute the real rl4co
sources symbolically (see DESIGN.md section 1)."""
