"""TensorDict stand-in: dict of symtorch tensors (and nested TensorDicts) with a batch size."""
from __future__ import annotations

import numpy as np

from . import tensor as T
from .scalar import Unsupported, _pyint
from .tensor import Size, Tensor


def _bs(batch_size):
    if batch_size is None:
        return Size(())
    if isinstance(batch_size, _pyint):
        return Size((batch_size,))
    return Size(tuple(_pyint(b) for b in batch_size))


class TensorDict:
    def __init__(self, source=None, batch_size=None, device=None, names=None, **kw):
        self.d = {}
        self.batch_size = _bs(batch_size)
        self.device = device if device is not None else "cpu"
        src = source.d if isinstance(source, TensorDict) else (source or {})
        for k, v in src.items():
            self.set(k, v)
        for k, v in kw.items():
            self.set(k, v)

    # ------------------------------------------------------------ meta
    @property
    def shape(self):
        return self.batch_size

    def size(self, i=None):
        return self.batch_size if i is None else self.batch_size[i]

    def dim(self):
        return len(self.batch_size)

    batch_dims = property(lambda self: len(self.batch_size))
    ndim = property(lambda self: len(self.batch_size))

    def numel(self):
        return self.batch_size.numel()

    def __len__(self):
        return self.batch_size[0] if self.batch_size else 0

    def is_empty(self):
        return not self.d

    def to(self, *a, **k):
        return self

    def cpu(self):
        return self

    def cuda(self, *a, **k):
        return self

    def contiguous(self):
        return self

    def detach(self):
        return self._map(lambda v: v.detach())

    def __repr__(self):
        return f"SymTensorDict({ {k: v for k, v in self.d.items()} }, batch_size={tuple(self.batch_size)})"

    # ------------------------------------------------------------ dict protocol
    def _conv(self, v):
        if isinstance(v, (Tensor, TensorDict)):
            return v
        if isinstance(v, dict):
            return TensorDict(v, batch_size=self.batch_size)
        if isinstance(v, (int, float, bool, list, tuple, np.ndarray)):
            return T.tensor(v)
        return v  # non-tensor payload (strings etc.)

    def _check(self, k, v):
        if isinstance(v, (Tensor, TensorDict)):
            shp = tuple(v.shape)
            n = len(self.batch_size)
            if shp[:n] != tuple(self.batch_size):
                raise RuntimeError(
                    f"batch dimension mismatch, got self.batch_size={tuple(self.batch_size)} and value.shape={shp} for key {k!r}"
                )

    def set(self, k, v, inplace=False, **kw):
        if isinstance(k, tuple):
            if len(k) == 1:
                k = k[0]
            else:
                sub = self.d.get(k[0])
                if sub is None:
                    sub = TensorDict({}, batch_size=self.batch_size)
                    self.d[k[0]] = sub
                sub.set(k[1:], v)
                return self
        v = self._conv(v)
        self._check(k, v)
        self.d[k] = v
        return self

    def set_(self, k, v):
        return self.set(k, v)

    def get(self, k, default=None, *a):
        if isinstance(k, tuple):
            cur = self
            for kk in k:
                if not isinstance(cur, TensorDict) or kk not in cur.d:
                    return default
                cur = cur.d[kk]
            return cur
        return self.d.get(k, default)

    def pop(self, k, *default):
        return self.d.pop(k, *default)

    def __contains__(self, k):
        return k in self.d

    def __delitem__(self, k):
        del self.d[k]

    def keys(self, include_nested=False, leaves_only=False, *a, **k):
        if include_nested:
            out = []
            for kk, v in self.d.items():
                if isinstance(v, TensorDict):
                    if not leaves_only:
                        out.append(kk)
                    out.extend((kk,) + (s if isinstance(s, tuple) else (s,)) for s in v.keys(True, leaves_only))
                else:
                    out.append(kk)
            return out
        return self.d.keys()

    def values(self, *a, **k):
        return self.d.values()

    def items(self, *a, **k):
        return self.d.items()

    def __iter__(self):
        if not self.batch_size:
            raise StopIteration
        for i in range(self.batch_size[0]):
            yield self[i]

    def update(self, other, clone=False, inplace=False, **kw):
        it = other.d if isinstance(other, TensorDict) else other
        for k, v in it.items():
            if isinstance(v, (TensorDict, dict)) and isinstance(self.d.get(k), TensorDict):
                self.d[k].update(v)
            else:
                self.set(k, v.clone() if clone and hasattr(v, "clone") else v)
        return self

    def update_(self, other, **kw):
        return self.update(other)

    def _map(self, f, batch_size=None):
        out = TensorDict({}, batch_size=self.batch_size if batch_size is None else batch_size)
        for k, v in self.d.items():
            out.d[k] = f(v) if isinstance(v, (Tensor, TensorDict)) else v
        return out

    def apply(self, f, batch_size=None, **kw):
        return self._map(lambda v: v.apply(f, batch_size=batch_size) if isinstance(v, TensorDict) else f(v), batch_size)

    def clone(self, recurse=True):
        return self._map(lambda v: v.clone() if recurse else v)

    copy = clone

    def select(self, *keys, inplace=False, strict=True):
        out = TensorDict({}, batch_size=self.batch_size)
        for k in keys:
            if k in self.d:
                out.d[k] = self.d[k]
            elif strict:
                raise KeyError(k)
        return out

    def exclude(self, *keys, inplace=False):
        out = TensorDict({}, batch_size=self.batch_size)
        for k, v in self.d.items():
            if k not in keys:
                out.d[k] = v
        return out

    def empty(self):
        return TensorDict({}, batch_size=self.batch_size)

    def to_dict(self):
        return {k: (v.to_dict() if isinstance(v, TensorDict) else v) for k, v in self.d.items()}

    # ------------------------------------------------------------ indexing
    def __getitem__(self, k):
        if isinstance(k, str):
            return self.d[k]
        if isinstance(k, tuple) and k and all(isinstance(x, str) for x in k):
            r = self.get(k)
            if r is None:
                raise KeyError(k)
            return r
        nb = len(self.batch_size)
        probe = Tensor(np.empty(tuple(self.batch_size), dtype=object), T.int64)
        if probe.a.size:
            probe.a.fill(0)
        new_bs = Size(probe[k].shape)
        out = TensorDict({}, batch_size=new_bs)
        for kk, v in self.d.items():
            out.d[kk] = v[k] if isinstance(v, (Tensor, TensorDict)) else v
        return out

    def __setitem__(self, k, v):
        if isinstance(k, str) or (isinstance(k, tuple) and k and all(isinstance(x, str) for x in k)):
            self.set(k, v)
            return
        it = v.d if isinstance(v, TensorDict) else v
        for kk, val in it.items():
            if kk in self.d:
                self.d[kk][k] = val
            else:
                raise Unsupported(f"index-assignment of new key {kk!r} into a TensorDict")

    def masked_select(self, m):
        return self[m]

    def gather(self, dim, index):
        nb = len(self.batch_size)
        dim = dim % nb

        def g(v):
            idx = index.view(*index.shape, *([1] * (v.dim() - index.dim()))).expand(*index.shape, *v.shape[index.dim() :])
            return v.gather(dim, idx)

        return self._map(g, batch_size=index.shape)

    def _shape_op(self, name, *args, new_bs=None):
        nb = len(self.batch_size)

        def f(v):
            if isinstance(v, TensorDict):
                return getattr(v, name)(*args)
            return None

        raise NotImplementedError

    def expand(self, *shape):
        shape = T._shape_args(shape)
        nb = len(self.batch_size)
        return self._map(lambda v: v.expand(*shape, *v.shape[nb:]) if isinstance(v, Tensor) else v.expand(*shape), batch_size=shape)

    def view(self, *shape):
        shape = T._shape_args(shape)
        nb = len(self.batch_size)
        probe = np.empty(tuple(self.batch_size), dtype=np.int8).reshape(shape)
        return self._map(lambda v: v.view(*probe.shape, *v.shape[nb:]) if isinstance(v, Tensor) else v.view(*probe.shape), batch_size=probe.shape)

    reshape = view

    def flatten(self, start=0, end=-1):
        return self.view(-1)

    def permute(self, *dims):
        dims = T._shape_args(dims)
        nb = len(self.batch_size)
        assert len(dims) == nb
        new_bs = tuple(self.batch_size[d] for d in dims)
        return self._map(lambda v: v.permute(*dims, *range(nb, v.dim())) if isinstance(v, Tensor) else v.permute(*dims), batch_size=new_bs)

    def unsqueeze(self, d):
        nb = len(self.batch_size)
        d = d if d >= 0 else d + nb + 1
        new_bs = tuple(self.batch_size[:d]) + (1,) + tuple(self.batch_size[d:])
        return self._map(lambda v: v.unsqueeze(d), batch_size=new_bs)

    def squeeze(self, d=None):
        nb = len(self.batch_size)
        if d is None:
            raise Unsupported("TensorDict.squeeze() without dim")
        d = d % nb
        if self.batch_size[d] != 1:
            return self
        new_bs = tuple(self.batch_size[:d]) + tuple(self.batch_size[d + 1 :])
        return self._map(lambda v: v.squeeze(d), batch_size=new_bs)

    def split(self, n, dim=0):
        k = self.batch_size[dim]
        out = []
        for i in range(0, k, n):
            sl = [slice(None)] * (dim + 1)
            sl[dim] = slice(i, min(i + n, k))
            out.append(self[tuple(sl)])
        return tuple(out)

    def chunk(self, n, dim=0):
        k = self.batch_size[dim]
        return self.split(-(-k // n), dim)

    def unbind(self, dim=0):
        return tuple(self[(slice(None),) * dim + (i,)] for i in range(self.batch_size[dim]))

    def repeat_interleave(self, r, dim=0):
        new_bs = list(self.batch_size)
        new_bs[dim] *= r
        return self._map(lambda v: v.repeat_interleave(r, dim), batch_size=new_bs)

    def auto_batch_size_(self, *a, **k):
        return self

    def lock_(self):
        return self

    def unlock_(self):
        return self


def td_cat(tds, dim=0):
    tds = list(tds)
    bs = list(tds[0].batch_size)
    bs[dim] = sum(t.batch_size[dim] for t in tds)
    out = TensorDict({}, batch_size=bs)
    for k in tds[0].d:
        v0 = tds[0].d[k]
        out.d[k] = td_cat([t.d[k] for t in tds], dim) if isinstance(v0, TensorDict) else T.cat([t.d[k] for t in tds], dim)
    return out


def td_stack(tds, dim=0):
    tds = list(tds)
    bs = list(tds[0].batch_size)
    bs.insert(dim, len(tds))
    out = TensorDict({}, batch_size=bs)
    for k in tds[0].d:
        v0 = tds[0].d[k]
        out.d[k] = td_stack([t.d[k] for t in tds], dim) if isinstance(v0, TensorDict) else T.stack([t.d[k] for t in tds], dim)
    return out
