"""symtorch Tensor: numpy object array of scalars (see scalar.py) + torch dtype tag.

Shapes are concrete; elements may be solver terms.  Semantics follow torch for everything implemented;
anything else raises Unsupported.
"""
from __future__ import annotations

import builtins
import collections
import itertools
import math

import numpy as np
import z3

from . import dist
from . import explore
from .scalar import *  # noqa: F401,F403
from .scalar import _bool, _int, _real, _isxr, _xr, _pybool, _pyfloat, _pyint, _is_float_like, _is_bool_like

_builtin_max, _builtin_min, _builtin_sum, _builtin_any, _builtin_all, _builtin_abs = (
    builtins.max,
    builtins.min,
    builtins.sum,
    builtins.any,
    builtins.all,
    builtins.abs,
)


def _u(f, n):
    return np.frompyfunc(f, n, 1)


U_ADD, U_SUB, U_MUL, U_DIV = _u(s_add, 2), _u(s_sub, 2), _u(s_mul, 2), _u(s_div, 2)
U_LT, U_LE, U_GT, U_GE, U_EQ, U_NE = (_u(f, 2) for f in (s_lt, s_le, s_gt, s_ge, s_eq, s_ne))
U_AND, U_OR, U_NOT, U_XOR = _u(b_and, 2), _u(b_or, 2), _u(lambda a: s_not(s_truth(a)), 1), _u(lambda a, b: s_xor(s_truth(a), s_truth(b)), 2)
U_WHERE, U_MAX, U_MIN = _u(s_where, 3), _u(s_max, 2), _u(s_min, 2)
U_NEG, U_ABS = _u(s_neg, 1), _u(s_abs, 1)
U_FLOORDIV, U_MOD, U_TRUNCDIV = _u(s_floordiv, 2), _u(s_mod, 2), _u(s_truncdiv, 2)
U_ISINF = _u(s_isinf, 1)


# ------------------------------------------------------------------ dtypes
class dtype_:
    def __init__(self, name, rank, is_float=False):
        self.name, self.rank, self.is_floating_point = name, rank, is_float

    def __repr__(self):
        return "torch." + self.name


bool_ = dtype_("bool", 0)
uint8 = dtype_("uint8", 1)
int8 = dtype_("int8", 2)
int16 = dtype_("int16", 3)
int32 = dtype_("int32", 4)
int64 = dtype_("int64", 5)
float16 = dtype_("float16", 6, True)
float32 = dtype_("float32", 7, True)
float64 = dtype_("float64", 8, True)
complex64 = dtype_("complex64", 9, True)


def norm_dtype(dt):
    """python builtins used as dtypes (torch accepts bool / int / float)"""
    if dt is builtins.bool:
        return bool_
    if dt is builtins.int:
        return int64
    if dt is builtins.float:
        return float32
    return dt


def _isf(dt):
    return norm_dtype(dt).is_floating_point


def promote(a, b):
    return a if a.rank >= b.rank else b


def scalar_dtype(x):
    if _is_bool_like(x):
        return bool_
    if _is_float_like(x):
        return float32
    return int64


def result_dtype(tdt, other):
    """dtype of `tensor(op)other` following torch's promotion (python scalars are weakly typed)"""
    if isinstance(other, Tensor):
        if other.a.ndim == 0 and tdt is not None and False:
            pass
        return promote(tdt, other.dtype)
    sdt = scalar_dtype(other)
    if _isf(tdt):
        return tdt
    if _isf(sdt):
        return float32
    if tdt is bool_:
        return sdt
    return tdt


def cast_scalar(x, dt):
    dt = norm_dtype(dt)
    if dt is bool_:
        return s_truth(x)
    if _isf(dt):
        if isinstance(x, XR) or is_inf(x):
            return x
        if is_sym(x):
            return _real(x)
        return _pyfloat(x)
    # integer kinds
    if isinstance(x, XR) or is_inf(x):
        raise Unsupported("inf cast to integer")
    if is_sym(x):
        v = _int(x)
    else:
        v = _pyint(x)
    if dt is uint8:
        if is_sym(v):
            return v % 256
        return v % 256
    return v


class Size(tuple):
    def numel(self):
        return _pyint(np.prod(self)) if len(self) else 1

    def __getitem__(self, i):
        r = tuple.__getitem__(self, i)
        return Size(r) if isinstance(i, slice) else r

    def __add__(self, o):
        return Size(tuple.__add__(self, tuple(o)))

    def __radd__(self, o):
        return Size(tuple(o) + tuple(self))


def _shape_args(shape):
    if len(shape) == 1 and isinstance(shape[0], (tuple, list, Size)):
        shape = tuple(shape[0])
    return tuple(_concrete_int(s) for s in shape)


def _concrete_int(x):
    if isinstance(x, Tensor):
        x = x.item()
    if is_sym(x):
        raise Unsupported("symbolic value used as a shape / python int")
    return _pyint(x)


def _obj(arr):
    if isinstance(arr, np.ndarray) and arr.dtype == object:
        return arr
    a = np.empty(np.shape(arr), dtype=object)
    if a.ndim == 0:
        a[()] = arr if not isinstance(arr, np.ndarray) else arr.item()
    else:
        src = np.asarray(arr)
        if src.dtype != object:
            src = src.astype(object)
            flat = a.reshape(-1)
            for i, v in enumerate(src.reshape(-1)):
                flat[i] = v.item() if hasattr(v, "item") else v
            return flat.reshape(a.shape)
        a[...] = src
    return a


def _any_sym(a):
    for x in a.reshape(-1):
        if is_sym(x) or isinstance(x, XR):
            return True
    return False


MM = collections.namedtuple("minmax", "values indices")


def _dense_extent(x):
    """(low, high, dense) byte extent of a view; dense = torch's `is_non_overlapping_and_dense` (size-1 dims ignored)"""
    low = high = x.__array_interface__["data"][0]
    for n, st in zip(x.shape, x.strides):
        if n > 1:
            if st < 0:
                low += (n - 1) * st
            else:
                high += (n - 1) * st
    high += x.itemsize
    return low, high, (high - low) == x.size * x.itemsize


def _check_partial_overlap(dst, src):
    """torch's copy_/index_put_ contract (`assert_no_partial_overlap`): when destination and source are both dense
    views of the same storage whose byte ranges overlap without being identical, the real library raises."""
    if not isinstance(dst, np.ndarray) or dst.size <= 1 or not np.may_share_memory(dst, src):
        return
    l1, h1, d1 = _dense_extent(dst)
    l2, h2, d2 = _dense_extent(src)
    if d1 and d2 and (l1, h1) != (l2, h2) and l1 < h2 and l2 < h1:
        raise RuntimeError("unsupported operation: some elements of the input tensor and the written-to tensor refer to a single memory location. Please clone() the tensor before performing the operation.")


class Tensor:
    __array_priority__ = 1000

    def __init__(self, arr, dtype=None, *more):
        if dtype is None or isinstance(dtype, _pyint):
            if isinstance(arr, _pyint):  # torch.Tensor(d0, d1, ...): uninitialised float tensor of that shape
                sizes = (arr,) + (() if dtype is None else (dtype,)) + tuple(more)
                a = np.empty(sizes, dtype=object)
                a.fill(0.0)
                arr, dtype = a, float32
            else:  # torch.Tensor(list_of_values)
                t = tensor(arr, dtype=float32)
                arr, dtype = t.a, float32
        self.a = _obj(arr)
        self.dtype = norm_dtype(dtype)
        self.requires_grad = False
        self.grad_fn = None

    device = "cpu"
    is_cuda = False

    # ------------------------------------------------------------- meta
    @property
    def shape(self):
        return Size(self.a.shape)

    def size(self, d=None):
        return Size(self.a.shape) if d is None else self.a.shape[d]

    def dim(self):
        return self.a.ndim

    @property
    def ndim(self):
        return self.a.ndim

    @property
    def data(self):
        return self

    @property
    def T(self):
        return Tensor(self.a.T, self.dtype)

    @property
    def mT(self):
        return self.transpose(-1, -2)

    def numel(self):
        return self.a.size

    def nelement(self):
        return self.a.size

    def __len__(self):
        return self.a.shape[0]

    def __iter__(self):
        for i in range(self.a.shape[0]):
            yield self[i]

    def is_floating_point(self):
        return _isf(self.dtype)

    def get_device(self):
        return -1

    def to(self, *a, **k):
        for x in a:
            if isinstance(x, dtype_) or x is builtins.bool or x is builtins.int or x is builtins.float:
                return self._cast(x)
            if isinstance(x, Tensor):
                return self._cast(x.dtype)
        if k.get("dtype") is not None:
            return self._cast(k["dtype"])
        return self

    def type(self, dt=None):
        return self._cast(dt) if dt is not None else self.dtype

    def type_as(self, o):
        return self._cast(o.dtype)

    def _cast(self, dt):
        dt = norm_dtype(dt)
        if dt is self.dtype:
            return self
        return Tensor(_u(lambda x: cast_scalar(x, dt), 1)(self.a), dt)

    def float(self):
        return self._cast(float32)

    def double(self):
        return self._cast(float64)

    def half(self):
        return self._cast(float32)

    def long(self):
        return self._cast(int64)

    def int(self):
        return self._cast(int32)

    def bool(self):
        return self._cast(bool_)

    def byte(self):
        return self._cast(uint8)

    def cpu(self):
        return self

    def cuda(self, *a, **k):
        return self

    def numpy(self):
        return self.a

    def clone(self, *a, **k):
        return Tensor(self.a.copy(), self.dtype)

    def contiguous(self, *a, **k):
        return self

    def detach(self):
        return DETACH_HOOK(self)

    def requires_grad_(self, v=True):
        return self

    def new(self, *a):
        return Tensor(np.empty((0,), dtype=object), self.dtype)

    def new_zeros(self, *shape, dtype=None, device=None):
        return _mk(_shape_args(shape), 0, dtype or self.dtype)

    def new_ones(self, *shape, dtype=None, device=None):
        return _mk(_shape_args(shape), 1, dtype or self.dtype)

    def new_full(self, shape, fill, dtype=None, device=None):
        return _mk(_shape_args((shape,)), fill, dtype or self.dtype)

    def new_tensor(self, data, dtype=None, device=None):
        return tensor(data, dtype=dtype or self.dtype)

    def item(self):
        assert self.a.size == 1, "item() on multi-element tensor"
        x = self.a.reshape(-1)[0]
        if is_sym(x):
            if z3.is_bool(x):
                return explore.EXP.branch(x)
            if ITEM_SYM_HOOK is not None:
                return ITEM_SYM_HOOK(x)
            if z3.is_int(x):
                return explore.EXP.concretize_any(x)  # data-dependent python int: fork over every feasible value
            raise Unsupported("item() on a symbolic real number")
        if isinstance(x, XR):
            raise Unsupported("item() on a symbolic extended real")
        return x

    def tolist(self):
        if _any_sym(self.a):
            raise Unsupported("tolist() on symbolic tensor")
        return self.a.tolist()

    def __bool__(self):
        assert self.a.size == 1, "Boolean value of Tensor with more than one value is ambiguous"
        x = self.a.reshape(-1)[0]
        return explore.EXP.branch(s_truth(x))

    def __int__(self):
        return _concrete_int(self)

    def __index__(self):
        return _concrete_int(self)

    def __float__(self):
        x = self.item()
        return _pyfloat(x)

    def __repr__(self):
        return f"SymTensor({self.dtype.name}, shape={tuple(self.a.shape)})"

    def __format__(self, spec):
        return repr(self)

    # ------------------------------------------------------------- elementwise
    def _bin(self, other, uf, out_dt=None, reverse=False):
        if isinstance(other, (list, tuple, np.ndarray)):
            other = tensor(other)
        ob = other.a if isinstance(other, Tensor) else other
        if out_dt is None:
            out_dt = result_dtype(self.dtype, other)
        if uf in (U_ADD, U_SUB, U_MUL) and out_dt is bool_:
            if uf is U_ADD:
                uf = U_OR
            elif uf is U_MUL:
                uf = U_AND
            else:
                raise Unsupported("bool - bool")
        res = uf(ob, self.a) if reverse else uf(self.a, ob)
        t = Tensor(res if isinstance(res, np.ndarray) else _obj(res), out_dt)
        if out_dt is uint8:
            t = Tensor(_u(lambda x: cast_scalar(x, uint8), 1)(t.a), uint8)
        return t

    def __add__(self, o):
        return self._bin(o, U_ADD)

    __radd__ = __add__

    def __sub__(self, o):
        return self._bin(o, U_SUB)

    def __rsub__(self, o):
        return self._bin(o, U_SUB, reverse=True)

    def __mul__(self, o):
        return self._bin(o, U_MUL)

    __rmul__ = __mul__

    def __truediv__(self, o):
        dt = result_dtype(self.dtype, o)
        return self._bin(o, U_DIV, dt if _isf(dt) else float32)

    def __rtruediv__(self, o):
        dt = result_dtype(self.dtype, o)
        return self._bin(o, U_DIV, dt if _isf(dt) else float32, reverse=True)

    def __floordiv__(self, o):
        return self._bin(o, U_FLOORDIV)

    def __mod__(self, o):
        return self._bin(o, U_MOD)

    def __pow__(self, p):
        if isinstance(p, Tensor):
            p = p.item()
        if p == 0.5:
            return self.sqrt()
        return Tensor(_u(lambda x: s_pow(x, p), 1)(self.a), self.dtype if not isinstance(p, _pyfloat) else promote(self.dtype, float32))

    def __neg__(self):
        return Tensor(U_NEG(self.a), self.dtype)

    def __abs__(self):
        return Tensor(U_ABS(self.a), self.dtype)

    abs = __abs__

    def __lt__(self, o):
        return self._bin(o, U_LT, bool_)

    def __le__(self, o):
        return self._bin(o, U_LE, bool_)

    def __gt__(self, o):
        return self._bin(o, U_GT, bool_)

    def __ge__(self, o):
        return self._bin(o, U_GE, bool_)

    def __eq__(self, o):
        if o is None:
            return False
        return self._bin(o, U_EQ, bool_)

    def __ne__(self, o):
        if o is None:
            return True
        return self._bin(o, U_NE, bool_)

    __hash__ = None
    lt, le, gt, ge, eq, ne = __lt__, __le__, __gt__, __ge__, __eq__, __ne__
    add, sub, mul, div, subtract, multiply, divide = __add__, __sub__, __mul__, __truediv__, __sub__, __mul__, __truediv__
    true_divide = __truediv__
    neg = __neg__

    def __and__(self, o):
        if self.dtype is not bool_:
            raise Unsupported("bitwise and on integers")
        return self._bin(o, U_AND, bool_)

    __rand__ = __and__

    def __or__(self, o):
        if self.dtype is not bool_:
            raise Unsupported("bitwise or on integers")
        return self._bin(o, U_OR, bool_)

    __ror__ = __or__

    def __xor__(self, o):
        return self._bin(o, U_XOR, bool_)

    def __invert__(self):
        if self.dtype is not bool_:
            raise Unsupported("bitwise not on integers")
        return Tensor(U_NOT(self.a), bool_)

    logical_not = lambda self: Tensor(U_NOT(self.a), bool_)  # noqa: E731
    logical_and = lambda self, o: Tensor(U_AND(self.a, o.a), bool_)  # noqa: E731
    logical_or = lambda self, o: Tensor(U_OR(self.a, o.a), bool_)  # noqa: E731

    def _inplace(self, r):
        if r.a.shape != self.a.shape:
            r = Tensor(np.broadcast_to(r.a, self.a.shape), r.dtype)
        self.a[...] = r._cast(self.dtype).a if r.dtype is not self.dtype else r.a
        return self

    def __iadd__(self, o):
        return self._inplace(self + o)

    def __isub__(self, o):
        return self._inplace(self - o)

    def __imul__(self, o):
        return self._inplace(self * o)

    def __itruediv__(self, o):
        return self._inplace(self / o)

    def __iand__(self, o):
        return self._inplace(self & o)

    def __ior__(self, o):
        return self._inplace(self | o)

    add_, sub_, mul_, div_, subtract_ = __iadd__, __isub__, __imul__, __itruediv__, __isub__

    def copy_(self, o):
        return self._inplace(o if isinstance(o, Tensor) else tensor(o))

    def fill_(self, v):
        self.a[...] = cast_scalar(v.item() if isinstance(v, Tensor) else v, self.dtype)
        return self

    def zero_(self):
        return self.fill_(0)

    def clamp(self, min=None, max=None):  # noqa: A002
        return clamp(self, min, max)

    clip = clamp

    def clamp_(self, min=None, max=None):  # noqa: A002
        return self._inplace(clamp(self, min, max))

    clip_ = clamp_

    def clamp_min(self, v):
        return clamp(self, v, None)

    def clamp_max(self, v):
        return clamp(self, None, v)

    def masked_fill(self, m, v):
        v = v.item() if isinstance(v, Tensor) and v.a.size == 1 and not _any_sym(v.a) else v
        va = v.a if isinstance(v, Tensor) else cast_scalar(v, self.dtype)
        shp = np.broadcast_shapes(self.a.shape, m.a.shape)
        return Tensor(U_WHERE(np.broadcast_to(m.a, shp), va, np.broadcast_to(self.a, shp)), self.dtype)

    def masked_fill_(self, m, v):
        return self._inplace(self.masked_fill(m, v))

    def masked_select(self, m):
        return self[m]

    def isinf(self):
        return Tensor(U_ISINF(self.a), bool_)

    def isnan(self):
        return _mk(self.a.shape, False, bool_)

    def isfinite(self):
        return Tensor(U_NOT(U_ISINF(self.a)), bool_)

    def sign(self):
        return Tensor(_u(lambda x: s_where(s_gt(x, 0), 1, s_where(s_lt(x, 0), -1, 0)), 1)(self.a), self.dtype)

    def floor(self):
        return Tensor(_u(s_floor, 1)(self.a), self.dtype)

    def ceil(self):
        return Tensor(_u(s_ceil, 1)(self.a), self.dtype)

    def round(self, decimals=0):
        return Tensor(_u(s_round, 1)(self.a), self.dtype)

    def sqrt(self):
        return MATH_HOOK("sqrt", self)

    def exp(self):
        return MATH_HOOK("exp", self)

    def log(self):
        return MATH_HOOK("log", self)

    def tanh(self):
        return MATH_HOOK("tanh", self)

    def sin(self):
        return MATH_HOOK("sin", self)

    def cos(self):
        return MATH_HOOK("cos", self)

    def sigmoid(self):
        return MATH_HOOK("sigmoid", self)

    def square(self):
        return self * self

    def reciprocal(self):
        return 1.0 / self

    def nan_to_num(self, nan=0.0, posinf=None, neginf=None):
        return nan_to_num(self, nan, posinf, neginf)

    def softmax(self, dim=-1):
        return SOFTMAX_HOOK(self, dim, False)

    def log_softmax(self, dim=-1):
        return SOFTMAX_HOOK(self, dim, True)

    # ------------------------------------------------------------- reductions
    def _reduce(self, f, init, dim, keepdim=False, out_dt=None):
        a = self.a
        out_dt = out_dt or self.dtype
        if dim is None or (isinstance(dim, (tuple, list)) and len(dim) == a.ndim):
            acc = init
            for x in a.reshape(-1):
                acc = x if acc is None else f(acc, x)
            if acc is None:
                raise Unsupported("reduction over an empty tensor without identity")
            out = np.empty((), dtype=object)
            out[()] = acc
            if keepdim:
                out = out.reshape((1,) * a.ndim)
            return Tensor(out, out_dt)
        if isinstance(dim, (tuple, list)):
            t = self
            for d in sorted([d % a.ndim for d in dim], reverse=True):
                t = Tensor(t.a, t.dtype)._reduce(f, init, d, keepdim, out_dt)
            return t
        dim = dim % a.ndim
        moved = np.moveaxis(a, dim, -1)
        out = np.empty(moved.shape[:-1], dtype=object)
        for idx in np.ndindex(*moved.shape[:-1]):
            acc = init
            for x in moved[idx]:
                acc = x if acc is None else f(acc, x)
            if acc is None:
                raise Unsupported("reduction over an empty dimension without identity")
            out[idx] = acc
        if keepdim:
            out = np.expand_dims(out, dim)
        return Tensor(out, out_dt)

    def sum(self, dim=None, keepdim=False, keepdims=False, dtype=None):
        dt = dtype or (int64 if not _isf(self.dtype) else self.dtype)
        init = 0.0 if _isf(dt) else 0
        return self._reduce(lambda acc, x: s_add(acc, cast_scalar(x, dt)), init, dim, keepdim or keepdims, dt)

    def prod(self, dim=None, keepdim=False):
        dt = int64 if not _isf(self.dtype) else self.dtype
        return self._reduce(lambda acc, x: s_mul(acc, cast_scalar(x, dt)), 1.0 if _isf(dt) else 1, dim, keepdim, dt)

    def mean(self, dim=None, keepdim=False, keepdims=False):
        if not _isf(self.dtype):
            raise Unsupported("mean of integer tensor")
        s = self.sum(dim, keepdim or keepdims)
        cnt = self.a.size // builtins.max(s.a.size, 1)
        if cnt == 0:
            raise Unsupported("mean of empty tensor")
        return s / _pyfloat(cnt)

    def var(self, dim=None, unbiased=True, keepdim=False, correction=None):
        corr = (1 if unbiased else 0) if correction is None else correction
        m = self.mean(dim, True)
        d = self - m
        s = (d * d).sum(dim, keepdim)
        cnt = self.a.size // builtins.max(s.a.size, 1)
        return s / _pyfloat(cnt - corr)

    def std(self, dim=None, unbiased=True, keepdim=False, correction=None):
        return self.var(dim, unbiased, keepdim, correction).sqrt()

    def all(self, dim=None, keepdim=False, keepdims=False):
        return self._reduce(lambda acc, x: s_and(acc, s_truth(x)), True, dim, keepdim or keepdims, bool_)

    def any(self, dim=None, keepdim=False, keepdims=False):
        return self._reduce(lambda acc, x: s_or(acc, s_truth(x)), False, dim, keepdim or keepdims, bool_)

    def count_nonzero(self, dim=None):
        return (self != 0).sum(dim)

    def _extreme(self, largest, dim, keepdim):
        if dim is None:
            return self._reduce(s_max if largest else s_min, None, None)
        dim = dim % self.a.ndim
        moved = np.moveaxis(self.a, dim, -1)
        vals = np.empty(moved.shape[:-1], dtype=object)
        idxs = np.empty(moved.shape[:-1], dtype=object)
        for pos in np.ndindex(*moved.shape[:-1]):
            row = moved[pos]
            bv, bi = row[0], 0
            for k in range(1, len(row)):
                better = s_gt(row[k], bv) if largest else s_lt(row[k], bv)  # strict: first index wins ties
                bi = s_where(better, k, bi)
                bv = s_where(better, row[k], bv)
            vals[pos], idxs[pos] = bv, bi
        if keepdim:
            vals, idxs = np.expand_dims(vals, dim), np.expand_dims(idxs, dim)
        return MM(Tensor(vals, self.dtype), Tensor(idxs, int64))

    def max(self, dim=None, keepdim=False, **kw):
        if isinstance(dim, Tensor):
            return maximum(self, dim)
        return self._extreme(True, dim, keepdim)

    def min(self, dim=None, keepdim=False, **kw):
        if isinstance(dim, Tensor):
            return minimum(self, dim)
        return self._extreme(False, dim, keepdim)

    def amax(self, dim=None, keepdim=False):
        r = self._extreme(True, dim, keepdim)
        return r if dim is None else r.values

    def amin(self, dim=None, keepdim=False):
        r = self._extreme(False, dim, keepdim)
        return r if dim is None else r.values

    def argmax(self, dim=None, keepdim=False):
        if dim is None:
            return self.reshape(-1)._extreme(True, 0, False).indices
        return self._extreme(True, dim, keepdim).indices

    def argmin(self, dim=None, keepdim=False):
        if dim is None:
            return self.reshape(-1)._extreme(False, 0, False).indices
        return self._extreme(False, dim, keepdim).indices

    def cumsum(self, dim, dtype=None):
        dt = int64 if not _isf(self.dtype) else self.dtype
        out = _u(lambda x: cast_scalar(x, dt), 1)(self.a).copy() if dt is not self.dtype else self.a.copy()
        out = _obj(out)
        mv = np.moveaxis(out, dim % out.ndim, -1)
        for k in range(1, mv.shape[-1]):
            mv[..., k] = U_ADD(mv[..., k - 1], mv[..., k])
        return Tensor(out, dt)

    def norm(self, p=2, dim=None, keepdim=False):
        if dim is None:
            if self.a.ndim != 1:
                raise Unsupported("norm over all dims")
            dim = 0
        if isinstance(dim, (tuple, list)):
            assert len(dim) == 1
            dim = dim[0]
        dim = dim % self.a.ndim
        moved = np.moveaxis(self.a, dim, -1)
        out = np.empty(moved.shape[:-1], dtype=object)
        for pos in np.ndindex(*out.shape):
            out[pos] = NORM_HOOK(list(moved[pos]), p)
        if keepdim:
            out = np.expand_dims(out, dim)
        return Tensor(out, self.dtype if _isf(self.dtype) else float32)

    # ------------------------------------------------------------- shape ops
    def view(self, *shape):
        if len(shape) == 1 and isinstance(shape[0], dtype_):
            return self._cast(shape[0])
        shape = _shape_args(shape)
        return Tensor(self.a.reshape(shape), self.dtype)

    reshape = view

    def view_as(self, o):
        return self.view(*o.shape)

    def flatten(self, start_dim=0, end_dim=-1):
        nd = self.a.ndim
        if nd == 0:
            return self.view(1)
        s, e = start_dim % nd, end_dim % nd
        shp = self.a.shape[:s] + (-1,) + self.a.shape[e + 1 :]
        return Tensor(self.a.reshape(shp), self.dtype)

    def unflatten(self, dim, sizes):
        dim = dim % self.a.ndim
        shp = self.a.shape[:dim] + tuple(sizes) + self.a.shape[dim + 1 :]
        return Tensor(self.a.reshape(shp), self.dtype)

    def expand(self, *shape):
        shape = list(_shape_args(shape))
        off = len(shape) - self.a.ndim
        for i, s in enumerate(shape):
            if s == -1:
                shape[i] = self.a.shape[i - off]
        return Tensor(np.broadcast_to(self.a, shape).copy(), self.dtype)

    def expand_as(self, o):
        return self.expand(*o.shape)

    def unsqueeze(self, d):
        return Tensor(np.expand_dims(self.a, d if d >= 0 else d + self.a.ndim + 1), self.dtype)

    def unsqueeze_(self, d):
        self.a = np.expand_dims(self.a, d if d >= 0 else d + self.a.ndim + 1)
        return self

    def squeeze(self, d=None):
        if d is None:
            return Tensor(np.squeeze(self.a), self.dtype)
        if isinstance(d, (tuple, list)):
            t = self
            for x in sorted([x % self.a.ndim for x in d], reverse=True):
                t = t.squeeze(x)
            return t
        if self.a.ndim == 0 or self.a.shape[d] != 1:
            return self
        return Tensor(np.squeeze(self.a, d), self.dtype)

    def squeeze_(self, d=None):
        self.a = self.squeeze(d).a
        return self

    def transpose(self, i, j):
        return Tensor(np.swapaxes(self.a, i, j), self.dtype)

    def t(self):
        return Tensor(self.a.T, self.dtype)

    def permute(self, *dims):
        dims = _shape_args(dims)
        return Tensor(np.transpose(self.a, dims), self.dtype)

    def movedim(self, s, d):
        return Tensor(np.moveaxis(self.a, s, d), self.dtype)

    def repeat(self, *r):
        r = _shape_args(r)
        return Tensor(np.tile(self.a, r), self.dtype)

    def repeat_interleave(self, r, dim=None):
        if isinstance(r, Tensor):
            r = [_concrete_int(x) for x in r.a.reshape(-1)]
            if len(r) == 1:
                r = r[0]
        return Tensor(np.repeat(self.a, r, axis=dim), self.dtype)

    def tile(self, *r):
        return self.repeat(*r)

    def roll(self, shifts, dims=None):
        return roll(self, shifts, dims)

    def flip(self, *dims):
        dims = _shape_args(dims)
        return Tensor(np.flip(self.a, dims), self.dtype)

    def chunk(self, n, dim=0):
        k = self.a.shape[dim]
        size = -(-k // n)
        return self.split(size, dim)

    def split(self, n, dim=0):
        k = self.a.shape[dim]
        if isinstance(n, (list, tuple)):
            out, s = [], 0
            for w in n:
                out.append(Tensor(np.take(self.a, range(s, s + w), axis=dim), self.dtype))
                s += w
            return tuple(out)
        return tuple(Tensor(np.take(self.a, range(i, builtins.min(i + n, k)), axis=dim), self.dtype) for i in range(0, k, n))

    def unbind(self, dim=0):
        return tuple(Tensor(np.take(self.a, i, axis=dim), self.dtype) for i in range(self.a.shape[dim]))

    def narrow(self, dim, start, length):
        idx = [slice(None)] * self.a.ndim
        idx[dim] = slice(start, start + length)
        return Tensor(self.a[tuple(idx)], self.dtype)

    def select(self, dim, i):
        return Tensor(np.take(self.a, i, axis=dim), self.dtype)

    def index_select(self, dim, idx):
        if _any_sym(idx.a):
            ind = [slice(None)] * (dim % self.a.ndim) + [idx]
            return self[tuple(ind)]
        return Tensor(np.take(self.a, idx.a.astype(np.int64), axis=dim), self.dtype)

    def diagonal(self, offset=0, dim1=0, dim2=1):
        return Tensor(np.diagonal(self.a, offset, dim1, dim2), self.dtype)

    def fill_diagonal_(self, v):
        n = builtins.min(self.a.shape[-2:])
        for i in range(n):
            self.a[..., i, i] = cast_scalar(v, self.dtype)
        return self

    def triu(self, diagonal=0):
        return triu(self, diagonal)

    def tril(self, diagonal=0):
        out = self.a.copy()
        r, c = out.shape[-2:]
        for i in range(r):
            for j in range(c):
                if j - i > diagonal:
                    out[..., i, j] = cast_scalar(0, self.dtype)
        return Tensor(out, self.dtype)

    # ------------------------------------------------------------- indexing
    def __getitem__(self, idx):
        kind, idx = _prep_index(self, idx)
        if kind == "basic":
            r = self.a[idx]
            if not isinstance(r, np.ndarray):
                o = np.empty((), dtype=object)
                o[()] = r
                r = o
            return Tensor(r, self.dtype)
        return Tensor(_sym_index_get(self.a, idx), self.dtype)

    def __setitem__(self, idx, val):
        if isinstance(val, Tensor):
            v = val._cast(self.dtype).a if val.dtype is not self.dtype else val.a
        elif isinstance(val, (list, tuple)):
            v = tensor(val)._cast(self.dtype).a
        else:
            v = cast_scalar(val, self.dtype)
        if isinstance(idx, Tensor) and idx.dtype is bool_ and idx.a.shape == self.a.shape[: idx.a.ndim] and _any_sym(idx.a):
            # boolean-mask assignment with a symbolic mask: no fork needed when the value broadcasts
            m = idx.a.reshape(idx.a.shape + (1,) * (self.a.ndim - idx.a.ndim))
            if not isinstance(v, np.ndarray) or v.ndim == 0 or (v.shape == self.a.shape[idx.a.ndim :] and False):
                vv = v.item() if isinstance(v, np.ndarray) else v
                self.a[...] = U_WHERE(np.broadcast_to(m, self.a.shape), vv, self.a)
                return
        kind, idx2 = _prep_index(self, idx)
        if kind == "basic":
            if isinstance(v, np.ndarray) and v.size > 1:
                _check_partial_overlap(self.a[idx2], v)
            self.a[idx2] = v
            return
        _sym_index_set(self.a, idx2, v)

    def index_put_(self, indices, values, accumulate=False):
        if not accumulate:
            self[tuple(indices)] = values
            return self
        # accumulate=True: every index tuple adds its value (duplicates add up), unlike `x[idx] += v`
        idx = [i.a if isinstance(i, Tensor) else np.asarray(i, dtype=object) for i in indices]
        S = np.broadcast_shapes(*[np.shape(i) for i in idx])
        idx = [np.broadcast_to(i, S) for i in idx]
        vals = np.broadcast_to(values.a if isinstance(values, Tensor) else values, S + self.a.shape[len(idx):])
        for pos in np.ndindex(*S):
            ii = [i[pos] for i in idx]
            sym_axes = [k for k, i in enumerate(ii) if is_sym(i)]
            for k in sym_axes:
                explore.EXP.obligation("index_put_ index in range", z3.And(ii[k] >= 0, ii[k] < self.a.shape[k]))
            for combo in itertools.product(*[range(self.a.shape[k]) if k in sym_axes else [_pyint(ii[k])] for k in range(len(ii))]):
                cond = True
                for k in sym_axes:
                    cond = s_and(cond, ii[k] == combo[k])
                tgt = self.a[combo]
                if isinstance(tgt, np.ndarray):
                    tgt[...] = U_WHERE(cond, U_ADD(tgt, vals[pos]), tgt)
                else:
                    self.a[combo] = s_where(cond, s_add(tgt, vals[pos]), tgt)
        return self

    def index_add_(self, dim, index, source):
        ind = [slice(None)] * (dim % self.a.ndim)
        moved = np.moveaxis(self.a, dim % self.a.ndim, 0)
        src = np.moveaxis(source.a, dim % self.a.ndim, 0)
        for k, i in enumerate(index.a.reshape(-1)):
            if is_sym(i):
                raise Unsupported("index_add_ with symbolic index")
            moved[_pyint(i)] = U_ADD(moved[_pyint(i)], src[k])
        return self

    def index_fill_(self, dim, index, value):
        ind = [slice(None)] * (dim % self.a.ndim) + [index]
        self[tuple(ind)] = value
        return self

    # ------------------------------------------------------------- gather / scatter
    def gather(self, dim, index, **kw):
        dim = dim % self.a.ndim
        if index.a.ndim != self.a.ndim:
            raise RuntimeError("Index tensor must have the same number of dimensions as input tensor")
        for d in range(self.a.ndim):
            if d != dim and index.a.shape[d] > self.a.shape[d]:
                raise RuntimeError(f"Size does not match at dimension {d} expected index {list(index.a.shape)} to be smaller than self {list(self.a.shape)} apart from dimension {dim}")
        src = np.moveaxis(self.a, dim, -1)
        ind = np.moveaxis(index.a, dim, -1)
        out = np.empty(ind.shape, dtype=object)
        n = src.shape[-1]
        for pos in np.ndindex(*ind.shape):
            i = ind[pos]
            row = src[pos[:-1]]
            if is_sym(i):
                out[pos] = select(i, list(row), "gather index")
            else:
                if not 0 <= i < n:
                    raise RuntimeError(f"index {i} is out of bounds for dimension {dim} with size {n}")
                out[pos] = row[i]
        return Tensor(np.moveaxis(out, -1, dim), self.dtype)

    def take_along_dim(self, index, dim):
        return self.gather(dim, index)

    def _scatter(self, dim, index, value, combine=None):
        dim = dim % self.a.ndim
        out = np.moveaxis(self.a.copy(), dim, -1)
        ind = np.moveaxis(index.a, dim, -1)
        val = np.moveaxis(np.broadcast_to(value.a, index.a.shape) if value.a.shape != index.a.shape and value.a.ndim == 0 else value.a, dim, -1) if isinstance(value, Tensor) else None
        n = out.shape[-1]
        for pos in np.ndindex(*ind.shape):
            i = ind[pos]
            v = cast_scalar(val[pos] if val is not None else value, self.dtype)
            row = out[pos[:-1]]
            if is_sym(i):
                explore.EXP.obligation("scatter index in range", z3.And(i >= 0, i < n))
                for k in range(n):
                    row[k] = s_where(i == k, v if combine is None else combine(row[k], v), row[k])
            else:
                if not 0 <= i < n:
                    raise RuntimeError(f"index {i} is out of bounds for dimension {dim} with size {n}")
                row[i] = v if combine is None else combine(row[i], v)
        return Tensor(np.moveaxis(out, -1, dim), self.dtype)

    def scatter(self, dim, index, src=None, value=None, reduce=None):
        if reduce is not None:
            raise Unsupported("scatter reduce")
        return self._scatter(dim, index, src if src is not None else value)

    def scatter_(self, dim, index, src=None, value=None, reduce=None):
        r = self.scatter(dim, index, src, value, reduce)
        self.a[...] = r.a
        return self

    def scatter_add(self, dim, index, src):
        return self._scatter(dim, index, src, s_add)

    def scatter_add_(self, dim, index, src):
        r = self.scatter_add(dim, index, src)
        self.a[...] = r.a
        return self

    def scatter_reduce(self, dim, index, src, reduce, include_self=True):
        f = {"sum": s_add, "amax": s_max, "amin": s_min, "prod": s_mul}[reduce]
        if not include_self:
            raise Unsupported("scatter_reduce include_self=False")
        return self._scatter(dim, index, src, f)

    # ------------------------------------------------------------- ordering
    def _ranks(self, row, descending):
        n = len(row)
        ranks = []
        for i in range(n):
            r = 0
            for j in range(n):
                if j == i:
                    continue
                lt = s_gt(row[j], row[i]) if descending else s_lt(row[j], row[i])
                before = s_or(lt, s_and(s_eq(row[j], row[i]), j < i))  # stable: index order among ties
                r = s_add(r, s_where(before, 1, 0))
            ranks.append(r)
        return ranks

    def sort(self, dim=-1, descending=False, stable=False):
        dim = dim % self.a.ndim
        src = np.moveaxis(self.a, dim, -1)
        n = src.shape[-1]
        vals = np.empty(src.shape, dtype=object)
        idxs = np.empty(src.shape, dtype=object)
        for pos in np.ndindex(*src.shape[:-1]):
            row = list(src[pos])
            if not _builtin_any(is_symbolic(x) for x in row):
                order = sorted(range(n), key=lambda i: (-row[i] if descending else row[i], i))
                for k, i in enumerate(order):
                    vals[pos + (k,)], idxs[pos + (k,)] = row[i], i
                continue
            ranks = self._ranks(row, descending)
            for k in range(n):
                ai, av = n - 1, row[n - 1]
                for i in range(n - 2, -1, -1):
                    c = s_eq(ranks[i], k)
                    ai, av = s_where(c, i, ai), s_where(c, row[i], av)
                vals[pos + (k,)], idxs[pos + (k,)] = av, ai
        return MM(Tensor(np.moveaxis(vals, -1, dim), self.dtype), Tensor(np.moveaxis(idxs, -1, dim), int64))

    def argsort(self, dim=-1, descending=False, stable=False):
        return self.sort(dim, descending).indices

    def topk(self, k, dim=-1, largest=True, sorted=True):  # noqa: A002
        v, i = self.sort(dim, descending=largest)
        sl = [slice(None)] * self.a.ndim
        sl[dim % self.a.ndim] = slice(0, k)
        return MM(Tensor(v.a[tuple(sl)], self.dtype), Tensor(i.a[tuple(sl)], int64))

    def nonzero(self, as_tuple=False):
        return nonzero(self, as_tuple=as_tuple)

    def unique(self, *a, **k):
        if _any_sym(self.a):
            raise Unsupported("unique on symbolic tensor")
        vals = sorted(set(self.a.reshape(-1).tolist()))
        return Tensor(np.array(vals, dtype=object), self.dtype)

    def matmul(self, o):
        return matmul(self, o)

    __matmul__ = matmul

    def bmm(self, o):
        return matmul(self, o)

    def multinomial(self, num_samples, replacement=False, generator=None):
        return multinomial(self, num_samples, replacement=replacement)

    def uniform_(self, a=0.0, b=1.0):
        r = rand(*self.a.shape)
        self.a[...] = (r * (b - a) + a).a
        return self

    def normal_(self, mean=0.0, std=1.0):
        self.a[...] = randn(*self.a.shape).a
        return self

    def random_(self, *a):
        return self

    def backward(self, *a, **k):
        return None


# ------------------------------------------------------------------ hooks (replaceable by modes)
def _default_norm(comps, p):
    if p == 1:
        acc = 0.0
        for c in comps:
            acc = s_add(acc, s_abs(c))
        return acc
    if p != 2:
        raise Unsupported(f"norm p={p}")
    if not _builtin_any(is_symbolic(c) for c in comps):
        acc = np.float32(0.0)
        for c in comps:
            acc = np.float32(acc + np.float32(np.float32(c) * np.float32(c)))
        return _pyfloat(np.sqrt(acc))
    if len(comps) == 1:
        return s_abs(comps[0])
    if len(comps) != 2:
        raise Unsupported("symbolic 2-norm over more than 2 components")
    return dist.norm2(comps[0], comps[1])


NORM_HOOK = _default_norm
_MATH_UF = {}


def _default_math(name, t):
    """exp/log/tanh/sqrt/...: concrete values are computed, symbolic ones go to an uninterpreted function
    with the few axioms registered in MATH_AXIOMS (monotonicity is instantiated pairwise on demand)"""
    fn = {"exp": math.exp, "log": math.log, "tanh": math.tanh, "sqrt": math.sqrt, "sin": math.sin, "cos": math.cos,
          "sigmoid": lambda x: 1 / (1 + math.exp(-x))}[name]

    def f(x):
        if not is_symbolic(x):
            if is_inf(x):
                if name == "exp":
                    return math.inf if x > 0 else 0.0
                if name == "tanh":
                    return 1.0 if x > 0 else -1.0
                if name == "sqrt" and x > 0:
                    return math.inf
                raise Unsupported(f"{name}(inf)")
            if name == "log" and x == 0:
                return -math.inf
            return fn(x)
        return MATH_SYM_HOOK(name, x)

    return Tensor(_u(f, 1)(t.a), t.dtype if _isf(t.dtype) else float32)


def _default_math_sym(name, x):
    if isinstance(x, XR):
        if name == "exp":
            v = _math_app("exp", x.v)
            return xr_simplify(XR(x.pinf, s_where(x.ninf, 0.0, v), False))
        raise Unsupported(f"{name} of extended real")
    return _math_app(name, x)


MATH_APPS = []


def _math_app(name, x):
    if name not in _MATH_UF:
        _MATH_UF[name] = z3.Function("uf_" + name, z3.RealSort(), z3.RealSort())
    app = _MATH_UF[name](_real(x))
    MATH_APPS.append((name, _real(x), app))
    if name == "exp":
        explore.EXP.assume(app > 0)
    elif name == "sqrt":
        explore.EXP.obligation("sqrt of non-negative", _real(x) >= 0)
        explore.EXP.assume(z3.And(app >= 0, app * app == _real(x)))
    elif name in ("tanh", "sin", "cos"):
        explore.EXP.assume(z3.And(app >= -1, app <= 1))
    elif name == "sigmoid":
        explore.EXP.assume(z3.And(app > 0, app < 1))
    return app


MATH_HOOK = _default_math
MATH_SYM_HOOK = _default_math_sym


def _default_detach(t):
    return t


DETACH_HOOK = _default_detach


def _default_softmax(t, dim, log):
    if not _any_sym(t.a):
        moved = np.moveaxis(t.a, dim, -1)
        out = np.empty(moved.shape, dtype=object)
        for pos in np.ndindex(*moved.shape[:-1]):
            row = [_pyfloat(x) for x in moved[pos]]
            m = _builtin_max(row)
            ex = [math.exp(x - m) if x != -math.inf else 0.0 for x in row]
            s = _builtin_sum(ex)
            for j, e in enumerate(ex):
                out[pos + (j,)] = (math.log(e / s) if e > 0 else -math.inf) if log else e / s
        return Tensor(np.moveaxis(out, -1, dim), float32)
    raise Unsupported("softmax on symbolic values without a contract stub installed")


SOFTMAX_HOOK = _default_softmax


# ------------------------------------------------------------------ indexing helpers
def _prep_index(t, idx):
    """classify an index expression.  Returns ('basic', numpy_index) or ('sym', spec)."""
    if not isinstance(idx, tuple):
        idx = (idx,)
    out = []
    sym = False
    for i in idx:
        if isinstance(i, Tensor):
            if i.dtype is bool_:
                if _any_sym(i.a):
                    flat = i.a.reshape(-1).copy()
                    for k, x in enumerate(flat):
                        if is_sym(x):
                            flat[k] = explore.EXP.branch(x)  # data-dependent shape: fork until concrete
                    out.append(flat.reshape(i.a.shape).astype(np.bool_))
                else:
                    out.append(i.a.astype(np.bool_))
            elif _any_sym(i.a):
                sym = True
                out.append(i)
            else:
                out.append(i.a.astype(np.int64) if i.a.ndim else _pyint(i.a[()]))
        elif isinstance(i, (list,)):
            i = [x.a[()] if isinstance(x, Tensor) and x.a.ndim == 0 else x for x in i]
            if _builtin_any(is_sym(x) for x in i):  # python list of (partly) symbolic integers, e.g. sampler indices
                sym = True
                out.append(Tensor(np.array(list(i), dtype=object), int64))
            else:
                out.append(np.array(i))
        elif is_sym(i):
            sym = True
            out.append(Tensor(i, int64))
        else:
            out.append(i)
    if not sym:
        return "basic", tuple(out)
    # a (by now concrete) 1-D boolean mask next to a symbolic index: same as the integer positions of its True entries
    out = [np.nonzero(i)[0].astype(np.int64) if isinstance(i, np.ndarray) and i.dtype == np.bool_ and i.ndim == 1 else i for i in out]
    return "sym", tuple(out)


def _expand_ellipsis(idx, ndim):
    n_real = _builtin_sum(1 for i in idx if i is not None and i is not Ellipsis)
    out = []
    for i in idx:
        if i is Ellipsis:
            out.extend([slice(None)] * (ndim - n_real))
        else:
            out.append(i)
    while _builtin_sum(1 for i in out if i is not None) < ndim:
        out.append(slice(None))
    return out


def _sym_index_plan(a, idx):
    """Split a mixed index into: leading permutation so that all advanced (tensor/int-array) indices are first.
    Returns (moved_array, adv_index_arrays(list of np object/int arrays broadcast to S), S, rest_index)"""
    idx = _expand_ellipsis(list(idx), a.ndim)
    if _builtin_any(i is None for i in idx):
        raise Unsupported("None in symbolic advanced index")
    adv_axes = [k for k, i in enumerate(idx) if isinstance(i, (Tensor, np.ndarray)) or isinstance(i, _pyint)]
    # ints are treated as 0-d advanced indices when mixed with symbolic ones: result drops the dim
    arrays = []
    for k in adv_axes:
        i = idx[k]
        if isinstance(i, Tensor):
            arrays.append(i.a)
        elif isinstance(i, np.ndarray):
            if i.dtype == np.bool_:
                raise Unsupported("boolean mask mixed with symbolic advanced index")
            arrays.append(i.astype(object))
        else:
            arrays.append(_obj(i))
    S = np.broadcast_shapes(*[x.shape for x in arrays])
    arrays = [np.broadcast_to(x, S) for x in arrays]
    rest_axes = [k for k in range(a.ndim) if k not in adv_axes]
    moved = np.transpose(a, adv_axes + rest_axes)
    rest_index = tuple(idx[k] for k in rest_axes)
    contiguous = adv_axes == list(range(adv_axes[0], adv_axes[0] + len(adv_axes)))
    insert_at = adv_axes[0] if contiguous else 0
    return moved, arrays, S, rest_index, insert_at, len(adv_axes)


def _sel_rows(sub, i, axis_name="advanced index"):
    """sub[i] along axis 0 for scalar i (python int or z3 Int)"""
    if not is_sym(i):
        i = _pyint(i)
        n = sub.shape[0]
        if not -n <= i < n:
            raise IndexError(f"index {i} is out of bounds for dimension with size {n}")
        return sub[i]
    n = sub.shape[0]
    explore.EXP.obligation(f"{axis_name} in range", z3.And(i >= 0, i < n))
    acc = sub[n - 1]
    for k in range(n - 2, -1, -1):
        if isinstance(acc, np.ndarray):
            acc = U_WHERE(i == k, sub[k], acc)
        else:
            acc = s_where(i == k, sub[k], acc)
    return acc


def _sym_index_get(a, idx):
    moved, arrays, S, rest_index, insert_at, nadv = _sym_index_plan(a, idx)
    probe_rest = moved[(0,) * nadv][rest_index] if rest_index else moved[(0,) * nadv]
    rest_shape = probe_rest.shape if isinstance(probe_rest, np.ndarray) else ()
    out = np.empty(tuple(S) + tuple(rest_shape), dtype=object)
    for pos in np.ndindex(*S):
        sub = moved
        for arr in arrays:
            sub = _sel_rows(sub, arr[pos])
        if rest_index:
            sub = sub[rest_index]
        out[pos] = sub
    if insert_at:
        # numpy/torch: contiguous advanced indices keep their position
        nS = len(S)
        order = list(range(nS, nS + insert_at)) + list(range(nS)) + list(range(nS + insert_at, out.ndim))
        out = np.transpose(out, order)
    return out


def _sym_index_set(a, idx, v):
    moved, arrays, S, rest_index, insert_at, nadv = _sym_index_plan(a, idx)
    probe_rest = moved[(0,) * nadv][rest_index] if rest_index else moved[(0,) * nadv]
    rest_shape = probe_rest.shape if isinstance(probe_rest, np.ndarray) else ()
    full_shape = tuple(S) + tuple(rest_shape)
    if isinstance(v, np.ndarray):
        if insert_at and v.ndim == len(full_shape):
            nS = len(S)
            order = list(range(insert_at, insert_at + nS)) + list(range(insert_at)) + list(range(insert_at + nS, v.ndim))
            v = np.transpose(v, order)
        vb = np.broadcast_to(v, full_shape)
    else:
        vb = None
    dims = moved.shape[:nadv]
    for pos in np.ndindex(*S):
        val = vb[pos] if vb is not None else v
        idxs = [arr[pos] for arr in arrays]
        sym_axes = [k for k, i in enumerate(idxs) if is_sym(i)]
        for k in sym_axes:
            explore.EXP.obligation("advanced index (write) in range", z3.And(idxs[k] >= 0, idxs[k] < dims[k]))
        for combo in itertools.product(*[range(dims[k]) if k in sym_axes else [_pyint(idxs[k])] for k in range(nadv)]):
            cond = True
            for k in sym_axes:
                cond = s_and(cond, idxs[k] == combo[k])
            tgt = moved[combo]
            if isinstance(tgt, np.ndarray):
                view = tgt[rest_index] if rest_index else tgt
                if isinstance(view, np.ndarray):
                    view[...] = U_WHERE(cond, val, view)
                else:
                    tgt[rest_index] = s_where(cond, val, view)
            else:
                moved[combo] = s_where(cond, val, tgt)


# ------------------------------------------------------------------ constructors / module-level API
def _mk(shape, fill, dt):
    a = np.empty(shape, dtype=object)
    v = cast_scalar(fill, dt)
    if a.ndim == 0:
        a[()] = v
    else:
        a.fill(v)
    return Tensor(a, dt)


DEFAULT_FLOAT = float32


def zeros(*shape, size=None, dtype=None, device=None, requires_grad=False, out=None):
    return _mk(_shape_args(shape if size is None else (size,)), 0, dtype or float32)


def ones(*shape, size=None, dtype=None, device=None, requires_grad=False):
    return _mk(_shape_args(shape if size is None else (size,)), 1, dtype or float32)


def empty(*shape, size=None, dtype=None, device=None, **k):
    return _mk(_shape_args(shape if size is None else (size,)), 0, dtype or float32)


def full(size=None, fill_value=None, dtype=None, device=None, **k):
    shape, fill = size, fill_value
    if isinstance(fill, Tensor):
        fill = fill.a.reshape(-1)[0]
    if isinstance(shape, _pyint):
        shape = (shape,)
    return _mk(_shape_args((shape,)), fill, dtype or scalar_dtype(fill))


def zeros_like(t, dtype=None, device=None, **k):
    return _mk(t.a.shape, 0, dtype or t.dtype)


def ones_like(t, dtype=None, device=None, **k):
    return _mk(t.a.shape, 1, dtype or t.dtype)


def full_like(t, v, dtype=None, device=None, **k):
    return _mk(t.a.shape, v, dtype or t.dtype)


def empty_like(t, dtype=None, **k):
    return _mk(t.a.shape, 0, dtype or t.dtype)


def arange(*a, out=None, device=None, dtype=None, **k):
    a = [_concrete_int(x) if not isinstance(x, _pyfloat) else x for x in a]
    vals = list(np.arange(*a).tolist())
    dt = dtype or (float32 if _builtin_any(isinstance(x, _pyfloat) for x in a) else int64)
    return Tensor(np.array(vals, dtype=object), dt)._cast(dt) if vals else Tensor(np.empty((0,), dtype=object), dt)


def linspace(start, end, steps, **k):
    return Tensor(np.array([start + (end - start) * i / (steps - 1) for i in range(steps)], dtype=object), float32)


def eye(n, m=None, dtype=None, device=None):
    m = m or n
    a = np.empty((n, m), dtype=object)
    dt = dtype or float32
    for i in range(n):
        for j in range(m):
            a[i, j] = cast_scalar(1 if i == j else 0, dt)
    return Tensor(a, dt)


def tensor(data, dtype=None, device=None, requires_grad=False):
    if isinstance(data, Tensor):
        return data.clone() if dtype is None else data._cast(dtype)

    def conv(d):
        if isinstance(d, Tensor):
            return conv(d.a.tolist() if d.a.ndim else d.a[()])
        if isinstance(d, np.ndarray):
            return conv(d.tolist())
        if isinstance(d, (list, tuple)):
            return [conv(x) for x in d]
        if isinstance(d, np.generic):
            return d.item()
        return d

    data = conv(data)

    def shape_of(d):
        if isinstance(d, list):
            return (len(d),) + (shape_of(d[0]) if d else ())
        return ()

    shp = shape_of(data)
    a = np.empty(shp, dtype=object)

    def fill(d, pos):
        if isinstance(d, list):
            for i, x in enumerate(d):
                fill(x, pos + (i,))
        else:
            a[pos] = d

    fill(data, ())
    flat = a.reshape(-1)
    if dtype is None:
        if flat.size == 0:
            dtype = float32
        elif _builtin_any(_is_float_like(x) for x in flat):
            dtype = float32
        elif _builtin_all(_is_bool_like(x) for x in flat):
            dtype = bool_
        else:
            dtype = int64
    return Tensor(_u(lambda x: cast_scalar(x, dtype), 1)(a) if flat.size else a, dtype)


as_tensor = tensor


def from_numpy(x):
    x = np.asarray(x)
    dt = {"b": bool_, "i": int64, "u": int64, "f": float32 if x.dtype == np.float32 else float64}.get(x.dtype.kind)
    if dt is None:
        raise Unsupported(f"from_numpy dtype {x.dtype}")
    if x.dtype == np.int32:
        dt = int32
    return Tensor(_obj(x), dt)


def FloatTensor(*data):
    if data and builtins.all(isinstance(d, _pyint) for d in data):
        return _mk(tuple(data), 0.0, float32)  # FloatTensor(d0, d1, ...): uninitialised tensor of that shape
    return tensor(data[0], dtype=float32)


def LongTensor(data):
    return tensor(data, dtype=int64)


def BoolTensor(data):
    return tensor(data, dtype=bool_)


def is_tensor(x):
    return isinstance(x, Tensor)


def numel(t):
    return t.numel()


def cat(ts, dim=0, out=None):
    ts = [t for t in ts if not (t.a.ndim == 1 and t.a.size == 0)] or list(ts)
    dt = ts[0].dtype
    for t in ts[1:]:
        dt = promote(dt, t.dtype)
    return Tensor(np.concatenate([t._cast(dt).a for t in ts], axis=dim), dt)


concat = concatenate = cat


def stack(ts, dim=0):
    ts = list(ts)
    dt = ts[0].dtype
    for t in ts[1:]:
        dt = promote(dt, t.dtype)
    return Tensor(np.stack([t._cast(dt).a for t in ts], axis=dim), dt)


def hstack(ts):
    ts = list(ts)
    return cat(ts, 0) if ts[0].dim() == 1 else cat(ts, 1)


def vstack(ts):
    ts = [t if t.dim() > 1 else t.unsqueeze(0) for t in ts]
    return cat(ts, 0)


def clamp(t, min=None, max=None):  # noqa: A002
    a = t.a
    dt = t.dtype
    for v in (min, max):
        if v is not None:
            dt = promote(dt, v.dtype) if isinstance(v, Tensor) else result_dtype(dt, v)
    if min is not None:
        a = U_MAX(a, min.a if isinstance(min, Tensor) else min)
    if max is not None:
        a = U_MIN(a, max.a if isinstance(max, Tensor) else max)
    return Tensor(a, dt)


clip = clamp


def roll(t, shifts, dims=None):
    if dims is None:
        return Tensor(np.roll(t.a.reshape(-1), shifts).reshape(t.a.shape), t.dtype)
    return Tensor(np.roll(t.a, shifts, axis=dims), t.dtype)


def where(c, a=None, b=None):
    if a is None:
        return nonzero(c, as_tuple=True)
    aa = a.a if isinstance(a, Tensor) else a
    bb = b.a if isinstance(b, Tensor) else b
    if isinstance(a, Tensor) and isinstance(b, Tensor):
        dt = promote(a.dtype, b.dtype)
    elif isinstance(a, Tensor):
        dt = result_dtype(a.dtype, b)
    elif isinstance(b, Tensor):
        dt = result_dtype(b.dtype, a)
    else:
        dt = promote(scalar_dtype(a), scalar_dtype(b))
    return Tensor(U_WHERE(c.a, aa, bb), dt)


def maximum(a, b):
    return Tensor(U_MAX(a.a, b.a), promote(a.dtype, b.dtype))


def minimum(a, b):
    return Tensor(U_MIN(a.a, b.a), promote(a.dtype, b.dtype))


def max(a, dim=None, keepdim=False, **kw):  # noqa: A001
    if isinstance(dim, Tensor):
        return maximum(a, dim)
    return a.max(dim, keepdim)


def min(a, dim=None, keepdim=False, **kw):  # noqa: A001
    if isinstance(dim, Tensor):
        return minimum(a, dim)
    return a.min(dim, keepdim)


def _method(name):
    def f(t, *a, **k):
        return getattr(t, name)(*a, **k)

    f.__name__ = name
    return f


for _n in (
    "sum mean prod all any argmax argmin cumsum norm sort argsort topk abs exp log tanh sin cos sqrt sigmoid floor ceil "
    "round squeeze unsqueeze transpose permute flatten reshape gather scatter scatter_add index_select masked_fill "
    "masked_select repeat_interleave chunk split unbind isinf isnan isfinite sign count_nonzero flip std var amax amin "
    "softmax log_softmax triu tril diagonal clone square unique movedim narrow take_along_dim unflatten tile"
).split():
    globals()[_n] = _method(_n)


def abs(t):  # noqa: A001
    return t.abs()


def sum(t, dim=None, keepdim=False, dtype=None):  # noqa: A001
    return t.sum(dim, keepdim, dtype=dtype)


def any(t, dim=None, keepdim=False):  # noqa: A001
    return t.any(dim, keepdim) if isinstance(t, Tensor) else _builtin_any(t)


def all(t, dim=None, keepdim=False):  # noqa: A001
    return t.all(dim, keepdim) if isinstance(t, Tensor) else _builtin_all(t)


def logical_and(a, b):
    return Tensor(U_AND(a.a, b.a), bool_)


def logical_or(a, b):
    return Tensor(U_OR(a.a, b.a), bool_)


def logical_not(a):
    return Tensor(U_NOT(a.a), bool_)


def logical_xor(a, b):
    return Tensor(U_XOR(a.a, b.a), bool_)


def add(a, b):
    return a + b


def sub(a, b):
    return a - b


def mul(a, b):
    return a * b


def div(a, b, rounding_mode=None):
    if rounding_mode == "floor":
        return a // b
    if rounding_mode == "trunc":
        return a._bin(b, U_TRUNCDIV)
    return a / b


def pow(a, p):  # noqa: A001
    return a**p


def neg(a):
    return -a


def eq(a, b):
    return a == b


def ne(a, b):
    return a != b


def gt(a, b):
    return a > b


def ge(a, b):
    return a >= b


def lt(a, b):
    return a < b


def le(a, b):
    return a <= b


def equal(a, b):
    if a.a.shape != b.a.shape:
        return False
    return _pybool((a == b).all())


def isclose(a, b, rtol=1e-05, atol=1e-08, equal_nan=False):
    b = b if isinstance(b, Tensor) else tensor(b)
    diff = (a - b).abs()
    return diff <= (b.abs() * rtol + atol)


def allclose(a, b, rtol=1e-05, atol=1e-08, equal_nan=False):
    return _pybool(isclose(a, b, rtol, atol).all())


def nan_to_num(t, nan=0.0, posinf=None, neginf=None):
    # torch semantics: NaN -> nan (none exist in this model), +inf / -inf -> posinf / neginf, by default the largest /
    # smallest finite float32
    def f(x):
        if _isxr(x):
            x = _xr(x)
            return s_where(x.pinf, posinf if posinf is not None else 3.4028234663852886e38, s_where(x.ninf, neginf if neginf is not None else -3.4028234663852886e38, x.v))
        return x
    return Tensor(_u(f, 1)(t.a), t.dtype)


def nonzero(t, as_tuple=False):
    a = t.a
    flat = a.reshape(-1).copy()
    for k, x in enumerate(flat):
        if is_sym(x):
            flat[k] = explore.EXP.branch(s_truth(x))  # data-dependent shape: fork
        elif isinstance(x, XR):
            flat[k] = explore.EXP.branch(s_truth(x))
    mask = np.array([_pybool(x) for x in flat], dtype=bool).reshape(a.shape)
    idx = np.argwhere(mask)
    if as_tuple:
        return tuple(Tensor(_obj(idx[:, d]), int64) for d in range(a.ndim))
    return Tensor(_obj(idx), int64)


argwhere = nonzero


def matmul(a, b):
    A, Bm = a.a, b.a
    if A.ndim == 1 and Bm.ndim == 1:
        acc = 0.0
        for x, y in zip(A, Bm):
            acc = s_add(acc, s_mul(x, y))
        return Tensor(_obj(acc), promote(a.dtype, b.dtype))
    squeeze_a = squeeze_b = False
    if A.ndim == 1:
        A, squeeze_a = A[None, :], True
    if Bm.ndim == 1:
        Bm, squeeze_b = Bm[:, None], True
    lead = np.broadcast_shapes(A.shape[:-2], Bm.shape[:-2])
    A = np.broadcast_to(A, lead + A.shape[-2:])
    Bm = np.broadcast_to(Bm, lead + Bm.shape[-2:])
    n, k, m = A.shape[-2], A.shape[-1], Bm.shape[-1]
    assert Bm.shape[-2] == k, f"matmul shape mismatch {a.shape} @ {b.shape}"
    out = np.empty(lead + (n, m), dtype=object)
    for pos in np.ndindex(*lead):
        for i in range(n):
            for j in range(m):
                acc = 0.0 if _isf(promote(a.dtype, b.dtype)) else 0
                for l in range(k):
                    acc = s_add(acc, MUL_HOOK(A[pos + (i, l)], Bm[pos + (l, j)]))
                out[pos + (i, j)] = acc
    if squeeze_a:
        out = out[..., 0, :]
    if squeeze_b:
        out = out[..., 0]
    return Tensor(out, promote(a.dtype, b.dtype))


MUL_HOOK = s_mul
bmm = mm = matmul


def einsum(eq, *ops):
    from . import einops_

    return einops_.torch_einsum(eq, *ops)


def diag_embed(t, offset=0, dim1=-2, dim2=-1):
    n = t.a.shape[-1] + _builtin_abs(offset)
    out = np.empty(t.a.shape[:-1] + (n, n), dtype=object)
    out.fill(cast_scalar(0, t.dtype))
    for i in range(t.a.shape[-1]):
        r, c = (i, i + offset) if offset >= 0 else (i - offset, i)
        out[..., r, c] = t.a[..., i]
    return Tensor(out, t.dtype)


def diag(t, diagonal=0):
    if t.a.ndim == 1:
        return diag_embed(t, diagonal)
    return Tensor(np.diagonal(t.a, diagonal).copy(), t.dtype)


def triu(t, diagonal=0):
    out = t.a.copy()
    r, c = out.shape[-2:]
    for i in range(r):
        for j in range(c):
            if j - i < diagonal:
                out[..., i, j] = cast_scalar(0, t.dtype)
    return Tensor(out, t.dtype)


def cdist(x, y, p=2.0):
    d = x.unsqueeze(-2) - y.unsqueeze(-3)
    return d.norm(p=_pyint(p), dim=-1)


def meshgrid(*ts, indexing="ij"):
    arrs = np.meshgrid(*[t.a for t in ts], indexing=indexing)
    return tuple(Tensor(_obj(a), ts[0].dtype) for a in arrs)


def scatter_add_fn(input, dim, index, src):  # noqa: A002
    return input.scatter_add(dim, index, src)


def manual_seed(s):
    return Generator()


def seed():
    return 0


class Generator:
    def __init__(self, device=None):
        self._state = None

    def manual_seed(self, s):
        return self

    def get_state(self):
        return self._state

    def set_state(self, s):
        self._state = s

    def seed(self):
        return 0


class _FInfo:
    def __init__(self, dt):
        self.max, self.min, self.eps, self.tiny = 3.4028234663852886e38, -3.4028234663852886e38, 1.1920928955078125e-07, 1.1754943508222875e-38


def finfo(dt=None):
    return _FInfo(dt)


# ------------------------------------------------------------------ randomness: fresh symbols with the documented range
RANDOM_LOG = []  # (kind, tensor) so that harnesses / replays can read back what was drawn


def _fresh_tensor(kind, shape, dt, lo=None, hi=None, strict_hi=True):
    E = explore.EXP
    a = np.empty(shape, dtype=object)
    base = E.fresh_name(kind)
    for k, pos in enumerate(np.ndindex(*shape)):
        v = z3.Real(f"{base}_{k}") if _isf(dt) else z3.Int(f"{base}_{k}")
        if lo is not None:
            E.assume(v >= lo)
        if hi is not None:
            E.assume(v < hi if strict_hi else v <= hi)
        a[pos] = v
    t = Tensor(a, dt)
    RANDOM_LOG.append((kind, t))
    return t


def rand(*shape, generator=None, device=None, dtype=None, **k):
    return _fresh_tensor("rand", _shape_args(shape), float32, 0, 1)


def rand_like(t, **k):
    return rand(*t.shape)


def randn(*shape, generator=None, device=None, dtype=None, **k):
    return _fresh_tensor("randn", _shape_args(shape), float32)


def randn_like(t, **k):
    return randn(*t.shape)


def normal(mean=0.0, std=1.0, size=None, generator=None, **k):
    if size is None:
        size = mean.shape if isinstance(mean, Tensor) else std.shape
    return _fresh_tensor("normal", _shape_args((size,)), float32)


def randint(low, high=None, size=None, generator=None, device=None, dtype=None, **k):
    if size is None:
        low, high, size = 0, low, high
    elif high is None:  # torch.randint(high, size=...)
        low, high = 0, low
    if isinstance(low, Tensor):
        low = low.item()
    if isinstance(high, Tensor):
        high = high.item()
    t = _fresh_tensor("randint", _shape_args((size,)), dtype or int64, low, high)
    if RANDINT_HOOK is not None:
        t = RANDINT_HOOK(t, low, high)
    return t


ITEM_SYM_HOOK = None  # harness hook: what .item() returns for a symbolic number (default: fork over integer values)
RANDINT_HOOK = None  # harness hook, e.g. case-split a small-range draw that later appears as a divisor


def randperm(n, generator=None, device=None, **k):
    t = _fresh_tensor("randperm", (n,), int64, 0, n)
    if n > 1:
        explore.EXP.assume(z3.Distinct(*list(t.a)))
    return t


def lerp(a, b, w):
    """torch.lerp: a + w * (b - a)"""
    return a + (b - a) * w


def bernoulli(p, generator=None):
    raise Unsupported("bernoulli")


def multinomial(weights, num_samples, replacement=False, generator=None):
    """contract: each drawn index has positive weight; without replacement the indices of a row are distinct
    (torch raises if fewer positive weights than samples: emitted as an obligation)"""
    E = explore.EXP
    w = weights.a if weights.a.ndim == 2 else weights.a[None, :]
    rows, n = w.shape
    out = _fresh_tensor("multinomial", (rows, num_samples), int64, 0, n)
    for r in range(rows):
        for x in w[r]:
            E.obligation("multinomial weights non-negative", s_ge(x, 0))
        pos = [s_gt(x, 0) for x in w[r]]
        cnt = 0
        for p in pos:
            cnt = s_add(cnt, s_where(p, 1, 0))
        E.obligation("multinomial: enough positive weights", s_ge(cnt, 1 if replacement else num_samples))
        for s in range(num_samples):
            i = out.a[r, s]
            E.assume(z3.Or(*[z3.And(i == k, _bool(pos[k])) for k in range(n) if pos[k] is not False] or [z3.BoolVal(False)]))
        if not replacement and num_samples > 1:
            E.assume(z3.Distinct(*list(out.a[r])))
    return out if weights.a.ndim == 2 else Tensor(out.a[0], int64)


def sym_tensor(name, shape, dt):
    a = np.empty(shape, dtype=object)
    for pos in np.ndindex(*shape):
        nm = name + "_" + "_".join(map(str, pos)) if shape else name
        if dt is bool_:
            a[pos] = z3.Bool(nm)
        elif _isf(dt):
            a[pos] = z3.Real(nm)
        else:
            a[pos] = z3.Int(nm)
    return Tensor(a, dt)


class _NoGrad:
    """context manager + decorator; gradient-mode stand-ins override GRAD_HOOK"""

    def __init__(self, *a, **k):
        pass

    def __call__(self, f=None):
        if callable(f):
            def wrapped(*a, **k):
                with self:
                    return f(*a, **k)

            wrapped.__name__ = getattr(f, "__name__", "wrapped")
            wrapped.__wrapped__ = f
            return wrapped
        return self

    def __enter__(self):
        GRAD_STACK.append(False)
        return self

    def __exit__(self, *a):
        GRAD_STACK.pop()
        return False


GRAD_STACK = []


def grad_enabled():
    return not GRAD_STACK or GRAD_STACK[-1]


def no_grad(f=None):
    return _NoGrad()(f) if callable(f) else _NoGrad()


def inference_mode(mode=True):
    if callable(mode):
        return _NoGrad()(mode)
    return _NoGrad()


class enable_grad(_NoGrad):
    def __enter__(self):
        GRAD_STACK.append(True)
        return self


class set_grad_enabled(_NoGrad):
    def __init__(self, mode):
        self.mode = mode

    def __enter__(self):
        GRAD_STACK.append(self.mode)
        return self


def is_grad_enabled():
    return grad_enabled()
