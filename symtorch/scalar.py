"""symtorch scalar layer.

A tensor element is one of
  * a Python bool / int / float (concrete; floats may be +-inf),
  * a z3 Bool / Int / Real term,
  * an XR: extended real (flags for +inf / -inf plus a finite payload), flags concrete or z3 Bool.
All operators below are total on these kinds or raise Unsupported (never guess).
"""
from __future__ import annotations

import builtins
import math
from fractions import Fraction

import z3

_pybool, _pyint, _pyfloat = builtins.bool, builtins.int, builtins.float


class Unsupported(Exception):
    """operation not modelled by the stand-in: the check must stop (exit 2), never pass"""


class PathAbort(BaseException):
    """current path infeasible / finished (BaseException: must not be swallowed by `except Exception`)"""


def is_sym(x):
    return isinstance(x, z3.ExprRef)


_MULC = z3.Function("mulc", z3.RealSort(), z3.RealSort(), z3.RealSort())


class XR:
    """value in R ∪ {+inf, -inf}; `v` is the payload when neither flag holds"""

    __slots__ = ("pinf", "v", "ninf")

    def __init__(self, pinf, v, ninf=False):
        self.pinf, self.v, self.ninf = pinf, v, ninf

    def __repr__(self):
        return f"XR(+inf={self.pinf}, v={self.v}, -inf={self.ninf})"


def is_inf(x):
    return isinstance(x, _pyfloat) and math.isinf(x)


def _isxr(x):
    return isinstance(x, XR) or is_inf(x)


def _xr(x):
    if isinstance(x, XR):
        return x
    if is_inf(x):
        return XR(x > 0, 0.0, x < 0)
    return XR(False, x, False)


def xr_simplify(x):
    """collapse an XR whose flags are concretely false"""
    if isinstance(x, XR):
        if x.pinf is True and not is_sym(x.ninf):
            return math.inf
        if x.ninf is True and not is_sym(x.pinf):
            return -math.inf
        if x.pinf is False and x.ninf is False:
            return x.v
    return x


def is_symbolic(x):
    """True if the element carries any solver term"""
    if isinstance(x, XR):
        return is_sym(x.pinf) or is_sym(x.ninf) or is_sym(x.v)
    return is_sym(x)


# ------------------------------------------------------------------ conversions
FPMODE = [False]  # when set, float-like values are IEEE float32 terms (z3 FloatingPoint theory, round-to-nearest-even)
FSORT = z3.Float32()


def _fp(x):
    if is_sym(x):
        if z3.is_fp(x):
            return x
        if z3.is_bool(x):
            return z3.If(x, z3.FPVal(1.0, FSORT), z3.FPVal(0.0, FSORT))
        if z3.is_int(x):
            raise Unsupported("float32 mode: symbolic integer converted to float (write the value as a choice between float constants)")
        raise Unsupported("float32 mode: real-sorted term")
    if isinstance(x, XR):
        raise Unsupported("float32 mode: extended real")
    if isinstance(x, _pybool):
        return z3.FPVal(1.0 if x else 0.0, FSORT)
    if isinstance(x, Fraction):
        return z3.FPVal(_pyfloat(x), FSORT)
    return z3.FPVal(_pyfloat(x), FSORT)


def _real(x):
    if type(x).__module__ == "numpy":  # numpy scalar that slipped in through an index / broadcast
        x = x.item()
    if FPMODE[0]:
        return _fp(x)
    if is_sym(x):
        if z3.is_int(x):
            return z3.ToReal(x)
        if z3.is_bool(x):
            return z3.If(x, z3.RealVal(1), z3.RealVal(0))
        return x
    if isinstance(x, XR):
        raise Unsupported("extended real used where a finite real is required")
    if isinstance(x, _pybool):
        return z3.RealVal(1 if x else 0)
    if isinstance(x, Fraction):
        return z3.RealVal(str(x))
    if isinstance(x, _pyfloat):
        if math.isinf(x) or math.isnan(x):
            raise Unsupported("inf/nan used where a finite real is required")
        # a python float stands for the decimal literal it prints as (4.6 -> 23/5), the same reading z3py applies
        # to floats mixed into terms; keeps constants consistent between harness contracts and the executed source
        return z3.RealVal(str(Fraction(repr(x))))
    return z3.RealVal(_pyint(x))


def _int(x):
    if is_sym(x):
        if z3.is_bool(x):
            return z3.If(x, z3.IntVal(1), z3.IntVal(0))
        if z3.is_real(x):
            return z3.If(x >= 0, z3.ToInt(x), -z3.ToInt(-x))
        return x
    if isinstance(x, XR):
        raise Unsupported("extended real cast to int")
    return z3.IntVal(_pyint(x))


def _bool(x):
    if is_sym(x):
        if z3.is_bool(x):
            return x
        return x != 0
    if isinstance(x, XR):
        return s_or(s_or(x.pinf, x.ninf), s_ne(x.v, 0))
    return z3.BoolVal(_pybool(x))


def _is_float_like(x):
    return isinstance(x, (_pyfloat, Fraction, XR)) or (is_sym(x) and (z3.is_real(x) or z3.is_fp(x)))


def _is_bool_like(x):
    return isinstance(x, _pybool) or (is_sym(x) and z3.is_bool(x))


# ------------------------------------------------------------------ boolean ops
def s_and(a, b):
    if not is_sym(a):
        return b if _pybool(a) else False
    if not is_sym(b):
        return a if _pybool(b) else False
    return z3.And(_bool(a), _bool(b))


def s_or(a, b):
    if not is_sym(a):
        return True if _pybool(a) else b
    if not is_sym(b):
        return True if _pybool(b) else a
    return z3.Or(_bool(a), _bool(b))


def s_not(a):
    if not is_sym(a):
        return not _pybool(a)
    return z3.Not(_bool(a))


def s_xor(a, b):
    return s_or(s_and(a, s_not(b)), s_and(s_not(a), b))


def b_and(a, b):
    """logical and of two values of any kind (truthiness)"""
    return s_and(a if _is_bool_like(a) else s_truth(a), b if _is_bool_like(b) else s_truth(b))


def b_or(a, b):
    return s_or(a if _is_bool_like(a) else s_truth(a), b if _is_bool_like(b) else s_truth(b))


def s_truth(a):
    if isinstance(a, XR):
        return _bool(a)
    if is_sym(a):
        return _bool(a)
    return _pybool(a)


# ------------------------------------------------------------------ arithmetic (finite kinds)
F32 = True  # concrete float arithmetic is rounded to float32 after every operation (what the real tensors do)


def f32(x):
    import numpy as np

    if isinstance(x, _pyfloat) and not math.isinf(x):
        return _pyfloat(np.float32(x))
    return x


def _arith(a, b, op):
    if not is_sym(a) and not is_sym(b):
        if F32 and (isinstance(a, _pyfloat) or isinstance(b, _pyfloat)) and not isinstance(a, Fraction) and not isinstance(b, Fraction):
            return f32(op(f32(_pyfloat(a)), f32(_pyfloat(b))))
        return op(a, b)
    if _is_float_like(a) or _is_float_like(b):
        return op(_real(a), _real(b))
    return op(_int(a), _int(b))


def _f_add(a, b):
    if not is_sym(a) and not isinstance(a, _pybool) and a == 0 and is_sym(b) and (z3.is_real(b) or not isinstance(a, _pyfloat)):
        return b
    if not is_sym(b) and not isinstance(b, _pybool) and b == 0 and is_sym(a) and (z3.is_real(a) or not isinstance(b, _pyfloat)):
        return a
    return _arith(a, b, lambda x, y: x + y)


def _f_sub(a, b):
    if not is_sym(b) and not isinstance(b, _pybool) and b == 0 and is_sym(a) and (z3.is_real(a) or not isinstance(b, _pyfloat)):
        return a
    return _arith(a, b, lambda x, y: x - y)


MULC_APPS = []  # (a, b, mulc(a,b)) recorded while OPAQUE_MUL is on


def unit_factor_axioms(is_unit):
    """sound bounds for opaque products with a factor known to lie in [0,1): 0 <= |a*t| <= |a|, same sign as a"""
    ax = []
    for ra, rb, app in MULC_APPS:
        for t_, o_ in ((ra, rb), (rb, ra)):
            if is_unit(t_):
                ax.append(z3.If(o_ >= 0, z3.And(app >= 0, app <= o_), z3.And(app <= 0, app >= o_)))
    return ax


UNIT_EXACT = [z3.RealVal(x) for x in ("1/2", "3/4", "1/1024", "1023/1024", "65535/65536")]
UNIT_PRED = [None]  # predicate on z3 terms: "this factor lies in [0,1)"
OPAQUE_MUL = [False]  # when set, symbolic*symbolic real products become a commutative uninterpreted function


def _f_mul(a, b):
    if OPAQUE_MUL[0] and is_sym(a) and is_sym(b) and not z3.is_bool(a) and not z3.is_bool(b):
        ra, rb = _real(a), _real(b)
        if ra.get_id() > rb.get_id():
            ra, rb = rb, ra
        app = _MULC(ra, rb)
        MULC_APPS.append((ra, rb, app))
        if UNIT_PRED[0] is not None:  # eager bounds for products with a factor known to lie in [0,1)
            from . import explore

            for t_, o_ in ((ra, rb), (rb, ra)):
                if UNIT_PRED[0](t_):
                    explore.EXP.assume(z3.If(o_ > 0, z3.And(app >= 0, app < o_, z3.Implies(t_ == 0, app == 0)), z3.If(o_ < 0, z3.And(app <= 0, app > o_, z3.Implies(t_ == 0, app == 0)), app == 0)))
                    for c_ in UNIT_EXACT:  # true facts that make the product exact for a few factor values (replayable models)
                        explore.EXP.assume(z3.Implies(t_ == c_, app == o_ * c_))
        return app
    if _is_bool_like(a) and is_sym(a):
        return s_where(a, b, 0.0 if _is_float_like(b) else 0)
    if _is_bool_like(b) and is_sym(b):
        return s_where(b, a, 0.0 if _is_float_like(a) else 0)
    for c, o in ((a, b), (b, a)):
        if isinstance(c, _pybool):
            return o if c else (0.0 if _is_float_like(o) else 0)
        # indicator factor If(cond, 1, 0) (e.g. one_hot output, bool cast to number): keep the product linear
        if is_sym(c) and z3.is_app_of(c, z3.Z3_OP_ITE) and not z3.is_bool(c):
            t_, e_ = c.arg(1), c.arg(2)
            if (z3.is_int_value(t_) or z3.is_rational_value(t_)) and (z3.is_int_value(e_) or z3.is_rational_value(e_)):
                tv = t_.as_long() if z3.is_int_value(t_) else None
                ev = e_.as_long() if z3.is_int_value(e_) else None
                if tv is None:
                    tv = t_.numerator_as_long() / t_.denominator_as_long()
                if ev is None:
                    ev = e_.numerator_as_long() / e_.denominator_as_long()
                if {tv, ev} <= {0, 1, 0.0, 1.0}:
                    zero = 0.0 if (_is_float_like(o) or _is_float_like(c)) else 0
                    return s_where(c.arg(0), o if tv == 1 else zero, o if ev == 1 else zero)
        if not is_sym(c) and not isinstance(c, _pybool):
            if c == 0:
                return 0.0 if (_is_float_like(c) or _is_float_like(o)) else 0
            if c == 1 and is_sym(o) and (z3.is_real(o) or not isinstance(c, _pyfloat)):
                return o
    return _arith(a, b, lambda x, y: x * y)


def s_add(a, b):
    if _isxr(a) or _isxr(b):
        a, b = _xr(a), _xr(b)
        bad = s_or(s_and(a.pinf, b.ninf), s_and(a.ninf, b.pinf))
        if bad is True:
            raise Unsupported("inf - inf")
        if is_sym(bad):
            from . import explore

            explore.EXP.obligation("no inf-inf", z3.Not(bad))
        return xr_simplify(XR(s_or(a.pinf, b.pinf), _f_add(a.v, b.v), s_or(a.ninf, b.ninf)))
    return _f_add(a, b)


def s_neg(a):
    if _isxr(a):
        a = _xr(a)
        return xr_simplify(XR(a.ninf, _f_sub(0.0, a.v), a.pinf))
    if not is_sym(a):
        return -a
    if z3.is_bool(a):
        return -_int(a)
    return -a


def s_sub(a, b):
    if _isxr(a) or _isxr(b):
        return s_add(a, s_neg(b))
    return _f_sub(a, b)


def s_mul(a, b):
    if _isxr(a) or _isxr(b):
        for x, c in ((a, b), (b, a)):
            if _isxr(x) and not _isxr(c):
                if _is_bool_like(c):
                    return s_where(c, x, 0.0)
                if not is_sym(c):
                    x = _xr(x)
                    if c > 0:
                        return xr_simplify(XR(x.pinf, _f_mul(x.v, c), x.ninf))
                    if c < 0:
                        return xr_simplify(XR(x.ninf, _f_mul(x.v, c), x.pinf))
                    if x.pinf is False and x.ninf is False:
                        return 0.0
                    if x.pinf is True or x.ninf is True:
                        raise Unsupported("0 * inf")
                    from . import explore

                    explore.EXP.obligation("0 * x: x is finite (0*inf would be NaN)", s_and(s_not(x.pinf), s_not(x.ninf)))
                    return 0.0
                # symbolic factor: sound only for a positive factor -> emitted as an obligation (checked, not assumed)
                from . import explore

                x = _xr(x)
                explore.EXP.obligation("factor multiplying an extended real is positive", _real(c) > 0)
                return xr_simplify(XR(x.pinf, _f_mul(x.v, c), x.ninf))
        a, b = _xr(a), _xr(b)
        if not is_sym(a.pinf) and not is_sym(a.ninf) and not is_sym(b.pinf) and not is_sym(b.ninf):
            if (a.pinf or a.ninf) and (b.pinf or b.ninf):
                neg = _pybool(a.ninf) != _pybool(b.ninf)
                return -math.inf if neg else math.inf
        raise Unsupported("extended real * extended real")
    return _f_mul(a, b)


def s_div(a, b):
    if _isxr(b):
        b = _xr(b)
        if (b.pinf is True or b.ninf is True) and not _isxr(a):
            return 0.0
        raise Unsupported("division by extended real")
    if isinstance(a, XR) or is_inf(a):
        a = _xr(a)
        if is_sym(b):
            # sign of a symbolic divisor: callers divide by positive temperatures / counts only
            from . import explore

            explore.EXP.obligation("divisor of an extended real is positive", _real(b) > 0)
            return xr_simplify(XR(a.pinf, s_div(a.v, b), a.ninf))
        if b > 0:
            return xr_simplify(XR(a.pinf, s_div(a.v, b), a.ninf))
        if b < 0:
            return xr_simplify(XR(a.ninf, s_div(a.v, b), a.pinf))
        raise Unsupported("inf / 0")
    if not is_sym(a) and not is_sym(b):
        if b == 0:
            if a == 0:
                raise Unsupported("0/0")
            return math.copysign(math.inf, a)
        if F32 and not isinstance(a, Fraction) and not isinstance(b, Fraction):
            return f32(f32(_pyfloat(a)) / f32(_pyfloat(b)))
        return a / b
    if not is_sym(b):
        if b == 0:
            raise Unsupported("symbolic / 0")
        if b == 1:
            return _real(a)
        if isinstance(b, _pyfloat) and not isinstance(b, _pybool) and not FPMODE[0]:  # reals: keep the term linear (float32: a true division)
            return _real(a) * _real(Fraction(1) / Fraction(repr(b)))
    else:
        from . import explore

        explore.EXP.obligation("division by a non-zero value", _real(b) != 0)
    return _real(a) / _real(b)


def s_floordiv(a, b):
    if not is_sym(a) and not is_sym(b):
        return a // b
    if _is_float_like(a) or _is_float_like(b):
        q = _real(a) / _real(b)
        return z3.ToReal(z3.ToInt(q))
    if is_sym(b):
        raise Unsupported("floor division by a symbolic integer")
    return _int(a) / _int(b) if b > 0 else -(_int(a) / _int(-b))  # z3 int div: floor for positive divisor


def s_truncdiv(a, b):
    if not is_sym(a) and not is_sym(b):
        return _pyint(a / b)
    q = s_floordiv(s_abs(a), s_abs(b))
    neg = s_xor(s_lt(a, 0), s_lt(b, 0))
    return s_where(neg, s_neg(q), q)


def s_mod(a, b):
    if not is_sym(a) and not is_sym(b):
        return a % b
    if _is_float_like(a) or _is_float_like(b):
        return s_sub(a, s_mul(s_floordiv(a, b), b))
    if is_sym(b):
        raise Unsupported("modulo by a symbolic integer")
    if b <= 0:
        raise Unsupported("modulo by non-positive constant")
    return _int(a) % _int(b)


def s_abs(a):
    if _isxr(a):
        a = _xr(a)
        return xr_simplify(XR(s_or(a.pinf, a.ninf), s_abs(a.v), False))
    if not is_sym(a):
        return abs(a)
    return s_where(s_ge(a, 0), a, s_neg(a))


def s_pow(a, p):
    if not is_sym(a) and not is_sym(p):
        return a**p
    if is_sym(p) or _pyint(p) != p or p < 0:
        raise Unsupported("non-constant / fractional power")
    r = 1.0 if _is_float_like(a) else 1
    for _ in range(_pyint(p)):
        r = s_mul(r, a)
    return r


# ------------------------------------------------------------------ comparison
def _cmp(a, b, op):
    if not is_sym(a) and not is_sym(b):
        return op(a, b)
    if _is_float_like(a) or _is_float_like(b):
        return op(_real(a), _real(b))
    if _is_bool_like(a) and _is_bool_like(b):
        return op(_int(a), _int(b))
    return op(_int(a), _int(b))


def _finite(x):
    return s_and(s_not(x.pinf), s_not(x.ninf))


def s_lt(a, b):
    if _isxr(a) or _isxr(b):
        a, b = _xr(a), _xr(b)
        fa, fb = _finite(a), _finite(b)
        return s_or(
            s_and(a.ninf, s_not(b.ninf)),
            s_or(s_and(fa, b.pinf), s_and(s_and(fa, fb), _cmp(a.v, b.v, lambda x, y: x < y))),
        )
    return _cmp(a, b, lambda x, y: x < y)


def s_le(a, b):
    if _isxr(a) or _isxr(b):
        return s_not(s_lt(b, a))
    return _cmp(a, b, lambda x, y: x <= y)


def s_gt(a, b):
    return s_lt(b, a) if (_isxr(a) or _isxr(b)) else _cmp(a, b, lambda x, y: x > y)


def s_ge(a, b):
    return s_le(b, a) if (_isxr(a) or _isxr(b)) else _cmp(a, b, lambda x, y: x >= y)


def s_eq(a, b):
    if _isxr(a) or _isxr(b):
        a, b = _xr(a), _xr(b)
        fa, fb = _finite(a), _finite(b)
        return s_or(s_and(a.pinf, b.pinf), s_or(s_and(a.ninf, b.ninf), s_and(s_and(fa, fb), _cmp(a.v, b.v, lambda x, y: x == y))))
    if is_sym(a) and is_sym(b) and a.eq(b) and not z3.is_fp(a):
        return True
    if FPMODE[0] and (_is_float_like(a) or _is_float_like(b)):
        return z3.fpEQ(_fp(a), _fp(b))
    return _cmp(a, b, lambda x, y: x == y)


def s_ne(a, b):
    return s_not(s_eq(a, b))


# ------------------------------------------------------------------ selection
def s_where(c, a, b):
    if not is_sym(c):
        return a if _pybool(c) else b
    if _isxr(a) or _isxr(b):
        a, b = _xr(a), _xr(b)
        return xr_simplify(XR(s_where(c, a.pinf, b.pinf), s_where(c, a.v, b.v), s_where(c, a.ninf, b.ninf)))
    if not is_sym(a) and not is_sym(b):
        if type(a) is type(b) and a == b:
            return a
    elif is_sym(a) and is_sym(b) and a.eq(b):
        return a
    c = _bool(c)
    if _is_bool_like(a) and _is_bool_like(b):
        return z3.If(c, _bool(a), _bool(b))
    if _is_float_like(a) or _is_float_like(b):
        return z3.If(c, _real(a), _real(b))
    return z3.If(c, _int(a), _int(b))


def s_max(a, b):
    return s_where(s_ge(a, b), a, b)


def s_min(a, b):
    return s_where(s_le(a, b), a, b)


def s_isinf(a):
    if isinstance(a, XR):
        return s_or(a.pinf, a.ninf)
    return is_inf(a)


def s_isfinite(a):
    return s_not(s_isinf(a))


def s_floor(a):
    if not is_sym(a):
        return _pyfloat(math.floor(a))
    return z3.ToReal(z3.ToInt(_real(a)))


def s_ceil(a):
    if not is_sym(a):
        return _pyfloat(math.ceil(a))
    return -z3.ToReal(z3.ToInt(-_real(a)))


def s_round(a):
    if not is_sym(a):
        return _pyfloat(round(a))
    if z3.is_int(a):
        return a
    # torch.round: half to even
    f = z3.ToInt(a)
    fr = a - z3.ToReal(f)
    half = z3.RealVal("1/2")
    return z3.ToReal(z3.If(fr < half, f, z3.If(fr > half, f + 1, z3.If(f % 2 == 0, f, f + 1))))


def select(idx, vals, name="index"):
    """vals[idx] for a symbolic integer idx over a concrete list; emits a range obligation"""
    if not is_sym(idx):
        return vals[_pyint(idx)]
    from . import explore

    n = len(vals)
    explore.EXP.obligation(f"{name} in range", z3.And(idx >= 0, idx < n))
    acc = vals[n - 1]
    for k in range(n - 2, -1, -1):
        acc = s_where(idx == k, vals[k], acc)
    return acc
