"""Path exploration: `bool(<symbolic>)` forks; the harness is re-executed once per decision prefix."""
from __future__ import annotations

import time

import z3

from .scalar import PathAbort, Unsupported, is_sym, _pybool

import os

RLIMIT = int(os.environ.get("VERIF_RLIMIT", "0"))  # z3 resource limit per query (machine independent); 0 = none
TIMEOUT_MS = int(os.environ.get("VERIF_QUERY_TIMEOUT_MS", "120000"))  # wall-clock guard per query: exceeded = inconclusive, never a pass


DEBUG_LABELS = bool(os.environ.get("VERIF_DEBUG_LABELS"))


class NonDeterministic(BaseException):
    """the harness did not rebuild the same decision sequence when re-executed: results would be meaningless"""


DEADLINE = [None]  # wall-clock deadline of the current job (set by the job runner): a run that cannot finish is inconclusive, never a hang


class Inconclusive(Exception):
    """solver answered unknown / resource limit: never a verdict"""


def _no_silent_bool(self):
    """z3py evaluates `bool(a == b)` structurally (False for different terms) instead of refusing: a raw solver term that leaks
    into Python control flow of the executed source would silently take one branch.  Refuse instead (literals are fine)."""
    if z3.is_true(self):
        return True
    if z3.is_false(self):
        return False
    raise Unsupported("a raw solver term reached Python control flow (bool() of a z3 expression): wrap it in a Tensor so that the explorer forks")


z3.BoolRef.__bool__ = _no_silent_bool


class Explorer:
    def __init__(self):
        self.reset_all()

    def reset_all(self):
        self.solver = z3.Solver()
        self.trace, self.prefix, self.pending, self.pc = [], [], [], []
        self.labels, self.prefix_labels = [], []
        self.shard, self.shard_depth, self._choices = None, 10, []
        self.obligations = []  # (name, condition) collected on the current path
        self.queries = {"sat": 0, "unsat": 0, "unknown": 0}
        self.solver_time = 0.0
        self.paths = 0
        self.max_paths = 200000
        self.fresh = 0
        self.path_axioms = []  # callables returning extra axioms (e.g. norm axioms) added before checks
        self.logic, self._alt = None, None  # logic name for non-incremental per-query solvers (None: incremental default)

    # ---------------------------------------------------------------- per path
    def _new_path(self):
        self.solver = z3.Solver()
        if RLIMIT:
            self.solver.set("rlimit", RLIMIT)
        if TIMEOUT_MS:
            self.solver.set("timeout", TIMEOUT_MS)
        self.trace, self.pc, self.obligations = [], [], []
        self.labels = []
        self._choices = []
        self.fresh = 0
        from . import dist

        dist.reset()

    def fresh_name(self, base):
        self.fresh += 1
        return f"{base}!{self.fresh}"

    def assume(self, c):
        if not is_sym(c):
            if not _pybool(c):
                raise PathAbort()
            return
        self.pc.append(c)
        self.solver.add(c)

    def obligation(self, name, cond):
        """a condition the real library would crash on if false (index range, inf-inf, ...)"""
        if not is_sym(cond):
            if not _pybool(cond):
                raise ObligationFailed(name)
            return
        self.obligations.append((name, cond))

    def _sync_axioms(self):
        from . import dist

        for ax in dist.new_axioms():
            self.solver.add(ax)

    def check(self, *extra):
        self._sync_axioms()
        t = time.time()
        if DEADLINE[0] is not None and t > DEADLINE[0]:
            raise Inconclusive("job time budget exceeded (VERIF_JOB_BUDGET_S): exploration stopped, nothing is concluded")
        if self.logic is not None:
            # non-incremental solver for a specific logic (e.g. QF_FP: fpa2bv + bit-blasting + SAT), rebuilt per query
            s = z3.SolverFor(self.logic)
            s.set("timeout", TIMEOUT_MS)
            s.add(*self.solver.assertions())
            s.add(*extra)
            r = s.check()
            self._alt = s
        else:
            self._alt = None
            r = self.solver.check(*extra)
        self.solver_time += time.time() - t
        self.queries[str(r)] = self.queries.get(str(r), 0) + 1
        return r

    def sat(self, *extra):
        r = self.check(*extra)
        if r == z3.unknown:
            raise Inconclusive(self.solver.reason_unknown())
        return r == z3.sat

    def model(self):
        return self._alt.model() if getattr(self, "_alt", None) is not None else self.solver.model()

    def branch(self, c):
        if not is_sym(c):
            return _pybool(c)
        # NOTE: no simplification-based shortcut here: z3.simplify orders arguments by AST id, which differs between
        # re-executions, and a condition folded to a constant in one run but decided by the solver in another would
        # desynchronise the decision trace.  Only literal constants are skipped.
        if z3.is_true(c):
            return True
        if z3.is_false(c):
            return False
        i = len(self.trace)
        lab = 0
        if i < len(self.prefix):
            d = self.prefix[i]
        else:
            can_t = self.sat(c)
            can_f = self.sat(z3.Not(c))
            if can_t and can_f:
                self.pending.append((self.trace + [False], self.labels + [lab]))
                d = True
            elif can_t:
                d = True
            elif can_f:
                d = False
            else:
                raise PathAbort()
        self.trace.append(d)
        self.labels.append(lab)
        self.assume(c if d else z3.Not(c))
        self._shard_step(d)
        return d

    def choose(self, n):
        """n-ary decision made by the harness (e.g. which admitted action); explores all"""
        if n <= 0:
            raise PathAbort()
        i = len(self.trace)
        if i < len(self.prefix):
            d = self.prefix[i]
            if not isinstance(d, int) or isinstance(d, bool) or d >= n:
                raise NonDeterministic(f"non-deterministic harness: replayed decision {d!r} at position {i} does not fit a {n}-ary choice (prefix={self.prefix})")
        else:
            for alt in range(n - 1, 0, -1):
                self.pending.append((self.trace + [alt], self.labels + [("choose", n)]))
            d = 0
        self.trace.append(d)
        self.labels.append(("choose", n))
        self._shard_step(d)
        return d

    def _shard_step(self, d):
        if self.shard is None:
            return
        self._choices.append(int(d))
        if len(self._choices) == self.shard_depth:
            i, nsh = self.shard
            key = 0
            for c_ in self._choices:
                key = (key * 1000003 + c_ * 7919 + 13) % 2147483647
            if (key // 7) % nsh != i:
                raise PathAbort()  # this subtree belongs to another shard (work split over worker processes)

    def concretize_int(self, x, lo, hi):
        """fork until the symbolic integer x is a python int in [lo, hi)"""
        if not is_sym(x):
            return x
        for k in range(lo, hi):
            if self.branch(x == k):
                return k
        raise PathAbort()

    def concretize_any(self, x, limit=64):
        """fork over every feasible value of the symbolic integer x (found by model enumeration)"""
        for _ in range(limit):
            if not self.sat():
                raise PathAbort()
            v = self.model().eval(x, model_completion=True).as_long()
            if self.branch(x == v):
                return v
        raise Inconclusive("more than %d feasible values for a data-dependent integer" % limit)

    # ---------------------------------------------------------------- driver
    def run(self, fn, prefixes=None):
        """run fn() over all paths (optionally only those extending the given decision prefixes)"""
        self.pending = [(list(p), []) for p in (prefixes or [[]])]
        n = 0
        while self.pending:
            self.prefix, self.prefix_labels = self.pending.pop()
            if DEADLINE[0] is not None and time.time() > DEADLINE[0]:
                raise Inconclusive("job time budget exceeded (VERIF_JOB_BUDGET_S): exploration stopped, nothing is concluded")
            self._new_path()
            try:
                fn()
            except PathAbort:
                pass
            n += 1
            self.paths += 1
            if n > self.max_paths:
                raise Inconclusive(f"more than {self.max_paths} paths")
        return n


class ObligationFailed(Exception):
    pass


EXP = Explorer()
