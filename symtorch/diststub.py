"""torch.distributions contract stubs: `sample` returns fresh variables constrained to the support."""
from __future__ import annotations

import numpy as np
import z3

from . import explore
from . import tensor as T
from .scalar import Unsupported, s_add, s_ge, s_gt, s_where, _bool


class Distribution:
    def __init__(self, *a, **k):
        pass


def _shape(sample_shape, *params):
    shp = tuple(sample_shape) if not isinstance(sample_shape, int) else (sample_shape,)
    ps = [p.shape for p in params if isinstance(p, T.Tensor)]
    return shp + tuple(np.broadcast_shapes(*ps) if ps else ())


class Uniform(Distribution):
    def __init__(self, low, high, **k):
        self.low, self.high = low, high

    def sample(self, sample_shape=()):
        shp = _shape(sample_shape, self.low, self.high)
        u = T._fresh_tensor("uniform", shp, T.float32)
        lo = np.broadcast_to(self.low.a if isinstance(self.low, T.Tensor) else self.low, shp) if shp else self.low
        hi = np.broadcast_to(self.high.a if isinstance(self.high, T.Tensor) else self.high, shp) if shp else self.high
        E = explore.EXP
        for pos in np.ndindex(*shp):
            l = lo[pos] if shp else lo
            h = hi[pos] if shp else hi
            E.assume(_bool(s_ge(u.a[pos], l)))
            E.assume(_bool(T.s_lt(u.a[pos], h)) if not (not T.is_sym(l) and not T.is_sym(h) and l == h) else _bool(T.s_le(u.a[pos], h)))
        return u

    rsample = sample


class Normal(Distribution):
    def __init__(self, loc, scale, **k):
        self.loc, self.scale = loc, scale

    def sample(self, sample_shape=()):
        return T._fresh_tensor("normal", _shape(sample_shape, self.loc, self.scale), T.float32)

    rsample = sample


class Exponential(Distribution):
    def __init__(self, rate, **k):
        self.rate = rate

    def sample(self, sample_shape=()):
        return T._fresh_tensor("exponential", _shape(sample_shape, self.rate), T.float32, 0, None)


class Poisson(Distribution):
    def __init__(self, rate, **k):
        self.rate = rate

    def sample(self, sample_shape=()):
        return T._fresh_tensor("poisson", _shape(sample_shape, self.rate), T.float32, 0, None)


class Beta(Distribution):
    def __init__(self, a, b, **k):
        self.a, self.b = a, b

    def sample(self, sample_shape=()):
        return T._fresh_tensor("beta", _shape(sample_shape, self.a, self.b), T.float32, 0, 1, strict_hi=False)


class MultivariateNormal(Distribution):
    def __init__(self, loc, covariance_matrix=None, **k):
        self.loc = loc

    def sample(self, sample_shape=()):
        return T._fresh_tensor("mvn", _shape(sample_shape, self.loc), T.float32)


class Categorical(Distribution):
    def __init__(self, probs=None, logits=None, **k):
        self.probs, self.logits = probs, logits

    def sample(self, sample_shape=()):
        if self.probs is None:
            raise Unsupported("Categorical(logits=).sample")
        if sample_shape not in ((), []):
            raise Unsupported("Categorical.sample with sample_shape")
        p = self.probs
        flat = p.reshape(-1, p.shape[-1])
        out = T.multinomial(flat, 1).reshape(*p.shape[:-1])
        return out

    def log_prob(self, value):
        if self.probs is None:
            raise Unsupported("Categorical(logits=)")
        return self.probs.log().gather(-1, value.unsqueeze(-1)).squeeze(-1)

    def entropy(self):
        # torch: logits are normalised (log_softmax) at construction; entropy = -sum p log p with masked entries contributing 0
        if self.logits is not None:
            lp = T.nan_to_num(self.logits.log_softmax(-1), nan=0.0)
        else:
            lp = T.nan_to_num((self.probs / self.probs.sum(-1, keepdim=True)).log(), nan=0.0)
        return -(lp.exp() * lp).sum(-1)
