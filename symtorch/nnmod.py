"""torch.nn in *opaque-arithmetic* mode: library layers are uninterpreted functions applied on the slice the
library documents (so only data flow matters); parameters are opaque constants."""
from __future__ import annotations

import itertools
import math

import numpy as np
import z3

from . import explore
from . import tensor as T
from .scalar import XR, Unsupported, _real, is_sym, is_symbolic, s_where
from .tensor import Tensor

R = z3.RealSort()
_uid = itertools.count()
_FUNS = {}


def reset_ids():
    global _uid
    _uid = itertools.count()


def UF(name, arity):
    k = (name, arity)
    if k not in _FUNS:
        _FUNS[k] = z3.Function(name, *([R] * arity), R)
    return _FUNS[k]


def rl(x):
    if isinstance(x, XR):
        # flags matter to data flow: encode as two arguments folded into one opaque real
        return UF("xr_pack", 3)(_real(x.v if not is_sym(x.pinf) or True else 0), _real(x.pinf), _real(x.ninf))
    return _real(x)


def apply_rowwise(name, t, out_features):
    """y[..., j] = F_name_j(x[..., :])"""
    a = t.a
    out = np.empty(a.shape[:-1] + (out_features,), dtype=object)
    for pos in np.ndindex(*a.shape[:-1]):
        args = [rl(v) for v in a[pos]]
        for j in range(out_features):
            out[pos + (j,)] = UF(f"{name}_{j}", len(args))(*args)
    return Tensor(out, T.float32)


def apply_elem(name, t, per_channel_axis=None):
    a = t.a
    out = np.empty(a.shape, dtype=object)
    for pos in np.ndindex(*a.shape):
        c = pos[per_channel_axis] if per_channel_axis is not None else 0
        out[pos] = UF(f"{name}_{c}", 1)(rl(a[pos]))
    return Tensor(out, T.float32)


class Module:
    training = False

    def __init__(self, *a, **k):
        object.__setattr__(self, "_id", next(_uid))
        object.__setattr__(self, "_modules", {})
        object.__setattr__(self, "_params", {})
        object.__setattr__(self, "training", False)

    def __setattr__(self, k, v):
        if isinstance(v, Module):
            self.__dict__.setdefault("_modules", {})[k] = v
        object.__setattr__(self, k, v)

    def __call__(self, *a, **k):
        return self.forward(*a, **k)

    def parameters(self, recurse=True):
        return iter(())

    def named_parameters(self, *a, **k):
        return iter(())

    def modules(self):
        yield self
        for m in self.__dict__.get("_modules", {}).values():
            yield from m.modules()

    def children(self):
        return iter(self.__dict__.get("_modules", {}).values())

    def named_modules(self, *a, **k):
        return iter(())

    def eval(self):
        return self.train(False)

    def train(self, mode=True):
        object.__setattr__(self, "training", mode)
        for m in self.__dict__.get("_modules", {}).values():
            m.train(mode)
        return self

    def to(self, *a, **k):
        return self

    def cuda(self, *a, **k):
        return self

    def cpu(self):
        return self

    def requires_grad_(self, v=True):
        return self

    def register_buffer(self, n, v, persistent=True):
        object.__setattr__(self, n, v)

    def register_parameter(self, n, v):
        object.__setattr__(self, n, v)

    def state_dict(self, *a, **k):
        return {}

    def load_state_dict(self, sd, strict=True):
        return None

    def apply(self, fn):
        return self

    def add_module(self, name, m):
        setattr(self, name, m)

    def zero_grad(self, *a, **k):
        return None

    def extra_repr(self):
        return ""


class Linear(Module):
    def __init__(self, i, o, bias=True, **k):
        super().__init__()
        self.in_features, self.out_features = i, o
        self.weight, self.bias = None, None

    def forward(self, x):
        assert x.shape[-1] == self.in_features, (x.shape, self.in_features)
        return apply_rowwise(f"lin{self._id}", x, self.out_features)


class LazyLinear(Linear):
    def __init__(self, o, bias=True, **k):
        Module.__init__(self)
        self.in_features, self.out_features = None, o

    def forward(self, x):
        return apply_rowwise(f"lin{self._id}", x, self.out_features)


class Embedding(Module):
    def __init__(self, n, d, **k):
        super().__init__()
        self.n, self.d = n, d

    def forward(self, idx):
        return apply_rowwise(f"emb{self._id}", idx.unsqueeze(-1).float(), self.d)


class Identity(Module):
    def __init__(self, *a, **k):
        super().__init__()

    def forward(self, x, *a, **k):
        return x


class Dropout(Identity):
    pass


def _act(name):
    class A(Module):
        def __init__(self, *a, **k):
            super().__init__()

        def forward(self, x):
            return apply_elem(name, x)

    A.__name__ = name
    return A


ReLU, GELU, Tanh, Sigmoid, LeakyReLU, SiLU, ELU, Softplus = (_act(n) for n in ("relu", "gelu", "tanh_act", "sigmoid_act", "lrelu", "silu", "elu", "softplus"))


class Softmax(Module):
    def __init__(self, dim=-1):
        super().__init__()
        self.dim = dim

    def forward(self, x):
        return T.SOFTMAX_HOOK(x, self.dim, False)


class BatchNorm1d(Module):
    """eval mode: per-channel affine map of the running statistics.  In training mode the statistics mix the
    batch rows; that is modelled (UF over the whole batch column) so that a missing .eval() is visible."""

    def __init__(self, c, affine=True, **k):
        super().__init__()

    def forward(self, x):
        ch_axis = x.dim() - 1 if x.dim() == 2 else 1
        if not self.training:
            return apply_elem(f"bn{self._id}", x, per_channel_axis=ch_axis)
        moved = np.moveaxis(x.a, ch_axis, 0)
        out = np.empty(moved.shape, dtype=object)
        for c in range(moved.shape[0]):
            col = [rl(v) for v in moved[c].reshape(-1)]
            for pos in np.ndindex(*moved.shape[1:]):
                out[(c,) + pos] = UF(f"bntrain{self._id}_{c}", len(col) + 1)(rl(moved[(c,) + pos]), *col)
        return Tensor(np.moveaxis(out, 0, ch_axis), T.float32)


class InstanceNorm1d(Module):
    """input [B, C, L]: statistics over L for each (b, c)"""

    def __init__(self, c, affine=True, **k):
        super().__init__()

    def forward(self, x):
        B, C, L = x.shape
        out = np.empty((B, C, L), dtype=object)
        for b in range(B):
            for c in range(C):
                args = [rl(v) for v in x.a[b, c]]
                for l in range(L):
                    out[b, c, l] = UF(f"in{self._id}_{c}", L + 1)(rl(x.a[b, c, l]), *args)
        return Tensor(out, T.float32)


class LayerNorm(Module):
    def __init__(self, shape, **k):
        super().__init__()
        self.nd = 1 if isinstance(shape, int) else len(shape)

    def forward(self, x):
        assert self.nd == 1
        return apply_rowwise(f"ln{self._id}", x, x.shape[-1])


class Sequential(Module):
    def __init__(self, *mods):
        super().__init__()
        self._mods = list(mods)
        for i, m in enumerate(self._mods):
            self.__dict__["_modules"][str(i)] = m

    def forward(self, x, *a, **k):
        for m in self._mods:
            x = m(x, *a, **k) if (a or k) else m(x)
        return x

    def __iter__(self):
        return iter(self._mods)

    def __len__(self):
        return len(self._mods)

    def __getitem__(self, i):
        return self._mods[i]


class ModuleList(Module):
    def __init__(self, mods=()):
        super().__init__()
        self._mods = []
        for m in mods or ():
            self.append(m)

    def append(self, m):
        self.__dict__["_modules"][str(len(self._mods))] = m
        self._mods.append(m)
        return self

    def extend(self, ms):
        for m in ms:
            self.append(m)
        return self

    def __iter__(self):
        return iter(self._mods)

    def __getitem__(self, i):
        r = self._mods[i]
        return ModuleList(r) if isinstance(i, slice) else r

    def __len__(self):
        return len(self._mods)


class ModuleDict(Module):
    def __init__(self, d=None):
        super().__init__()
        self._d = dict(d or {})
        for k, v in self._d.items():
            self.__dict__["_modules"][k] = v

    def __getitem__(self, k):
        return self._d[k]

    def __setitem__(self, k, v):
        self._d[k] = v
        self.__dict__["_modules"][k] = v

    def __contains__(self, k):
        return k in self._d

    def keys(self):
        return self._d.keys()

    def items(self):
        return self._d.items()

    def values(self):
        return self._d.values()


_pcount = itertools.count()


def Parameter(t=None, requires_grad=True):
    """an opaque constant tensor: fresh real symbols (shared across rows, so it does not break row independence)"""
    if t is None:
        return None
    i = next(_pcount)
    flat = t.a.reshape(-1)
    out = np.empty(flat.shape, dtype=object)
    for k in range(flat.size):
        out[k] = z3.Real(f"param{i}_{k}")
    return Tensor(out.reshape(t.a.shape), T.float32)


class _Init:
    def __getattr__(self, n):
        return lambda t, *a, **k: t


init = _Init()


def sdpa(q, k, v, attn_mask=None, dropout_p=0.0, is_causal=False, **kw):
    """F.scaled_dot_product_attention: per leading-dims slice, out[i, d] depends on that slice's q[i,:], all k,
    all v and the mask row"""
    lead = np.broadcast_shapes(q.a.shape[:-2], k.a.shape[:-2], v.a.shape[:-2])
    Lq, D = q.a.shape[-2:]
    Lk = k.a.shape[-2]
    qa = np.broadcast_to(q.a, lead + q.a.shape[-2:])
    ka = np.broadcast_to(k.a, lead + k.a.shape[-2:])
    va = np.broadcast_to(v.a, lead + v.a.shape[-2:])
    out = np.empty(lead + (Lq, v.a.shape[-1]), dtype=object)
    for pos in np.ndindex(*lead):
        kv = [rl(x) for x in ka[pos].reshape(-1)] + [rl(x) for x in va[pos].reshape(-1)]
        for i in range(Lq):
            mrow = []
            if attn_mask is not None:
                m = np.broadcast_to(attn_mask.a, lead + (Lq, Lk))[pos][i]
                mrow = [rl(x) for x in m]
            args = [rl(x) for x in qa[pos][i]] + kv + mrow
            for d in range(out.shape[-1]):
                out[pos + (i, d)] = UF(f"sdpa_{d}", len(args))(*args)
    return Tensor(out, T.float32)


def opaque_mul(a, b):
    """symbolic x symbolic product as a commutative uninterpreted function (opaque mode only)"""
    if is_symbolic(a) and is_symbolic(b):
        ra, rb = rl(a), rl(b)
        if ra.get_id() > rb.get_id():
            ra, rb = rb, ra
        return UF("mulc", 2)(ra, rb)
    from .scalar import s_mul

    return s_mul(a, b)


def mse_loss(a, b, reduction="mean"):
    d = a - b
    sq = d * d
    return sq.mean() if reduction == "mean" else (sq.sum() if reduction == "sum" else sq)


def huber_loss(a, b, reduction="mean", delta=1.0):
    d = (a - b).abs()
    quad = d * d * 0.5
    lin = (d - 0.5 * delta) * delta
    out = T.where(d <= delta, quad, lin)
    return out.mean() if reduction == "mean" else (out.sum() if reduction == "sum" else out)


def pad(t, p, mode="constant", value=0):
    assert mode == "constant"
    widths = [(0, 0)] * t.a.ndim
    for k in range(len(p) // 2):
        widths[t.a.ndim - 1 - k] = (p[2 * k], p[2 * k + 1])
    fill = T.cast_scalar(value if value is not None else 0, t.dtype)
    # negative widths crop (torch semantics): apply them as slices first
    crop = tuple(slice(max(0, -w[0]), s - max(0, -w[1])) for s, w in zip(t.a.shape, widths))
    t = Tensor(t.a[crop], t.dtype)
    widths = [(max(0, w[0]), max(0, w[1])) for w in widths]
    shp = tuple(s + w[0] + w[1] for s, w in zip(t.a.shape, widths))
    out = np.empty(shp, dtype=object)
    out.fill(fill)
    sl = tuple(slice(w[0], w[0] + s) for s, w in zip(t.a.shape, widths))
    out[sl] = t.a
    return Tensor(out, t.dtype)


def one_hot(t, num_classes=-1):
    if num_classes < 0:
        raise Unsupported("one_hot without num_classes")
    out = np.empty(t.a.shape + (num_classes,), dtype=object)
    from .scalar import s_eq

    for pos in np.ndindex(*t.a.shape):
        for k in range(num_classes):
            out[pos + (k,)] = s_where(s_eq(t.a[pos], k), 1, 0)
    return Tensor(out, T.int64)
