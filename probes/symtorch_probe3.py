"""FEASIBILITY PROBE, part 3 -- `torch.nn` in *opaque-arithmetic* mode: library layers become
uninterpreted functions applied on the slice the library documents (so only data-flow matters),
parameters are opaque constants, plus a mini-einops.  Enough to run AttentionModelPolicy on TSP."""
from __future__ import annotations

import itertools
import math
import re
import sys
import types

import numpy as np
import z3

sys.path.insert(0, "/verif/probes")
import symtorch_probe as st
import symtorch_probe2 as s2
from symtorch_probe import Tensor

R = z3.RealSort()
_uid = itertools.count()
_FUNS = {}


def UF(name, arity):
    k = (name, arity)
    if k not in _FUNS:
        _FUNS[k] = z3.Function(name, *([R] * arity), R)
    return _FUNS[k]


def rl(x):
    return st._real(x) if not isinstance(x, s2.XR) else st._real(x.v)


def apply_rowwise(name, t, out_features):
    """y[..., j] = F_name_j(x[..., :])"""
    a = t.a
    out = np.empty(a.shape[:-1] + (out_features,), dtype=object)
    for pos in np.ndindex(*a.shape[:-1]):
        args = [rl(v) for v in a[pos]]
        for j in range(out_features):
            out[pos + (j,)] = UF(f"{name}_{j}", len(args))(*args)
    return Tensor(out, st.float32)


def apply_elem(name, t, per_channel_axis=None):
    a = t.a
    out = np.empty(a.shape, dtype=object)
    for pos in np.ndindex(*a.shape):
        c = pos[per_channel_axis] if per_channel_axis is not None else 0
        out[pos] = UF(f"{name}_{c}", 1)(rl(a[pos]))
    return Tensor(out, st.float32)


class Module:
    training = False

    def __init__(self, *a, **k):
        self._id = next(_uid)

    def __call__(self, *a, **k):
        return self.forward(*a, **k)

    def parameters(self):
        return iter(())

    def eval(self):
        return self

    def to(self, *a, **k):
        return self

    def register_buffer(self, n, v):
        setattr(self, n, v)


class Linear(Module):
    def __init__(self, i, o, bias=True, **k):
        super().__init__()
        self.i, self.o = i, o

    def forward(self, x):
        assert x.shape[-1] == self.i, (x.shape, self.i)
        return apply_rowwise(f"lin{self._id}", x, self.o)


class Identity(Module):
    def forward(self, x):
        return x


class Dropout(Identity):
    def __init__(self, p=0.0):
        super().__init__()


class ReLU(Module):
    def forward(self, x):
        return apply_elem("relu", x)


class BatchNorm1d(Module):
    """eval mode: per-channel affine map of the running statistics"""

    def __init__(self, c, affine=True):
        super().__init__()

    def forward(self, x):
        return apply_elem(f"bn{self._id}", x, per_channel_axis=x.dim() - 1 if x.dim() == 2 else 1)


class InstanceNorm1d(Module):
    """input [B, C, L]: statistics over L for each (b, c) -> UF of that length-L slice per position"""

    def __init__(self, c, affine=True):
        super().__init__()

    def forward(self, x):
        B, C, L = x.shape
        out = np.empty((B, C, L), dtype=object)
        for b in range(B):
            for c in range(C):
                args = [rl(v) for v in x.a[b, c]]
                for l in range(L):
                    out[b, c, l] = UF(f"in{self._id}_{c}", L + 1)(rl(x.a[b, c, l]), *args)
        return Tensor(out, st.float32)


class Sequential(Module):
    def __init__(self, *mods):
        super().__init__()
        self._mods = list(mods)

    def forward(self, x):
        for m in self._mods:
            x = m(x)
        return x

    def __iter__(self):
        return iter(self._mods)


class ModuleList(Module):
    def __init__(self, mods=()):
        super().__init__()
        self._mods = list(mods)

    def append(self, m):
        self._mods.append(m)

    def __iter__(self):
        return iter(self._mods)

    def __getitem__(self, i):
        r = self._mods[i]
        return ModuleList(r) if isinstance(i, slice) else r

    def __len__(self):
        return len(self._mods)


def Parameter(t, requires_grad=True):
    return t


def _uniform_(self, a=0, b=1):
    i = next(_uid)
    flat = self.a.reshape(-1)
    for k in range(flat.size):
        flat[k] = z3.Real(f"w{i}_{k}")
    self.a[...] = flat.reshape(self.a.shape)
    return self


Tensor.uniform_ = _uniform_
Tensor.mean = lambda s, dim=None, keepdim=False: Tensor(
    st.U_DIV(s.sum(dim, keepdim).a, float(s.a.size if dim is None else s.a.shape[dim])), st.float32
)
Tensor.chunk = lambda s, n, dim=-1: tuple(Tensor(x, s.dtype) for x in np.split(s.a, n, axis=dim))
Tensor.unbind = lambda s, dim=0: tuple(Tensor(np.take(s.a, i, axis=dim), s.dtype) for i in range(s.a.shape[dim]))


def TensorCtor(*shape):
    return st.zeros(*shape)


def sdpa(q, k, v, attn_mask=None, dropout_p=0.0, is_causal=False, **kw):
    """library primitive F.scaled_dot_product_attention: per leading-dims slice, out[i, d] is a
    function of that slice's q[i,:], all k, all v and the mask row"""
    lead = q.a.shape[:-2]
    Lq, D = q.a.shape[-2:]
    Lk = k.a.shape[-2]
    out = np.empty(lead + (Lq, v.a.shape[-1]), dtype=object)
    for pos in np.ndindex(*lead):
        kv = [rl(x) for x in k.a[pos].reshape(-1)] + [rl(x) for x in v.a[pos].reshape(-1)]
        for i in range(Lq):
            mrow = []
            if attn_mask is not None:
                m = np.broadcast_to(attn_mask.a, lead + (Lq, Lk))[pos][i]
                mrow = [st._real(x) for x in m]
            args = [rl(x) for x in q.a[pos][i]] + kv + mrow
            for d in range(out.shape[-1]):
                out[pos + (i, d)] = UF(f"sdpa_{d}", len(args))(*args)
    return Tensor(out, st.float32)


def _bmm(a, b):
    return s2.bmm(a, b)


# ------------------------------------------------------------------ mini einops
def _parse(side):
    toks = re.findall(r"\.\.\.|\(|\)|[A-Za-z_]\w*|\d+", side)
    out, grp = [], None
    for t in toks:
        if t == "(":
            grp = []
        elif t == ")":
            out.append(tuple(grp))
            grp = None
        elif grp is not None:
            grp.append(t)
        else:
            out.append(t)
    return out


def rearrange(t, pattern, **sizes):
    lhs, rhs = [_parse(s) for s in pattern.split("->")]
    shape = list(t.a.shape)
    n_named = len([x for x in lhs if x != "..."])
    n_ell = len(shape) - n_named
    dims = {}
    elem_order = []
    i = 0
    for x in lhs:
        if x == "...":
            for e in range(n_ell):
                dims[f"_e{e}"] = shape[i]
                elem_order.append(f"_e{e}")
                i += 1
        elif isinstance(x, tuple):
            known = 1
            unk = None
            for nm in x:
                if nm in sizes:
                    dims[nm] = sizes[nm]
                    known *= sizes[nm]
                else:
                    unk = nm
            if unk is not None:
                dims[unk] = shape[i] // known
            elem_order.extend(x)
            i += 1
        else:
            dims[x] = shape[i]
            elem_order.append(x)
            i += 1
    a = t.a.reshape([dims[e] for e in elem_order])
    tgt = []
    for x in rhs:
        if x == "...":
            tgt.extend(f"_e{e}" for e in range(n_ell))
        elif isinstance(x, tuple):
            tgt.extend(x)
        else:
            tgt.append(x)
    a = np.transpose(a, [elem_order.index(e) for e in tgt])
    final = []
    for x in rhs:
        if x == "...":
            final.extend(dims[f"_e{e}"] for e in range(n_ell))
        elif isinstance(x, tuple):
            final.append(int(np.prod([dims[e] for e in x])))
        else:
            final.append(dims[x])
    return Tensor(a.reshape(final).copy(), t.dtype)


class _NoGrad:
    """context manager + decorator; the probe does not zero tangents here (framework: it does)"""

    def __call__(self, f=None):
        return f if f is not None else self

    def __enter__(self):
        return self

    def __exit__(self, *a):
        return False


st.no_grad = lambda: _NoGrad()
st.inference_mode = lambda *a, **k: _NoGrad()


def install(load):
    s2.install(load)
    e = load("einops")
    e.rearrange = rearrange
    nn = load("torch.nn")
    for k, v in dict(
        Module=Module, Linear=Linear, Identity=Identity, Dropout=Dropout, ReLU=ReLU, BatchNorm1d=BatchNorm1d,
        InstanceNorm1d=InstanceNorm1d, Sequential=Sequential, ModuleList=ModuleList, Parameter=Parameter,
    ).items():
        setattr(nn, k, v)
    F = load("torch.nn.functional")
    F.scaled_dot_product_attention = sdpa
    F.softmax = lambda t, dim=-1: apply_rowwise("softmax", t, t.shape[-1])
    st.bmm = _bmm
    st.isnan = lambda t: st.zeros_like(t, dtype=st.bool)
    st.Tensor_ctor = TensorCtor
    return load
