"""FEASIBILITY PROBE (design phase) -- not the framework.

A minimal symbolic stand-in for torch / tensordict, backed by numpy object arrays
whose elements are either Python scalars or z3 terms.  Its only purpose is to show
that the *real* rl4co environment sources can be executed over z3 terms by swapping
the tensor library at import time, and to measure what the solver then costs.
"""
from __future__ import annotations

import builtins
import math
import sys
import types

import numpy as np
import z3

_pybool = builtins.bool
_pyfloat = builtins.float
_pyint = builtins.int

# ----------------------------------------------------------------------------
# scalar helpers: elements are python bool/int/float or z3 Bool/Int/Real terms
# ----------------------------------------------------------------------------


def is_sym(x):
    return isinstance(x, z3.ExprRef)


def _real(x):
    if is_sym(x):
        if z3.is_int(x):
            return z3.ToReal(x)
        if z3.is_bool(x):
            return z3.If(x, z3.RealVal(1), z3.RealVal(0))
        return x
    if isinstance(x, _pybool):
        return z3.RealVal(1 if x else 0)
    if isinstance(x, _pyfloat) and (math.isinf(x) or math.isnan(x)):
        raise Unsupported("inf/nan mixed with symbolic value")
    return z3.RealVal(repr(x) if isinstance(x, _pyfloat) else x)


def _int(x):
    if is_sym(x):
        if z3.is_bool(x):
            return z3.If(x, z3.IntVal(1), z3.IntVal(0))
        return x
    return z3.IntVal(_pyint(x))


def _bool(x):
    if is_sym(x):
        if z3.is_bool(x):
            return x
        return x != 0
    return z3.BoolVal(_pybool(x))


class Unsupported(Exception):
    pass


def _arith(a, b, op):
    if not is_sym(a) and not is_sym(b):
        return op(a, b)
    fa = (is_sym(a) and z3.is_real(a)) or isinstance(a, _pyfloat)
    fb = (is_sym(b) and z3.is_real(b)) or isinstance(b, _pyfloat)
    if fa or fb:
        # constant folding with infinities on the concrete side
        for c, o in ((a, b), (b, a)):
            if isinstance(c, _pyfloat) and math.isinf(c):
                raise Unsupported("inf arithmetic with symbolic operand")
        return op(_real(a), _real(b))
    return op(_int(a), _int(b))


def s_add(a, b):
    return _arith(a, b, lambda x, y: x + y)


def s_sub(a, b):
    return _arith(a, b, lambda x, y: x - y)


def s_mul(a, b):
    # bool * x  -> If
    if is_sym(a) and z3.is_bool(a):
        return s_where(a, b, 0 if not isinstance(b, _pyfloat) else 0.0)
    if is_sym(b) and z3.is_bool(b):
        return s_where(b, a, 0 if not isinstance(a, _pyfloat) else 0.0)
    if not is_sym(a) and a == 0 and not isinstance(a, _pybool):
        return a * 0 if not is_sym(b) else (0.0 if isinstance(a, _pyfloat) else 0)
    return _arith(a, b, lambda x, y: x * y)


def s_div(a, b):
    if not is_sym(a) and not is_sym(b):
        return a / b
    return _real(a) / _real(b)


def _cmp(a, b, op):
    if not is_sym(a) and not is_sym(b):
        return op(a, b)
    # concrete infinity on one side folds
    for c, o, flip in ((a, b, False), (b, a, True)):
        if isinstance(c, _pyfloat) and math.isinf(c):
            big = c > 0
            # c ? o   with o finite symbolic
            probe = op(1.0, 0.0) if (big != flip) else op(0.0, 1.0)
            return probe
    fa = (is_sym(a) and z3.is_real(a)) or isinstance(a, _pyfloat)
    fb = (is_sym(b) and z3.is_real(b)) or isinstance(b, _pyfloat)
    if fa or fb:
        return op(_real(a), _real(b))
    if (is_sym(a) and z3.is_bool(a)) or (is_sym(b) and z3.is_bool(b)):
        return op(_int(a), _int(b))
    return op(_int(a), _int(b))


def s_lt(a, b):
    return _cmp(a, b, lambda x, y: x < y)


def s_le(a, b):
    return _cmp(a, b, lambda x, y: x <= y)


def s_gt(a, b):
    return _cmp(a, b, lambda x, y: x > y)


def s_ge(a, b):
    return _cmp(a, b, lambda x, y: x >= y)


def s_eq(a, b):
    return _cmp(a, b, lambda x, y: x == y)


def s_ne(a, b):
    return _cmp(a, b, lambda x, y: x != y)


def s_and(a, b):
    if not is_sym(a) and not is_sym(b):
        return _pybool(a) and _pybool(b)
    if not is_sym(a):
        return _bool(b) if a else False
    if not is_sym(b):
        return _bool(a) if b else False
    return z3.And(_bool(a), _bool(b))


def s_or(a, b):
    if not is_sym(a) and not is_sym(b):
        return _pybool(a) or _pybool(b)
    if not is_sym(a):
        return True if a else _bool(b)
    if not is_sym(b):
        return True if b else _bool(a)
    return z3.Or(_bool(a), _bool(b))


def s_not(a):
    if not is_sym(a):
        return not _pybool(a)
    return z3.Not(_bool(a))


def s_where(c, a, b):
    if not is_sym(c):
        return a if c else b
    if not is_sym(a) and not is_sym(b) and a == b and type(a) is type(b):
        return a
    fa = (is_sym(a) and z3.is_real(a)) or isinstance(a, _pyfloat)
    fb = (is_sym(b) and z3.is_real(b)) or isinstance(b, _pyfloat)
    ba = (is_sym(a) and z3.is_bool(a)) or isinstance(a, _pybool)
    bb = (is_sym(b) and z3.is_bool(b)) or isinstance(b, _pybool)
    if ba and bb:
        return z3.If(c, _bool(a), _bool(b))
    if fa or fb:
        return z3.If(c, _real(a), _real(b))
    return z3.If(c, _int(a), _int(b))


def s_max(a, b):
    return s_where(s_ge(a, b), a, b)


def s_min(a, b):
    return s_where(s_le(a, b), a, b)


_u = lambda f, n: np.frompyfunc(f, n, 1)
U_ADD, U_SUB, U_MUL, U_DIV = _u(s_add, 2), _u(s_sub, 2), _u(s_mul, 2), _u(s_div, 2)
U_LT, U_LE, U_GT, U_GE, U_EQ, U_NE = (_u(f, 2) for f in (s_lt, s_le, s_gt, s_ge, s_eq, s_ne))
U_AND, U_OR, U_NOT = _u(s_and, 2), _u(s_or, 2), _u(s_not, 1)
U_WHERE, U_MAX, U_MIN = _u(s_where, 3), _u(s_max, 2), _u(s_min, 2)

# ----------------------------------------------------------------------------
# path exploration: bool(<symbolic>) forks
# ----------------------------------------------------------------------------


class PathAbort(BaseException):
    """path is infeasible / finished"""


class Explorer:
    """DFS over decisions taken at `bool(symbolic)`; the harness is re-executed per path."""

    def __init__(self):
        self.solver = z3.Solver()
        self.trace = []  # decisions of the current run
        self.prefix = []  # forced decisions
        self.pending = []  # stack of prefixes still to run
        self.pc = []
        self.queries = 0
        self.solver_time = 0.0

    def assume(self, c):
        if not is_sym(c):
            if not c:
                raise PathAbort()
            return
        self.pc.append(c)
        self.solver.add(c)

    def check(self, *extra):
        import time

        t = time.time()
        r = self.solver.check(*extra)
        self.solver_time += time.time() - t
        self.queries += 1
        return r

    def branch(self, c):
        if not is_sym(c):
            return _pybool(c)
        c = z3.simplify(c)
        if z3.is_true(c):
            return True
        if z3.is_false(c):
            return False
        i = len(self.trace)
        if i < len(self.prefix):
            d = self.prefix[i]
        else:
            can_t = self.check(c) == z3.sat
            can_f = self.check(z3.Not(c)) == z3.sat
            if can_t and can_f:
                self.pending.append(self.trace + [False])
                d = True
            elif can_t:
                d = True
            elif can_f:
                d = False
            else:
                raise PathAbort()
        self.trace.append(d)
        self.assume(c if d else z3.Not(c))
        return d

    def choose(self, n):
        """n-ary decision (e.g. which admitted action to take)"""
        i = len(self.trace)
        if i < len(self.prefix):
            d = self.prefix[i]
        else:
            for alt in range(n - 1, 0, -1):
                self.pending.append(self.trace + [alt])
            d = 0
        self.trace.append(d)
        return d

    def run(self, fn):
        """run fn() over all paths; fn gets no args and uses global EXP"""
        self.pending = [[]]
        n = 0
        while self.pending:
            self.prefix = self.pending.pop()
            self.trace = []
            self.pc = []
            self.solver = z3.Solver()
            try:
                fn()
            except PathAbort:
                pass
            n += 1
        return n


EXP = Explorer()

# ----------------------------------------------------------------------------
# Tensor
# ----------------------------------------------------------------------------

FLOATS = ("float32", "float64", "float")
INTS = ("int64", "int32", "uint8", "long", "int")


class dtype_:
    def __init__(self, name):
        self.name = name

    def __repr__(self):
        return "symtorch." + self.name


float32 = dtype_("float32")
float = float32  # noqa: A001  (module attribute torch.float)
int64 = dtype_("int64")
long = int64
int32 = dtype_("int32")
uint8 = dtype_("uint8")
bool = dtype_("bool")  # noqa: A001
inf = math.inf


def _is_float_dt(dt):
    return dt.name.startswith("float")


def _cast_scalar(x, dt):
    if dt.name == "bool":
        if is_sym(x):
            return _bool(x)
        return _pybool(x)
    if _is_float_dt(dt):
        if is_sym(x):
            return _real(x)
        return _pyfloat(x)
    # integer
    if is_sym(x):
        if z3.is_real(x):
            return z3.If(x >= 0, z3.ToInt(x), -z3.ToInt(-x))
        return _int(x)
    return _pyint(x)


class Size(tuple):
    def numel(self):
        return _pyint(np.prod(self)) if len(self) else 1


class Tensor:
    def __init__(self, arr, dtype):
        if not isinstance(arr, np.ndarray) or arr.dtype != object:
            a = np.empty(np.shape(arr), dtype=object)
            a[...] = arr
            arr = a
        self.a = arr
        self.dtype = dtype

    # ---- meta
    device = "cpu"

    @property
    def shape(self):
        return Size(self.a.shape)

    def size(self, d=None):
        return Size(self.a.shape) if d is None else self.a.shape[d]

    def dim(self):
        return self.a.ndim

    @property
    def ndim(self):
        return self.a.ndim

    @property
    def data(self):
        return self

    def numel(self):
        return self.a.size

    def __len__(self):
        return self.a.shape[0]

    def to(self, *a, **k):
        for x in a:
            if isinstance(x, dtype_):
                return self._cast(x)
        if "dtype" in k and k["dtype"] is not None:
            return self._cast(k["dtype"])
        return self

    def _cast(self, dt):
        return Tensor(np.frompyfunc(lambda x: _cast_scalar(x, dt), 1, 1)(self.a), dt)

    def float(self):
        return self._cast(float32)

    def long(self):
        return self._cast(int64)

    def int(self):
        return self._cast(int32)

    def bool(self):
        return self._cast(bool)

    def clone(self):
        return Tensor(self.a.copy(), self.dtype)

    def contiguous(self):
        return self

    def detach(self):
        return self

    def new(self):
        return Tensor(np.empty((0,), dtype=object), self.dtype)

    def item(self):
        x = self.a.reshape(-1)[0]
        if is_sym(x):
            raise Unsupported("item() on symbolic")
        return x

    # ---- python protocol
    def __bool__(self):
        assert self.a.size == 1, "bool of multi-element tensor"
        return EXP.branch(self.a.reshape(-1)[0])

    def __repr__(self):
        return f"SymTensor({self.dtype.name}, shape={tuple(self.a.shape)})"

    # ---- elementwise
    def _bin(self, other, uf, out_dt=None):
        if isinstance(other, Tensor):
            ob = other.a
            odt = other.dtype
        else:
            ob = other
            odt = bool if isinstance(other, _pybool) else (int64 if isinstance(other, _pyint) else float32)
        if out_dt is None:
            if _is_float_dt(self.dtype) or _is_float_dt(odt):
                out_dt = float32
            elif self.dtype.name == "bool" and odt.name == "bool":
                out_dt = bool
            elif self.dtype.name == "bool":
                out_dt = odt
            else:
                out_dt = self.dtype
        res = uf(self.a, ob)
        if not isinstance(res, np.ndarray):
            res = np.array(res, dtype=object)
        t = Tensor(res, out_dt)
        return t

    def __add__(self, o):
        return self._bin(o, U_ADD)

    __radd__ = __add__

    def __sub__(self, o):
        return self._bin(o, U_SUB)

    def __rsub__(self, o):
        return Tensor(U_SUB(o, self.a), self.dtype if not isinstance(o, _pyfloat) else float32)

    def __mul__(self, o):
        return self._bin(o, U_MUL)

    __rmul__ = __mul__

    def __truediv__(self, o):
        return self._bin(o, U_DIV, float32)

    def __neg__(self):
        return Tensor(U_SUB(0, self.a), self.dtype)

    def __lt__(self, o):
        return self._bin(o, U_LT, bool)

    def __le__(self, o):
        return self._bin(o, U_LE, bool)

    def __gt__(self, o):
        return self._bin(o, U_GT, bool)

    def __ge__(self, o):
        return self._bin(o, U_GE, bool)

    def __eq__(self, o):
        return self._bin(o, U_EQ, bool)

    def __ne__(self, o):
        return self._bin(o, U_NE, bool)

    __hash__ = None

    def __and__(self, o):
        return self._bin(o, U_AND, bool)

    def __or__(self, o):
        return self._bin(o, U_OR, bool)

    def __invert__(self):
        return Tensor(U_NOT(self.a), bool)

    def __iadd__(self, o):
        r = self + o
        self.a[...] = r.a
        return self

    def eq(self, o):
        return self == o

    # ---- reductions
    def _reduce(self, f, init, dim, keepdim=False, out_dt=None):
        a = self.a
        if dim is None:
            flat = a.reshape(-1)
            acc = init
            for x in flat:
                acc = f(acc, x)
            return Tensor(np.array(acc, dtype=object), out_dt or self.dtype)
        dim = dim % a.ndim
        moved = np.moveaxis(a, dim, -1)
        out = np.empty(moved.shape[:-1], dtype=object)
        for idx in np.ndindex(*moved.shape[:-1]):
            acc = init
            for x in moved[idx]:
                acc = f(acc, x)
            out[idx] = acc
        if keepdim:
            out = np.expand_dims(out, dim)
        return Tensor(out, out_dt or self.dtype)

    def sum(self, dim=None, keepdim=False, keepdims=False):
        dt = int64 if self.dtype.name in ("bool", "uint8") else self.dtype
        init = 0.0 if _is_float_dt(dt) else 0
        return self._reduce(lambda acc, x: s_add(acc, _cast_scalar(x, dt)), init, dim, keepdim or keepdims, dt)

    def all(self, dim=None, keepdim=False):
        return self._reduce(lambda acc, x: s_and(acc, _cast_scalar(x, bool)), True, dim, keepdim, bool)

    def any(self, dim=None, keepdim=False):
        return self._reduce(lambda acc, x: s_or(acc, _cast_scalar(x, bool)), False, dim, keepdim, bool)

    def norm(self, p=2, dim=-1):
        assert p == 2
        return NORM_HOOK(self, dim)

    # ---- shape ops
    def view(self, *shape):
        if len(shape) == 1 and isinstance(shape[0], (tuple, list)):
            shape = tuple(shape[0])
        return Tensor(self.a.reshape(shape), self.dtype)

    reshape = view

    def expand(self, *shape):
        if len(shape) == 1 and isinstance(shape[0], (tuple, list)):
            shape = tuple(shape[0])
        shape = list(shape)
        off = len(shape) - self.a.ndim
        for i, s in enumerate(shape):
            if s == -1:
                shape[i] = self.a.shape[i - off]
        return Tensor(np.broadcast_to(self.a, shape).copy(), self.dtype)

    def expand_as(self, o):
        return self.expand(*o.shape)

    def unsqueeze(self, d):
        return Tensor(np.expand_dims(self.a, d if d >= 0 else d + self.a.ndim + 1), self.dtype)

    def squeeze(self, d=None):
        if d is None:
            return Tensor(np.squeeze(self.a), self.dtype)
        if self.a.shape[d] != 1:
            return self
        return Tensor(np.squeeze(self.a, d), self.dtype)

    def transpose(self, i, j):
        return Tensor(np.swapaxes(self.a, i, j), self.dtype)

    def permute(self, *dims):
        return Tensor(np.transpose(self.a, dims), self.dtype)

    def __getitem__(self, idx):
        idx = _conv_index(idx)
        return Tensor(np.asarray(self.a[idx], dtype=object), self.dtype)

    def __setitem__(self, idx, val):
        if isinstance(idx, Tensor) and idx.dtype.name == "bool":
            v = val.a if isinstance(val, Tensor) else _cast_scalar(val, self.dtype)
            self.a[...] = U_WHERE(np.broadcast_to(idx.a, self.a.shape), v, self.a)
            return
        idx = _conv_index(idx)
        self.a[idx] = val.a if isinstance(val, Tensor) else _cast_scalar(val, self.dtype)

    # ---- gather / scatter with possibly symbolic indices
    def gather(self, dim, index):
        dim = dim % self.a.ndim
        src = np.moveaxis(self.a, dim, -1)
        ind = np.moveaxis(index.a, dim, -1)
        out = np.empty(ind.shape, dtype=object)
        n = src.shape[-1]
        for pos in np.ndindex(*ind.shape):
            i = ind[pos]
            row = src[pos[:-1]]
            if is_sym(i):
                OBLIGATIONS.append(("gather index in range", z3.And(i >= 0, i < n)))
                acc = row[n - 1]
                for k in range(n - 2, -1, -1):
                    acc = s_where(i == k, row[k], acc)
                out[pos] = acc
            else:
                out[pos] = row[i]
        return Tensor(np.moveaxis(out, -1, dim), self.dtype)

    def scatter(self, dim, index, value):
        dim = dim % self.a.ndim
        out = np.moveaxis(self.a.copy(), dim, -1)
        ind = np.moveaxis(index.a, dim, -1)
        val = np.moveaxis(value.a, dim, -1) if isinstance(value, Tensor) else None
        n = out.shape[-1]
        for pos in np.ndindex(*ind.shape):
            i = ind[pos]
            v = _cast_scalar(val[pos] if val is not None else value, self.dtype)
            row = out[pos[:-1]]
            if is_sym(i):
                OBLIGATIONS.append(("scatter index in range", z3.And(i >= 0, i < n)))
                for k in range(n):
                    row[k] = s_where(i == k, v, row[k])
            else:
                row[i] = v
        return Tensor(np.moveaxis(out, -1, dim), self.dtype)

    def scatter_(self, dim, index, value):
        r = self.scatter(dim, index, value)
        self.a[...] = r.a
        return self

    def argsort(self, dim=-1):
        dim = dim % self.a.ndim
        src = np.moveaxis(self.a, dim, -1)
        n = src.shape[-1]
        out = np.empty(src.shape, dtype=object)
        for pos in np.ndindex(*src.shape[:-1]):
            row = src[pos]
            ranks = []
            for i in range(n):
                r = 0
                for j in range(n):
                    if j == i:
                        continue
                    before = s_or(s_lt(row[j], row[i]), s_and(s_eq(row[j], row[i]), j < i))
                    r = s_add(r, s_where(before, 1, 0))
                ranks.append(r)
            for k in range(n):
                acc = n - 1
                for i in range(n - 2, -1, -1):
                    acc = s_where(s_eq(ranks[i], k), i, acc)
                out[pos + (k,)] = acc
        return Tensor(np.moveaxis(out, -1, dim), int64)

    def sort(self, dim=-1):
        dim = dim % self.a.ndim
        src = np.moveaxis(self.a.copy(), dim, -1)
        n = src.shape[-1]
        for pos in np.ndindex(*src.shape[:-1]):
            row = src[pos]
            # odd-even transposition network (values only)
            for rnd in range(n):
                for k in range(rnd % 2, n - 1, 2):
                    lo, hi = s_min(row[k], row[k + 1]), s_max(row[k], row[k + 1])
                    row[k], row[k + 1] = lo, hi
        vals = Tensor(np.moveaxis(src, -1, dim), self.dtype)
        return (vals, None)


def _conv_index(idx):
    if isinstance(idx, tuple):
        return tuple(_conv_index1(i) for i in idx)
    return _conv_index1(idx)


def _conv_index1(i):
    if isinstance(i, Tensor):
        if i.dtype.name == "bool" and any(is_sym(x) for x in i.a.reshape(-1)):
            # data-dependent shape: fork until the mask is concrete
            flat = i.a.reshape(-1).copy()
            for k, x in enumerate(flat):
                if is_sym(x):
                    flat[k] = EXP.branch(x)
            return flat.reshape(i.a.shape).astype(np.bool_)
        if any(is_sym(x) for x in i.a.reshape(-1)):
            raise Unsupported("symbolic advanced index")
        if i.dtype.name == "bool":
            return i.a.astype(np.bool_)
        return i.a.astype(np.int64)
    return i


OBLIGATIONS = []

# distance abstraction -------------------------------------------------------
N2 = z3.Function("norm2", z3.RealSort(), z3.RealSort(), z3.RealSort())
NORM_APPS = []


def NORM_HOOK(t, dim):
    dim = dim % t.a.ndim
    moved = np.moveaxis(t.a, dim, -1)
    assert moved.shape[-1] == 2
    out = np.empty(moved.shape[:-1], dtype=object)
    for pos in np.ndindex(*out.shape):
        dx, dy = moved[pos]
        if not is_sym(dx) and not is_sym(dy):
            out[pos] = math.hypot(dx, dy)
        else:
            app = N2(_real(dx), _real(dy))
            NORM_APPS.append((_real(dx), _real(dy), app))
            out[pos] = app
    return Tensor(out, float32)


def norm_axioms():
    ax = []
    seen = set()
    for dx, dy, app in NORM_APPS:
        k = app.get_id()
        if k in seen:
            continue
        seen.add(k)
        ax.append(app >= 0)
        ax.append(z3.Implies(z3.And(dx == 0, dy == 0), app == 0))
        ax.append(app == N2(-dx, -dy))
    return ax


# ----------------------------------------------------------------------------
# module-level torch API
# ----------------------------------------------------------------------------


def _mk(shape, fill, dt):
    if len(shape) == 1 and isinstance(shape[0], (tuple, list)):
        shape = tuple(shape[0])
    a = np.empty(shape, dtype=object)
    a[...] = _cast_scalar(fill, dt)
    return Tensor(a, dt)


def zeros(*shape, dtype=None, device=None):
    return _mk(shape, 0, dtype or float32)


def ones(*shape, dtype=None, device=None):
    return _mk(shape, 1, dtype or float32)


def full(shape, fill, dtype=None, device=None):
    return _mk((tuple(shape),), fill, dtype or (float32 if isinstance(fill, _pyfloat) else int64))


def zeros_like(t, dtype=None, device=None):
    return _mk((t.shape,), 0, dtype or t.dtype)


def ones_like(t, dtype=None, device=None):
    return _mk((t.shape,), 1, dtype or t.dtype)


def arange(*a, out=None, device=None, dtype=None):
    return Tensor(np.array(list(range(*a)), dtype=object), int64)


def cat(ts, dim=0):
    ts = list(ts)
    dt = float32 if any(_is_float_dt(t.dtype) for t in ts) else ts[0].dtype
    return Tensor(np.concatenate([t.a for t in ts], axis=dim), dt)


def stack(ts, dim=0):
    ts = list(ts)
    return Tensor(np.stack([t.a for t in ts], axis=dim), ts[0].dtype)


def clamp(t, lo=None, hi=None):
    a = t.a
    if lo is not None:
        a = U_MAX(a, lo)
    if hi is not None:
        a = U_MIN(a, hi)
    return Tensor(a, t.dtype)


def roll(t, shifts, dims):
    return Tensor(np.roll(t.a, shifts, axis=dims), t.dtype)


def where(c, a, b):
    aa = a.a if isinstance(a, Tensor) else a
    bb = b.a if isinstance(b, Tensor) else b
    dt = a.dtype if isinstance(a, Tensor) else b.dtype
    return Tensor(U_WHERE(c.a, aa, bb), dt)


def max(a, b=None):  # noqa: A001
    if isinstance(b, Tensor):
        return Tensor(U_MAX(a.a, b.a), a.dtype)
    raise Unsupported("max reduce")


def min(a, b=None):  # noqa: A001
    if isinstance(b, Tensor):
        return Tensor(U_MIN(a.a, b.a), a.dtype)
    raise Unsupported("min reduce")


def sum(t, dim=None, keepdim=False):  # noqa: A001
    return t.sum(dim, keepdim)


def count_nonzero(t, dim=None):
    return (t != 0).sum(dim)


def logical_and(a, b):
    return a & b


def logical_or(a, b):
    return a | b


def manual_seed(s):
    return object()


def empty(*a, **k):
    class _E:
        def random_(self):
            return self

        def item(self):
            return 0

    return _E()


def sym_tensor(name, shape, dt, ctor=None):
    a = np.empty(shape, dtype=object)
    for pos in np.ndindex(*shape):
        nm = name + "_" + "_".join(map(str, pos)) if shape else name
        if dt.name == "bool":
            a[pos] = z3.Bool(nm)
        elif _is_float_dt(dt):
            a[pos] = z3.Real(nm)
        else:
            a[pos] = z3.Int(nm)
    return Tensor(a, dt)


def tensor(data, dtype=None, device=None):
    a = np.array(data, dtype=object)
    if dtype is None:
        flat = a.reshape(-1)
        x = flat[0] if flat.size else 0
        dtype = bool if isinstance(x, _pybool) else (int64 if isinstance(x, _pyint) else float32)
    return Tensor(a, dtype)


# ----------------------------------------------------------------------------
# TensorDict
# ----------------------------------------------------------------------------


class TensorDict:
    def __init__(self, d=None, batch_size=None, device=None, **kw):
        self.d = dict(d or {})
        if isinstance(batch_size, _pyint):
            batch_size = [batch_size]
        self.batch_size = Size(batch_size or ())
        self.device = "cpu"

    @property
    def shape(self):
        return self.batch_size

    def size(self, i=None):
        return self.batch_size if i is None else self.batch_size[i]

    def dim(self):
        return len(self.batch_size)

    def __getitem__(self, k):
        if isinstance(k, str):
            return self.d[k]
        return TensorDict({kk: v[k] for kk, v in self.d.items()}, batch_size=None)

    def __setitem__(self, k, v):
        assert isinstance(k, str)
        self.d[k] = v

    def get(self, k, default=None):
        return self.d.get(k, default)

    def set(self, k, v):
        self.d[k] = v
        return self

    def update(self, other, **kw):
        it = other.d if isinstance(other, TensorDict) else other
        for k, v in it.items():
            self.d[k] = v
        return self

    def keys(self, *a, **k):
        return self.d.keys()

    def items(self):
        return self.d.items()

    def clone(self):
        return TensorDict({k: v.clone() for k, v in self.d.items()}, self.batch_size)

    def is_empty(self):
        return not self.d

    def to(self, *a, **k):
        return self


# ----------------------------------------------------------------------------
# Loader: execute real rl4co sources against the shim
# ----------------------------------------------------------------------------

REPO = "/repo"


class _Spec:
    def __init__(self, *a, shape=None, dtype=None, **k):
        self.shape = shape
        self.dtype = dtype
        self.kw = k


class _Composite(dict):
    def __init__(self, *a, **k):
        k.pop("shape", None)
        super().__init__(**{kk: v for kk, v in k.items()})


class EnvBaseStub:
    batch_locked = False

    def __init__(self, *, device="cpu", batch_size=None, run_type_checks=False, allow_done_after_reset=False):
        self.device = device
        self.batch_size = Size(batch_size or ())
        self.done_spec = _Spec(shape=(1,), dtype=bool)

    def set_seed(self, s):
        self.rng = None

    def to(self, d):
        return self

    def reset(self, td=None, **kw):
        r = self._reset(td, **kw)
        bs = list(r.batch_size)
        shp = self.done_spec.shape
        if isinstance(shp, _pyint):
            shp = (shp,)
        shp = tuple(shp or ())
        for k in ("done", "terminated"):
            if k not in r.d:
                r.d[k] = zeros(*bs, *shp, dtype=bool)
        if td is not None:
            td.update(r)
            td.batch_size = r.batch_size
            return td
        return r


def make_world():
    """returns an importer that loads rl4co.* modules from /repo with the shim libs"""
    mods = {}
    me = sys.modules[__name__]

    torch_mod = me
    td_mod = types.ModuleType("tensordict")
    td_mod.TensorDict = TensorDict
    td_tensordict = types.ModuleType("tensordict.tensordict")
    td_tensordict.TensorDict = TensorDict
    td_mod.tensordict = td_tensordict
    rl_data = types.ModuleType("torchrl.data")
    rl_data.Bounded = rl_data.Unbounded = _Spec
    rl_data.Composite = _Composite
    rl_envs = types.ModuleType("torchrl.envs")
    rl_envs.EnvBase = EnvBaseStub
    rl = types.ModuleType("torchrl")
    rl.data, rl.envs = rl_data, rl_envs

    class _Log:
        def __getattr__(self, n):
            return lambda *a, **k: None

    pylogger = types.ModuleType("rl4co.utils.pylogger")
    pylogger.get_pylogger = lambda *a, **k: _Log()
    einops = types.ModuleType("einops")
    einops.rearrange = lambda *a, **k: (_ for _ in ()).throw(Unsupported("einops"))
    functional = types.ModuleType("torch.nn.functional")

    def pad(t, p, mode="constant", value=0):
        assert len(p) == 2
        widths = [(0, 0)] * (t.a.ndim - 1) + [tuple(p)]
        return Tensor(np.pad(t.a, widths, constant_values=_cast_scalar(value, t.dtype)), t.dtype)

    functional.pad = pad
    nn = types.ModuleType("torch.nn")
    nn.functional = functional
    torch_mod.nn = nn
    torch_mod.Tensor = Tensor
    torch_mod.Size = Size

    fixed = {
        "torch": torch_mod,
        "torch.nn": nn,
        "torch.nn.functional": functional,
        "tensordict": td_mod,
        "tensordict.tensordict": td_tensordict,
        "torchrl": rl,
        "torchrl.data": rl_data,
        "torchrl.envs": rl_envs,
        "einops": einops,
        "rl4co.utils.pylogger": pylogger,
    }
    stub_ok = ("render", "local_search", "dataset", "rl4co.data.utils", "generator")

    real_import = builtins.__import__

    def load(name):
        if name in mods:
            return mods[name]
        if name in fixed:
            return fixed[name]
        path = REPO + "/" + name.replace(".", "/")
        import os

        if os.path.isdir(path):
            m = types.ModuleType(name)
            m.__path__ = [path]
            m.__package__ = name
            mods[name] = m
            ini = path + "/__init__.py"
            if os.path.isfile(ini) and "import" not in open(ini).read():
                exec(compile(open(ini).read(), ini, "exec"), m.__dict__)  # constants-only __init__
            return m  # other package __init__s deliberately NOT executed
        if not os.path.isfile(path + ".py"):
            raise ImportError(name)
        m = types.ModuleType(name)
        m.__file__ = path + ".py"
        m.__package__ = name.rpartition(".")[0]
        mods[name] = m
        sys.modules[name] = m  # dataclasses/typing look modules up by name
        src = open(path + ".py").read()
        g = m.__dict__
        g["__builtins__"] = dict(vars(builtins), __import__=imp)
        exec(compile(src, path + ".py", "exec"), g)
        return m

    _stub_classes = {}

    def _stub_class(qual):
        if qual not in _stub_classes:
            def __init__(self, *a, **k):
                pass

            def __getattr__(self, n):
                if n.startswith("__"):
                    raise AttributeError(n)
                return lambda *a, **k: None

            _stub_classes[qual] = type(qual.rpartition(".")[2], (object,), {"__init__": __init__, "__getattr__": __getattr__})
        return _stub_classes[qual]

    class _Anything(types.ModuleType):
        def __getattr__(self, n):
            if n.startswith("__"):
                raise AttributeError(n)
            if n[0].isupper():  # LightningModule, Dataset, DataLoader, ... usable as base classes
                return _stub_class(self.__name__ + "." + n)
            return _Anything(self.__name__ + "." + n)

        def __call__(self, *a, **k):
            return None

    def _reexport(pkg, attr):
        """package __init__ is not executed; resolve `from X import attr` re-exports lazily from its AST"""
        import ast, os

        ini = REPO + "/" + pkg.replace(".", "/") + "/__init__.py"
        if not os.path.isfile(ini):
            return None
        for node in ast.walk(ast.parse(open(ini).read())):
            if isinstance(node, ast.ImportFrom):
                for al in node.names:
                    if (al.asname or al.name) == attr:
                        mod = node.module or ""
                        if node.level:
                            base = pkg.split(".")
                            base = base[: len(base) - (node.level - 1)]
                            mod = ".".join(base + ([mod] if mod else []))
                        return mod, al.name
        return None

    def imp(name, globals=None, locals=None, fromlist=(), level=0):
        if level:
            pkg = globals["__package__"]
            base = pkg.split(".")
            base = base[: len(base) - (level - 1)]
            name = ".".join(base + ([name] if name else []))
        top = name.split(".")[0]
        if top in ("rl4co", "torch", "tensordict", "torchrl", "einops"):
            if any(name.endswith(s) for s in ("render", "local_search")) or name in (
                "rl4co.data.dataset",
                "rl4co.data.utils",
            ):
                return _Anything(name)
            if name.startswith("torch.distributions") or name.startswith("torch.utils") or name.startswith("torch.optim"):
                return _Anything(name)
            m = load(name)
            if fromlist:
                for f in fromlist:
                    if not hasattr(m, f):
                        try:
                            setattr(m, f, load(name + "." + f))
                        except ImportError:
                            src = _reexport(name, f)
                            if src is not None:
                                setattr(m, f, getattr(imp(src[0], None, None, (src[1],), 0), src[1]))
                            elif hasattr(m, "__path__"):
                                # defined in the body of an unexecuted package __init__ (e.g. get_env)
                                def _deferred(*a, _n=name + "." + f, **k):
                                    raise Unsupported("deferred package-level name " + _n)

                                setattr(m, f, _deferred)
                return m
            return load(top) if "." in name else m
        if top in ("lightning", "hydra", "omegaconf", "wandb", "matplotlib", "robust_downloader", "tqdm"):
            return _Anything(name)
        return real_import(name, globals, locals, fromlist, level)

    return load
