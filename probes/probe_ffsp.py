"""FEASIBILITY PROBE (C02/C07 style): the real FFSPEnv (IndexTables, _step, _move_to_next_machine,
_update_step_state) with symbolic integer durations in [1, D], all mask-admitted job choices forked.
Oracle on the final `schedule`: every job once per stage on a machine of that stage, stages in order,
machines exclusive, reward = -makespan."""
import sys, time, types, itertools, z3, numpy as np
sys.path.insert(0, '/verif/probes')
import symtorch_probe as st
import symtorch_probe2 as s2
NJ = int(sys.argv[1]) if len(sys.argv) > 1 else 2
NS, NMA, D = 2, (int(sys.argv[2]) if len(sys.argv) > 2 else 1), 2
T = st.Tensor
# ---- a few more torch functions this env touches
def _mk_kw(fill_default):
    def f(*shape, size=None, dtype=None, device=None, fill_value=None):
        shp = tuple(size) if size is not None else (tuple(shape[0]) if len(shape) == 1 and isinstance(shape[0], (tuple, list)) else shape)
        fv = fill_default if fill_value is None else fill_value
        if dtype is None: dtype = st.bool if isinstance(fv, bool) else (st.int64 if isinstance(fv, int) else st.float32)
        if dtype is bool: dtype = st.bool
        return st._mk((shp,), fv, dtype)
    return f
st.zeros, st.ones, st.empty = _mk_kw(0), _mk_kw(1), _mk_kw(0)
st.full = lambda size=None, fill_value=None, dtype=None, device=None, *a, **k: _mk_kw(0)(size=size, fill_value=fill_value, dtype=dtype)
st.full_like = lambda t, v, **k: st._mk((t.shape,), v, t.dtype)
st.flatten = lambda t: T(t.a.reshape(-1), t.dtype)
T.repeat_interleave = lambda s, n: T(np.repeat(s.a, n), s.dtype)
T.repeat = lambda s, *r: T(np.tile(s.a, r), s.dtype)
_old_max = T.max
def _max(self, dim=None, keepdim=False):
    r = _old_max(self, dim, keepdim)
    return (r.values, None) if dim is not None else r
T.max = _max
T.random_ = lambda s: s
_old_tensor = st.tensor
st.tensor = lambda data, dtype=None, device=None: _old_tensor(data, dtype)
_old_arange = st.arange
st.arange = lambda *a, dtype=None, device=None, out=None: _old_arange(*a)
def _isub(self, o):
    r = self - o; self.a[...] = r.a; return self
T.__isub__ = _isub
def _iadd(self, o):
    r = self + o; self.a[...] = r.a; return self
T.__iadd__ = _iadd
load = s2.install(st.make_world())
mod = load('rl4co.envs.scheduling.ffsp.env')
gen = types.SimpleNamespace(num_stage=NS, num_machine=NMA, num_job=NJ, num_machine_total=NS * NMA, flatten_stages=True)
env = mod.FFSPEnv(generator=gen)
NM = NS * NMA
stats = dict(paths=0, bad=[], maxsteps=0)
def harness():
    E = st.EXP
    rt = st.sym_tensor('d', (1, NJ, NM), st.int64)
    for x in rt.a.reshape(-1): E.assume(z3.And(x >= 1, x <= D))
    td = env.reset(st.TensorDict({'run_time': rt}, batch_size=[1]))
    steps = 0
    while True:
        for k in ('action_mask', 'done', 'machine_idx', 'time_idx', 'sub_time_idx', 'job_location'):
            s2.concretize(td[k], 0, 64)
        if td['done'].a.reshape(-1)[0]: break
        cands = [i for i, m in enumerate(td['action_mask'].a[0]) if m]
        assert cands, 'dead end'
        a = cands[E.choose(len(cands))]
        td.set('action', st.tensor([a])); td = env.step(td)['next']; steps += 1
        assert steps <= 4 * NJ * NS * (D + 1), 'step bound exceeded'
    stats['maxsteps'] = max(stats['maxsteps'], steps)
    sch = td['schedule'].a[0]          # [machine, job] start times (-999999 = never)
    ok = []; start = {}; end = {}
    for j in range(NJ):
        for s in range(NS):
            ms = [m for m in range(s * NMA, (s + 1) * NMA) if not (st.is_sym(sch[m, j]) is False and sch[m, j] == -999999)]
            used = [m for m in ms if not (isinstance(sch[m, j], int) and sch[m, j] < 0)]
            assert len(used) == 1, f'job {j} stage {s} scheduled on {len(used)} machines'
            m = used[0]; start[j, s] = (sch[m, j], m); end[j, s] = sch[m, j] + rt.a[0, j, m]
        for s in range(1, NS): ok.append(st._int(start[j, s][0]) >= end[j, s - 1])
    for (j1, s1), (t1, m1) in start.items():
        for (j2, s2_), (t2, m2) in start.items():
            if (j1, s1) < (j2, s2_) and m1 == m2:
                ok.append(z3.Or(end[j1, s1] <= st._int(t2), end[j2, s2_] <= st._int(t1)))
    mk = None
    for v in end.values(): mk = v if mk is None else z3.If(v >= mk, v, mk)
    rew = td['reward'].a.reshape(-1)[0]
    ok.append(st._real(rew) == -z3.ToReal(mk))
    stats['paths'] += 1
    if E.check(z3.Not(z3.And(*ok))) == z3.sat:
        m = E.solver.model(); stats['bad'].append([str(m.eval(x, True)) for x in rt.a.reshape(-1)])
t = time.time(); st.EXP.run(harness)
print(f'FFSP jobs={NJ} stages={NS} machines/stage={NMA} D={D}: paths={stats["paths"]} max_steps={stats["maxsteps"]} queries={st.EXP.queries} wall={time.time()-t:.1f}s violations={len(stats["bad"])} {stats["bad"][:1]}')
