"""FEASIBILITY PROBE (C05 style): the mask never hides a feasible CVRP solution.
Symbolic instance + symbolic action sequence NOT constrained by the mask; assume the sequence is a
feasible solution in canonical form (oracle); assert every action was mask-admitted and the env is
done exactly when the solution is complete."""
import sys, time, types, z3
sys.path.insert(0, '/verif/probes')
import symtorch_probe as st
n = int(sys.argv[1]) if len(sys.argv) > 1 else 3
mutate = len(sys.argv) > 2
load = st.make_world()
import builtins, io
if mutate:
    _open = builtins.open
    def fake_open(p, *a, **k):
        f = _open(p, *a, **k)
        if str(p).endswith('cvrp/env.py'):   # too-tight mask: equality no longer admitted
            return io.StringIO(f.read().replace('td["demand"] + td["used_capacity"] > td["vehicle_capacity"]', 'td["demand"] + td["used_capacity"] >= td["vehicle_capacity"]'))
        return f
    builtins.open = fake_open
mod = load('rl4co.envs.routing.cvrp.env')
env = mod.CVRPEnv(generator=types.SimpleNamespace(vehicle_capacity=1.0, num_loc=n, min_loc=0.0, max_loc=1.0, capacity=1.0, max_demand=1.0, min_demand=0.0), check_solution=False)
T = 2 * n + 1
t0 = time.time(); S = z3.Solver()
td = st.TensorDict({'locs': st.sym_tensor('loc', (1, n, 2), st.float32), 'depot': st.sym_tensor('dep', (1, 2), st.float32), 'demand': st.sym_tensor('dem', (1, n), st.float32)}, batch_size=[1])
dem = list(td['demand'].a[0])
for d in dem: S.add(d > 0, d <= 1)
td = env.reset(td)
acts = [z3.Int(f'a{t}') for t in range(T)]
# ---- oracle: feasible + canonical (route loads <= 1, every customer exactly once, no depot->depot
#      before completion, padding with depot after completion)
load_ = z3.RealVal(0); prev = z3.IntVal(0); served = z3.IntVal(0)
for t, a in enumerate(acts):
    S.add(a >= 0, a <= n)
    d = z3.RealVal(0)
    for k in range(1, n + 1): d = z3.If(a == k, dem[k - 1], d)
    load_ = z3.If(a == 0, 0, load_ + d); S.add(load_ <= 1)
    complete = served == n
    S.add(z3.Implies(z3.And(a == 0, prev == 0), complete))     # canonical: no idle depot visit
    S.add(z3.Implies(complete, a == 0))                        # after completion only padding
    served = served + z3.If(a != 0, 1, 0); prev = a
for k in range(1, n + 1): S.add(z3.Sum([z3.If(a == k, 1, 0) for a in acts]) == 1)
hidden = []
for t, a in enumerate(acts):
    mask = td['action_mask']
    hidden.append(z3.Not(z3.Or(*[z3.And(a == k, st._bool(mask.a[0, k])) for k in range(n + 1)])))
    td.set('action', st.Tensor([a], st.int64)); td = env.step(td)['next']
hidden.append(z3.Not(st._bool(td['done'].a[0])))
S.add(z3.Or(*hidden))
te = time.time() - t0; t1 = time.time(); r = S.check()
print(f'C05/CVRP n={n} mutate={mutate} encode={te:.2f}s solve={time.time()-t1:.2f}s -> {r}')
if r == z3.sat:
    m = S.model(); print('actions', [m.eval(a) for a in acts], 'demand', [m.eval(d) for d in dem])
