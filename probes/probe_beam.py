"""FEASIBILITY PROBE (C13 style): the real ConstructivePolicy.forward + BeamSearch (pre/step/
_make_beam_step/_backtrack/_select_best_beam) on the real TSPEnv.  The decoder is abstract: its logits
are an uninterpreted function of the *state it is shown* (first node, current node, availability), so
a wrongly re-indexed state yields different symbols.  Symbolic top-k => symbolic beam parents."""
import sys, time, types, z3, numpy as np
sys.path.insert(0, '/verif/probes')
import symtorch_probe as st
import symtorch_probe2 as s2
import symtorch_probe3 as s3
n = int(sys.argv[1]) if len(sys.argv) > 1 else 3
W = int(sys.argv[2]) if len(sys.argv) > 2 else 2
Bz = int(sys.argv[3]) if len(sys.argv) > 3 else 1
mutate = len(sys.argv) > 4
T = st.Tensor; XR = s2.XR
# ------------------------------------------------ engine bits this code path needs
def sym_gather0(a, idx):
    """a[idx] along dim 0 with symbolic integer idx (1-D)"""
    out = np.empty((len(idx),) + a.shape[1:], dtype=object)
    for r, i in enumerate(idx):
        if not st.is_sym(i): out[r] = a[i]; continue
        st.OBLIGATIONS.append(('row index in range', z3.And(i >= 0, i < a.shape[0])))
        acc = a[a.shape[0] - 1]
        for k in range(a.shape[0] - 2, -1, -1):
            acc = st.U_WHERE(i == k, a[k], acc) if a.ndim > 1 else st.s_where(i == k, a[k], acc)
        out[r] = acc
    return out
_gi = T.__getitem__
def _getitem(self, idx):
    first = idx[0] if isinstance(idx, tuple) else idx
    if isinstance(first, T) and first.dtype.name != 'bool' and any(st.is_sym(x) for x in first.a.reshape(-1)):
        res = T(sym_gather0(self.a, list(first.a.reshape(-1))), self.dtype)
        return _gi(res, (slice(None),) + tuple(idx[1:])) if isinstance(idx, tuple) and len(idx) > 1 else res
    return _gi(self, idx)
T.__getitem__ = _getitem
def topk(t, k, dim=-1):
    idx = t.argsort(dim)                          # ascending, rank encoding (ties: lower index first)
    idx = T(idx.a[..., ::-1][..., :k].copy(), st.int64)
    return t.gather(dim, idx), idx
st.topk = topk
st.hstack = lambda ts: st.cat(list(ts), 0) if ts[0].dim() == 1 else st.cat(list(ts), 1)
st.unbind = lambda t, dim=0: t.unbind(dim)
T.int = lambda s: s._cast(st.int32)
_omax = T.max
def _max(self, dim=None, keepdim=False):
    if dim is None: return _omax(self)
    vals, idx = topk(self, 1, dim)
    return (vals.squeeze(dim), idx.squeeze(dim)) if not keepdim else (vals, idx)
T.max = _max
T.argmax = lambda s, dim=-1: topk(s, 1, dim)[1].squeeze(dim)
T.repeat = lambda s, *r: T(np.tile(s.a, r), s.dtype)
T.repeat_interleave = lambda s, r: T(np.repeat(s.a, r), s.dtype)
T.exp = lambda s: s3.apply_elem('exp', s)
TD = st.TensorDict
TD.expand = lambda self, *shape: TD({k: v.expand(*shape, *v.shape[len(self.batch_size):]) for k, v in self.d.items()}, batch_size=shape)
TD.contiguous = lambda self: self
TD.view = lambda self, *shape: TD({k: v.view(*shape, *v.shape[len(self.batch_size):]) for k, v in self.d.items()}, batch_size=shape)
def log_softmax(t, dim=-1):
    """contract: -inf stays -inf; finite outputs are a function of the whole (flagged) row"""
    out = np.empty(t.a.shape, dtype=object)
    for pos in np.ndindex(*t.a.shape[:-1]):
        row = [s2._xr(x) for x in t.a[pos]]
        args = []
        for x in row: args += [st._real(st.s_where(x.ninf, 0.0, x.v)), st._real(st._bool(x.ninf))]   # the value under a -inf flag is irrelevant
        for j, x in enumerate(row):
            v = s3.UF(f'lsm{len(row)}_{j}', len(args))(*args)
            st.EXP.assume(z3.And(v > -1000, v <= 0))   # bounded logits (tanh clipping): finite log-probs are in (-1000, 0]
            out[pos + (j,)] = XR(False, v, x.ninf)
    return T(out, st.float32)
load = s3.install(st.make_world())
load('torch.nn.functional').log_softmax = log_softmax
import builtins, io
if mutate:
    _open = builtins.open
    def fake_open(p, *a, **k):
        f = _open(p, *a, **k)
        if str(p).endswith('utils/decoding.py'):   # off-by-one-beam: parent offset applied with the wrong stride
            return io.StringIO(f.read().replace('batch_beam_idx = batch_beam_sequence + beam_parent * batch_size\n\n        self.parent_beam_logprobs', 'batch_beam_idx = batch_beam_sequence + beam_parent\n\n        self.parent_beam_logprobs'))
        return f
    builtins.open = fake_open
tsp = load('rl4co.envs.routing.tsp.env')
base = load('rl4co.models.common.constructive.base')
env = tsp.TSPEnv(generator=types.SimpleNamespace(num_loc=n, min_loc=0.0, max_loc=1.0), check_solution=False)
def state_logits(first, cur, avail):
    """abstract policy: logits_j = L_j(first, current, availability vector)"""
    args = [st._real(first), st._real(cur)] + [st._real(st._bool(a)) for a in avail]
    return [s3.UF(f'L_{j}', len(args))(*args) for j in range(n)]
class Enc(s3.Module):
    def forward(self, td): return None, None
class Dec(s3.Module):
    def pre_decoder_hook(self, td, env, hidden, num_starts): return td, env, hidden
    def forward(self, td, hidden, num_starts):
        Bp = td.batch_size[0]; out = np.empty((Bp, n), dtype=object)
        for r in range(Bp):
            out[r] = state_logits(td['first_node'].a.reshape(Bp)[r], td['current_node'].a.reshape(Bp)[r], td['action_mask'].a[r])
        return T(out, st.float32), td['action_mask']
policy = base.ConstructivePolicy(Enc(), Dec(), env_name='tsp')
t0 = time.time()
paths = {'n': 0, 'bad': []}
def harness():
    E = st.EXP
    td = env.reset(st.TensorDict({'locs': st.sym_tensor('loc', (Bz, n, 2), st.float32)}, batch_size=[Bz]))
    out = policy(td, env, decode_type='beam_search', beam_width=W, select_best=False)
    acts = out['actions']; ll = out['log_likelihood']
    paths['n'] += 1
    bad = []
    rows = acts.shape[0]
    for r in range(rows):
        seq = list(acts.a[r])
        bad.append(z3.Not(z3.Distinct(*[st._int(x) for x in seq])))          # a permutation
        # re-derive the log-likelihood of this very sequence from scratch
        avail = [True] * n; first = cur = None; total = 0.0
        for t, a in enumerate(seq):
            if t == 0:
                first = cur = a; avail = [st.s_not(st.s_eq(a, j)) for j in range(n)]; continue    # forced start: logp 0
            lg = state_logits(first, cur, avail)
            rowx = [XR(False, l, st.s_not(av)) for l, av in zip(lg, avail)]
            lsm = log_softmax(T(np.array([rowx], dtype=object), st.float32)).a[0]
            pick = lsm[n - 1].v
            for j in range(n - 2, -1, -1): pick = st.s_where(st.s_eq(a, j), lsm[j].v, pick)
            total = st.s_add(total, pick)
            avail = [st.s_and(av, st.s_not(st.s_eq(a, j))) for j, av in enumerate(avail)]; cur = a
        got = ll.a[r]; got = got.v if isinstance(got, XR) else got
        bad.append(st._real(got) != st._real(total))
    for r1 in range(rows):                                                          # beams of one instance distinct
        for r2 in range(r1 + 1, rows):
            if r1 % Bz != r2 % Bz: continue
            bad.append(z3.And(*[st._int(x) == st._int(y) for x, y in zip(acts.a[r1], acts.a[r2])]))
    if E.check(z3.Or(*bad)) == z3.sat:
        m = E.solver.model(); paths['bad'].append([[m.eval(st._int(x), True) for x in acts.a[r]] for r in range(rows)])
st.EXP.run(harness)
print(f'BeamSearch TSP n={n} width={W} B={Bz} mutate={mutate}: paths={paths["n"]} queries={st.EXP.queries} wall={time.time()-t0:.1f}s violations={len(paths["bad"])} {paths["bad"][:1]}')
