"""FEASIBILITY PROBE (C02/C07 style): the real FJSPEnv (reset/step/mask/time advance/reward)
with symbolic processing times, all mask-admitted action sequences (forked), discrete state
concretised by forking after every step.  Per path: schedule validity oracle + makespan."""
import sys, time, types, z3
sys.path.insert(0, '/verif/probes')
import symtorch_probe as st
import symtorch_probe2 as s2
NJ, NOPS, NM = 2, int(sys.argv[1]) if len(sys.argv) > 1 else 2, 2
mutate = len(sys.argv) > 2
load = s2.install(st.make_world())
if mutate:
    import builtins, io
    _open = builtins.open
    def fake_open(p, *a, **k):
        f = _open(p, *a, **k)
        if str(p).endswith('fjsp/env.py'):
            # regression: machine release no longer blocks the machine
            return io.StringIO(f.read().replace('action_mask.add_(td["busy_until"].gt(td["time"].unsqueeze(1)).unsqueeze(1))', 'pass'))
        return f
    builtins.open = fake_open
utils = load('rl4co.envs.scheduling.fjsp.utils')
mod = load('rl4co.envs.scheduling.fjsp.env')
# cut: the lower-bound *feature* (policy input) is not part of schedule validity
mod.calc_lower_bound = lambda td: st.zeros(*td['finish_times'].shape)
gen = types.SimpleNamespace(num_mas=NM, num_jobs=NJ, max_ops_per_job=NOPS)
env = mod.FJSPEnv(generator=gen, mask_no_ops=True)
NO = NJ * NOPS
stats = dict(paths=0, done=0, bad=[], maxsteps=0)

def harness():
    E = st.EXP
    proc = st.sym_tensor('p', (1, NM, NO), st.float32)
    orig = proc.a.copy()
    for x in proc.a.reshape(-1): E.assume(x > 0)          # every op eligible on every machine
    td = st.TensorDict({
        'start_op_per_job': st.tensor([[j * NOPS for j in range(NJ)]]),
        'end_op_per_job': st.tensor([[j * NOPS + NOPS - 1 for j in range(NJ)]]),
        'proc_times': proc,
        'pad_mask': st.full((1, NO), False),
    }, batch_size=[1])
    td = env.reset(td)
    steps = 0
    while True:
        for k in ('action_mask', 'next_op', 'job_in_process', 'job_done', 'done'):
            s2.concretize(td[k], 0, NO + 1)
        if td['done'].a.reshape(-1)[0]:
            break
        cands = [i for i, m in enumerate(td['action_mask'].a[0]) if m]
        assert cands, 'dead end'
        a = cands[E.choose(len(cands))]
        td.set('action', st.tensor([a]))
        try:
            td = env.step(td)['next']
        except AssertionError as e:
            stats['paths'] += 1
            stats['bad'].append(('env assertion on a mask-admitted action', steps, a)); return
        steps += 1
        assert steps <= 2 * NO + 2, 'step bound exceeded'
    stats['maxsteps'] = max(stats['maxsteps'], steps)
    # ---- independent oracle on the final schedule
    ok = []
    def fin(x):
        if isinstance(x, s2.XR):
            ok.append(st.s_not(x.pinf) if st.is_sym(x.pinf) else z3.BoolVal(not x.pinf)); return x.v
        return x
    S = [fin(x) for x in td['start_times'].a[0]]; F = [fin(x) for x in td['finish_times'].a[0]]; MA = td['ma_assignment'].a[0]
    mach = {}
    for o in range(NO):
        ms = [m for m in range(NM) if MA[m, o] == 1]
        assert len(ms) == 1, 'op not scheduled exactly once'
        mach[o] = ms[0]
        ok.append(F[o] - S[o] == orig[0, ms[0], o])
        ok.append(S[o] >= 0)
        if o % NOPS: ok.append(S[o] >= F[o - 1])
    for o1 in range(NO):
        for o2 in range(o1 + 1, NO):
            if mach[o1] == mach[o2]:
                ok.append(z3.Or(F[o1] <= S[o2], F[o2] <= S[o1]))
    rew = fin(env.get_reward(td, None).a[0])
    mk = F[0]
    for o in range(1, NO): mk = z3.If(F[o] >= mk, F[o], mk)
    ok.append(rew == -mk)
    stats['paths'] += 1
    if E.check(z3.Not(z3.And(*ok))) == z3.sat:
        m = E.solver.model()
        stats['bad'].append(([m.eval(x, True) for x in orig.reshape(-1)], [str(z3.simplify(m.eval(x, True))) for x in list(S) + list(F)]))

t = time.time(); st.EXP.run(harness)
print(f'jobs={NJ} ops/job={NOPS} machines={NM} mutate={mutate} paths={stats["paths"]} max_steps={stats["maxsteps"]} queries={st.EXP.queries} solver={st.EXP.solver_time:.1f}s wall={time.time()-t:.1f}s violations={len(stats["bad"])}')
if stats['bad']: print(stats['bad'][0])
