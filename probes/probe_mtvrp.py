"""FEASIBILITY PROBE (C01/C02 style): real MTVRPEnv, one variant chosen by CONCRETE flags
(open route / time windows / distance limit / backhauls) with SYMBOLIC data.  `inf` entries of the
non-TW / non-L variants stay concrete python infinities and are folded while the terms are built.
usage: probe_mtvrp.py N FLAGS   e.g.  probe_mtvrp.py 3 OTWLB   (FLAGS subset of O,TW,L,B; '-' = CVRP)"""
import sys, time, types, math, z3, numpy as np
sys.path.insert(0, '/verif/probes')
import symtorch_probe as st
import symtorch_probe2 as s2
n = int(sys.argv[1]); flags = sys.argv[2] if len(sys.argv) > 2 else '-'
STRICT = len(sys.argv) > 3   # 'generator' contract: return-to-depot slack is strict
O, TW, L, B_ = 'O' in flags, 'TW' in flags, 'L' in flags.replace('TW', ''), 'B' in flags
load = s2.install(st.make_world())
mod = load('rl4co.envs.routing.mtvrp.env')
gen = types.SimpleNamespace(num_loc=n, min_loc=0.0, max_loc=1.0, capacity=1.0, max_demand=1.0)
env = mod.MTVRPEnv(generator=gen, check_solution=False)
t0 = time.time(); S = z3.Solver(); N = n + 1
locs = st.sym_tensor('loc', (1, N, 2), st.float32)
def col(name, sym, default):  # [1,N] tensor, depot entry fixed
    a = np.empty((1, N), dtype=object)
    for j in range(N): a[0, j] = z3.Real(f'{name}{j}') if (sym and j > 0) else default
    return st.Tensor(a, st.float32)
# backhaul pattern: concrete enumeration is the harness' job; probe takes 'last customer is backhaul'
isback = [False] + [B_ and j == n for j in range(1, N)]
dl = np.empty((1, N), dtype=object); db = np.empty((1, N), dtype=object)
for j in range(N):
    v = z3.Real(f'dem{j}') if j > 0 else 0.0
    dl[0, j] = (0.0 if isback[j] else v); db[0, j] = (v if isback[j] else 0.0)
    if j > 0: S.add(v > 0, v <= 1)
tw = np.empty((1, N, 2), dtype=object)
tw[0, 0, 0] = 0.0; tw[0, 0, 1] = z3.Real('tmax') if TW else math.inf
for j in range(1, N):
    tw[0, j, 0] = z3.Real(f'e{j}') if TW else 0.0
    tw[0, j, 1] = z3.Real(f'l{j}') if TW else math.inf
service = col('svc', TW, 0.0)
limit = st.Tensor(np.array([[z3.Real('limit') if L else math.inf]], dtype=object), st.float32)
speed = z3.RealVal(1)   # generator default; symbolic speed makes d/speed non-linear (thorough only)
td = st.TensorDict({
    'locs': locs, 'demand_linehaul': st.Tensor(dl, st.float32), 'demand_backhaul': st.Tensor(db, st.float32),
    'distance_limit': limit, 'service_time': service, 'open_route': st.tensor([[O]]),
    'time_windows': st.Tensor(tw, st.float32), 'vehicle_capacity': st.full((1, 1), 1.0),
    'capacity_original': st.full((1, 1), 30.0), 'speed': st.full((1, 1), 1.0)}, batch_size=[1])
td = env.reset(td)
# instance contract = exactly what MTVRPEnv.check_solution_validity asserts about the *instance*
d0 = [st.N2(st._real(locs.a[0, j, 0] - locs.a[0, 0, 0]), st._real(locs.a[0, j, 1] - locs.a[0, 0, 1])) if j else z3.RealVal(0) for j in range(N)]
for j in range(1, N):
    st.NORM_APPS.append((locs.a[0, j, 0] - locs.a[0, 0, 0], locs.a[0, j, 1] - locs.a[0, 0, 1], d0[j]))
    if TW: S.add(tw[0, j, 0] >= 0, service.a[0, j] >= 0, tw[0, j, 0] < tw[0, j, 1], (tw[0, j, 0] + d0[j] + service.a[0, j] < tw[0, 0, 1]) if STRICT else (tw[0, j, 0] + d0[j] + service.a[0, j] <= tw[0, 0, 1]), d0[j] < tw[0, j, 1])
    if L: S.add(2 * d0[j] < limit.a[0, 0])
if TW: S.add(tw[0, 0, 1] > 0)
if TW and STRICT:
    for j in range(1, N): S.add(tw[0, j, 0] >= d0[j])   # generator: tw_start = (1 + ...) * d_0j / speed >= d_0j
T = 2 * n + 1; acts = []; viol = []
seen = [z3.BoolVal(False)] * N
load_l = z3.RealVal(0); load_b = z3.RealVal(0); tnow = z3.RealVal(0); rlen = z3.RealVal(0); cur = z3.IntVal(0); had_back = z3.BoolVal(False)
def sel(idx, vals):
    acc = vals[-1]
    for k in range(len(vals) - 2, -1, -1): acc = z3.If(idx == k, vals[k], acc)
    return acc
X = [locs.a[0, j, 0] for j in range(N)]; Y = [locs.a[0, j, 1] for j in range(N)]
for t in range(T):
    a = z3.Int(f'a{t}'); acts.append(a); S.add(a >= 0, a <= n)
    mask = td['action_mask']
    S.add(z3.Or(*[z3.And(a == k, st._bool(mask.a[0, k])) for k in range(N)]))
    # ---------------- independent ground truth (route-wise simulation)
    dist = st.N2(sel(cur, X) - sel(a, X), sel(cur, Y) - sel(a, Y)); st.NORM_APPS.append((sel(cur, X) - sel(a, X), sel(cur, Y) - sel(a, Y), dist))
    atdepot = a == 0
    for k in range(1, N):
        viol.append(z3.And(a == k, seen[k])); seen[k] = z3.Or(seen[k], a == k)
    ab = sel(a, [z3.BoolVal(x) for x in isback])
    viol.append(z3.And(z3.Not(atdepot), z3.Not(ab), had_back))                    # linehaul after backhaul in one route
    load_l = z3.If(atdepot, 0, load_l + sel(a, [st._real(x) for x in dl[0]])); viol.append(load_l > 1)
    load_b = z3.If(atdepot, 0, load_b + sel(a, [st._real(x) for x in db[0]])); viol.append(load_b > 1)
    had_back = z3.If(atdepot, False, z3.Or(had_back, ab))
    if L:
        leg = z3.If(z3.And(atdepot, O), 0, dist)                                     # open routes: return leg not counted
        viol.append(rlen + leg > limit.a[0, 0]); rlen = z3.If(atdepot, 0, rlen + dist)
    if TW:
        arr = tnow + dist
        late = sel(a, [st._real(x) for x in tw[0, :, 1]]); early = sel(a, [st._real(x) for x in tw[0, :, 0]])
        viol.append(z3.And(z3.Not(z3.And(atdepot, O)), arr > late))                 # service (or closed return) starts in window
        tnow = z3.If(atdepot, 0, z3.If(arr >= early, arr, early) + sel(a, [st._real(x) for x in service.a[0]]))
    cur = a
    td.set('action', st.Tensor([a], st.int64)); td = env.step(td)['next']
    viol.append(z3.And(z3.Not(st._bool(td['done'].a[0])), z3.Not(z3.Or(*[st._bool(m) for m in td['action_mask'].a[0]]))))
viol.append(z3.Not(st._bool(td['done'].a[0]))); viol.append(z3.Not(z3.And(*seen[1:])))
S.add(*st.norm_axioms()); S.add(z3.Or(*viol))
te = time.time() - t0; t1 = time.time(); r = S.check()
print(f'MTVRP n={n} flags={flags} encode={te:.1f}s solve={time.time()-t1:.1f}s -> {r}')
if r == z3.sat:
    m = S.model(); print('actions', [m.eval(a) for a in acts]); print({str(d): m[d] for d in m.decls() if not str(d).startswith('norm2')})
