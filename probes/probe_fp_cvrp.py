"""FEASIBILITY PROBE: bit-precise float32 query for the CVRP mask comparison
`demand + used_capacity > vehicle_capacity` (rl4co/envs/routing/cvrp/env.py:get_action_mask)
with demands = int/capacity as produced by CVRPGenerator._generate.
Question to the solver: are there integer demands whose sum is <= capacity (route feasible in
the integer problem) for which the float32 mask nevertheless hides a customer?"""
import sys, time, z3
k = int(sys.argv[1]) if len(sys.argv) > 1 else 4
F = z3.Float32(); rm = z3.RNE()
cap_i = z3.BitVec('cap', 8)
ds = [z3.BitVec(f'd{i}', 8) for i in range(k)]
s = z3.Solver()
s.add(z3.ULE(10, cap_i), z3.ULE(cap_i, 150))
tot = z3.BitVecVal(0, 8)
for d in ds:
    s.add(z3.ULE(1, d), z3.ULE(d, 9)); tot = tot + d
s.add(tot == cap_i)            # the route fills the vehicle exactly
cap = z3.fpUnsignedToFP(rm, cap_i, F)
used = z3.FPVal(0.0, F); one = z3.FPVal(1.0, F)
hidden = []
for d in ds:
    dem = z3.fpDiv(rm, z3.fpUnsignedToFP(rm, d, F), cap)       # generator: demand / capacity
    hidden.append(z3.fpGT(z3.fpAdd(rm, dem, used), one))         # env: exceeds_cap
    used = z3.fpAdd(rm, used, dem)                               # env: used_capacity update
s.add(z3.Or(*hidden))
t = time.time(); r = s.check(); print('k', k, r, f'{time.time()-t:.1f}s')
if r == z3.sat:
    m = s.model(); print('cap', m[cap_i], 'demands', [m[d] for d in ds])
