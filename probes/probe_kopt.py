"""FEASIBILITY PROBE: one 2-opt move of the real TSPkoptEnv._local_operator from an
arbitrary valid tour (successor array = single n-cycle) with an arbitrary admitted move
(first != second).  Assert the result is again a single n-cycle."""
import sys, time, types, z3
sys.path.insert(0, '/verif/probes')
import symtorch_probe as st
n = int(sys.argv[1]) if len(sys.argv) > 1 else 5
load = st.make_world()
mod = load('rl4co.envs.routing.tsp.env')
env = object.__new__(mod.TSPkoptEnv)
env.generator = types.SimpleNamespace(num_loc=n); env.k_max = 2; env.two_opt_mode = True
t0 = time.time()
S = z3.Solver()
rec = st.sym_tensor('rec', (1, n), st.int64)
r = list(rec.a[0])
for x in r: S.add(x >= 0, x < n)
# rec is a single cycle: following it from 0 visits n distinct nodes
def follow(succ, start, steps):
    cur = start; seq = []
    for _ in range(steps):
        nxt = succ[n-1]
        for k in range(n-2, -1, -1): nxt = z3.If(cur == k, succ[k], nxt)
        seq.append(nxt); cur = nxt
    return seq
seq = follow(r, z3.IntVal(0), n)
S.add(z3.Distinct(*seq))
act = st.sym_tensor('act', (1, 2), st.int64)
a0, a1 = act.a[0]
S.add(a0 >= 0, a0 < n, a1 >= 0, a1 < n, a0 != a1)   # TSPkoptEnv.get_mask: ~eye
out = env._local_operator(rec, act)
o = list(out.a[0])
seq2 = follow(o, z3.IntVal(0), n)
bad = z3.Or(z3.Not(z3.Distinct(*seq2)), *[z3.Or(x < 0, x >= n) for x in o])
S.add(bad)
te = time.time() - t0
t1 = time.time(); res = S.check()
print(f'n={n} encode={te:.1f}s solve={time.time()-t1:.1f}s -> {res}')
if res == z3.sat:
    m = S.model(); print([m.eval(x) for x in r], m.eval(a0), m.eval(a1), [m.eval(x) for x in o])
