"""FEASIBILITY PROBE (C20): inductive step of RewardScaler.update as polynomial identities.
Pre-state summarised by sufficient statistics (n, S1, S2) with mean=S1/n, M2=S2-S1^2/n;
after absorbing a batch x_1..x_m the same relations must hold.  NRA query, negated."""
import sys, time, z3
m = int(sys.argv[1]) if len(sys.argv) > 1 else 3
n, S1, S2 = z3.Reals('n S1 S2'); xs = [z3.Real(f'x{i}') for i in range(m)]
s = z3.Solver(); s.add(n >= 1)
mean = S1 / n; M2 = S2 - S1 * S1 / n
cnt = n + m
delta = [x - mean for x in xs]
mean2 = mean + sum(d / cnt for d in delta)
delta2 = [x - mean2 for x in xs]
M2n = M2 + sum(d * e for d, e in zip(delta, delta2))
S1n = S1 + sum(xs); S2n = S2 + sum(x * x for x in xs)
s.add(z3.Or(mean2 != S1n / cnt, M2n != S2n - S1n * S1n / cnt))
t = time.time(); print('m', m, s.check(), f'{time.time()-t:.2f}s')
