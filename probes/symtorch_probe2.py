"""FEASIBILITY PROBE, part 2 -- extra operations needed to run the real FJSP environment
(extended reals for `torch.where(..., torch.inf).min()`, einops patterns, masked_select, ...).
Still a probe: coverage is what FJSPEnv touches, nothing more."""
from __future__ import annotations

import collections
import math
import sys
import types

import numpy as np
import z3

sys.path.insert(0, "/verif/probes")
import symtorch_probe as st
from symtorch_probe import Tensor, TensorDict, is_sym, _pybool, _pyfloat, _pyint

# ---------------------------------------------------------------- extended reals


class XR:
    """value in R ∪ {+inf}: pinf flag (bool or z3 Bool) and finite value"""

    __slots__ = ("pinf", "v", "ninf")

    def __init__(self, pinf, v, ninf=False):
        self.pinf, self.v, self.ninf = pinf, v, ninf


def _isxr(x):
    return isinstance(x, XR) or (isinstance(x, _pyfloat) and math.isinf(x))


def _xr(x):
    if isinstance(x, XR):
        return x
    if isinstance(x, _pyfloat) and math.isinf(x):
        return XR(x > 0, 0.0, x < 0)
    return XR(False, x)


_o = {k: getattr(st, k) for k in ("s_lt", "s_le", "s_gt", "s_ge", "s_eq", "s_ne", "s_where", "s_add", "s_sub", "s_min", "s_max")}


def x_lt(a, b):
    if _isxr(a) or _isxr(b):
        a, b = _xr(a), _xr(b)
        fa = st.s_and(st.s_not(a.pinf), st.s_not(a.ninf))
        fb = st.s_and(st.s_not(b.pinf), st.s_not(b.ninf))
        return st.s_or(st.s_and(a.ninf, st.s_not(b.ninf)), st.s_or(st.s_and(fa, b.pinf), st.s_and(st.s_and(fa, fb), _o["s_lt"](a.v, b.v))))
    return _o["s_lt"](a, b)


def x_le(a, b):
    if _isxr(a) or _isxr(b):
        return st.s_not(x_lt(b, a))
    return _o["s_le"](a, b)


def x_gt(a, b):
    return x_lt(b, a) if (_isxr(a) or _isxr(b)) else _o["s_gt"](a, b)


def x_ge(a, b):
    return x_le(b, a) if (_isxr(a) or _isxr(b)) else _o["s_ge"](a, b)


def x_eq(a, b):
    if _isxr(a) or _isxr(b):
        a, b = _xr(a), _xr(b)
        fa = st.s_and(st.s_not(a.pinf), st.s_not(a.ninf))
        fb = st.s_and(st.s_not(b.pinf), st.s_not(b.ninf))
        return st.s_or(st.s_and(a.pinf, b.pinf), st.s_or(st.s_and(a.ninf, b.ninf), st.s_and(st.s_and(fa, fb), _o["s_eq"](a.v, b.v))))
    return _o["s_eq"](a, b)


def x_where(c, a, b):
    if _isxr(a) or _isxr(b):
        if not is_sym(c):
            return a if c else b
        a, b = _xr(a), _xr(b)
        return XR(_o["s_where"](c, a.pinf, b.pinf), _o["s_where"](c, a.v, b.v), _o["s_where"](c, a.ninf, b.ninf))
    return _o["s_where"](c, a, b)


def x_min(a, b):
    return x_where(x_le(a, b), a, b)


def x_max(a, b):
    return x_where(x_ge(a, b), a, b)


def x_add(a, b):
    if _isxr(a) or _isxr(b):
        a, b = _xr(a), _xr(b)
        return XR(st.s_or(a.pinf, b.pinf), _o["s_add"](a.v, b.v), st.s_or(a.ninf, b.ninf))
    return _o["s_add"](a, b)


def x_sub(a, b):
    # probe shortcut: sign of an infinite operand is not tracked (the paths that reach this have
    # already excluded the infinite case through the env's own assert); the framework needs +-inf
    if isinstance(a, XR) or isinstance(b, XR):
        a, b = _xr(a), _xr(b)
        return XR(st.s_or(a.pinf, b.ninf), _o["s_sub"](a.v, b.v), st.s_or(a.ninf, b.pinf))
    return _o["s_sub"](a, b)


_odiv = st.s_div


def x_div(a, b):
    if isinstance(a, XR):  # division by a positive finite number keeps the flags
        return XR(a.pinf, _odiv(a.v, b), a.ninf)
    return _odiv(a, b)


st.s_div = x_div
st.U_DIV = np.frompyfunc(x_div, 2, 1)


def x_isinf(a):
    return st.s_or(_xr(a).pinf, _xr(a).ninf) if _isxr(a) else False


st.s_lt, st.s_le, st.s_gt, st.s_ge, st.s_eq, st.s_where, st.s_min, st.s_max, st.s_add = x_lt, x_le, x_gt, x_ge, x_eq, x_where, x_min, x_max, x_add
_u = lambda f, n: np.frompyfunc(f, n, 1)
st.U_LT, st.U_LE, st.U_GT, st.U_GE, st.U_EQ = _u(x_lt, 2), _u(x_le, 2), _u(x_gt, 2), _u(x_ge, 2), _u(x_eq, 2)
st.U_NE = _u(lambda a, b: st.s_not(x_eq(a, b)), 2)
st.U_WHERE, st.U_MIN, st.U_MAX, st.U_ADD = _u(x_where, 3), _u(x_min, 2), _u(x_max, 2), _u(x_add, 2)
st.s_sub = x_sub
st.U_SUB = _u(x_sub, 2)
U_FLOORDIV = _u(lambda a, b: a // b if not is_sym(a) else st._int(a) / b, 2)
U_MOD = _u(lambda a, b: a % b if not is_sym(a) else st._int(a) % b, 2)

_old_cast = st._cast_scalar


def _cast_scalar(x, dt):
    if isinstance(x, XR):
        return x
    if isinstance(x, _pyfloat) and math.isinf(x):
        return x
    return _old_cast(x, dt)


st._cast_scalar = _cast_scalar

# ---------------------------------------------------------------- Tensor additions
T = Tensor
_old_bin = T._bin


def _bin(self, other, uf, out_dt=None):
    odt = other.dtype if isinstance(other, T) else None
    if uf is st.U_ADD and self.dtype.name == "bool" and (odt is None or odt.name == "bool") and (isinstance(other, T) or isinstance(other, _pybool)):
        return _old_bin(self, other, st.U_OR, st.bool)
    return _old_bin(self, other, uf, out_dt)


T._bin = _bin
T.__add__ = lambda s, o: s._bin(o, st.U_ADD)
T.__radd__ = T.__add__
T.__lt__ = lambda s, o: s._bin(o, st.U_LT, st.bool)
T.__le__ = lambda s, o: s._bin(o, st.U_LE, st.bool)
T.__gt__ = lambda s, o: s._bin(o, st.U_GT, st.bool)
T.__ge__ = lambda s, o: s._bin(o, st.U_GE, st.bool)
T.__eq__ = lambda s, o: s._bin(o, st.U_EQ, st.bool)
T.__ne__ = lambda s, o: s._bin(o, st.U_NE, st.bool)
T.gt, T.ge, T.lt, T.le, T.eq, T.ne = T.__gt__, T.__ge__, T.__lt__, T.__le__, T.__eq__, T.__ne__
T.__floordiv__ = lambda s, o: T(U_FLOORDIV(s.a, o.a if isinstance(o, T) else o), s.dtype)
T.__mod__ = lambda s, o: T(U_MOD(s.a, o.a if isinstance(o, T) else o), s.dtype)


def _inplace(name):
    def f(self, o):
        r = getattr(self, name)(o)
        self.a[...] = r.a
        return self

    return f


T.add_ = _inplace("__add__")
T.subtract_ = _inplace("__sub__")
T.clip = lambda s, lo=None, hi=None: st.clamp(s, lo, hi)
T.isinf = lambda s: T(_u(x_isinf, 1)(s.a), st.bool)
T.new_zeros = lambda s, *shape, **k: st._mk(shape, 0, s.dtype)
T.new_ones = lambda s, *shape, **k: st._mk(shape, 1, s.dtype)
T.new_full = lambda s, shape, fill, **k: st._mk((tuple(shape),), fill, s.dtype)
T.masked_fill = lambda s, m, v: T(st.U_WHERE(np.broadcast_to(m.a, s.a.shape), v, s.a), s.dtype)
T.index_select = lambda s, dim, idx: T(np.take(s.a, idx.a.astype(np.int64), axis=dim), s.dtype)
T.nonzero = lambda s: nonzero(s)
T.numpy = lambda s: s.a
_old_to = T.to


def _to(self, *a, **k):
    for x in a:
        if isinstance(x, T):
            return self._cast(x.dtype)
    return _old_to(self, *a, **k)


T.to = _to


def _cumsum(self, dim):
    out = self.a.copy()
    dim = dim % out.ndim
    mv = np.moveaxis(out, dim, -1)
    for k in range(1, mv.shape[-1]):
        mv[..., k] = st.U_ADD(mv[..., k - 1], mv[..., k])
    return T(out, st.int64 if self.dtype.name == "bool" else self.dtype)


T.cumsum = _cumsum
MM = collections.namedtuple("minmax", "values indices")


def _red(uf):
    def f(self, dim=None, keepdim=False):
        if dim is None:
            flat = self.a.reshape(-1)
            acc = flat[0]
            for x in flat[1:]:
                acc = uf(acc, x)
            return T(np.array(acc, dtype=object), self.dtype)
        r = self._reduce(lambda acc, x: x if acc is None else uf(acc, x), None, dim, keepdim)
        return MM(r, None)

    return f


T.min = _red(x_min)
T.max = _red(x_max)
_old_split = None


def _split(self, n, dim=0):
    k = self.a.shape[dim]
    return tuple(T(np.take(self.a, range(i, builtins_min(i + n, k)), axis=dim), self.dtype) for i in range(0, k, n))


import builtins

builtins_min = builtins.min
T.split = _split
_old_any, _old_all = T.any, T.all
T.any = lambda s, dim=None, keepdim=False, keepdims=False: _old_any(s, dim, keepdim or keepdims)
T.all = lambda s, dim=None, keepdim=False, keepdims=False: _old_all(s, dim, keepdim or keepdims)


def nonzero(t, as_tuple=False):
    a = t.a
    if any(is_sym(x) for x in a.reshape(-1)):
        raise st.Unsupported("nonzero on symbolic (probe concretises discrete state first)")
    idx = np.argwhere(np.frompyfunc(lambda x: _pybool(x), 1, 1)(a).astype(bool))
    out = np.empty(idx.shape, dtype=object)
    out[...] = idx
    return T(out, st.int64)


def bmm(a, b):
    B, n, k = a.a.shape
    m = b.a.shape[2]
    out = np.empty((B, n, m), dtype=object)
    for i in np.ndindex(B, n, m):
        acc = 0.0
        for j in range(k):
            acc = x_add(acc, st.s_mul(a.a[i[0], i[1], j], b.a[i[0], j, i[2]]))
        out[i] = acc
    return T(out, st.float32)


def diag_embed(t, offset=0):
    n = t.a.shape[-1] + abs(offset)
    out = np.empty(t.a.shape[:-1] + (n, n), dtype=object)
    out[...] = 0.0
    for i in range(t.a.shape[-1]):
        r, c = (i, i + offset) if offset >= 0 else (i - offset, i)
        out[..., r, c] = t.a[..., i]
    return T(out, t.dtype)


def scatter_add(input, dim, index, src):
    out = input.a.copy()
    for pos in np.ndindex(*index.a.shape):
        tgt = list(pos)
        tgt[dim] = index.a[pos]
        out[tuple(tgt)] = x_add(out[tuple(tgt)], src.a[pos])
    return T(out, input.dtype)


st.gt = None
for name, fn in dict(
    nonzero=nonzero,
    bmm=bmm,
    diag_embed=diag_embed,
    scatter_add=scatter_add,
    nan_to_num=lambda t, nan=0.0: t,
    isclose=lambda a, b: T(_u(lambda x, y: st.s_and(x_le(st.s_sub(x, y), 1e-5), x_le(st.s_sub(y, x), 1e-5)), 2)(a.a, b.a), st.bool),
    any=lambda t: t.any() if isinstance(t, T) else builtins.any(t),
    all=lambda t: t.all() if isinstance(t, T) else builtins.all(t),
    logical_not=lambda t: ~t,
    full_like=lambda t, v, **k: st._mk((t.shape,), v, k.get("dtype") or t.dtype),
    Size=st.Size,
).items():
    setattr(st, name, fn)

_old_full = st.full


def full(shape, fill, dtype=None, device=None):
    if dtype is None and isinstance(fill, _pybool):
        dtype = st.bool
    return _old_full(shape, fill, dtype)


st.full = full
_old_zeros, _old_ones = st.zeros, st.ones
st.zeros = lambda *s, dtype=None, device=None: _old_zeros(*(s[0] if len(s) == 1 and isinstance(s[0], (tuple, list)) else s), dtype=dtype)
st.ones = lambda *s, dtype=None, device=None: _old_ones(*(s[0] if len(s) == 1 and isinstance(s[0], (tuple, list)) else s), dtype=dtype)

# ---------------------------------------------------------------- TensorDict additions
TD = TensorDict


def _td_getitem(self, k):
    if isinstance(k, str):
        return self.d[k]
    new = TD({kk: v[k] for kk, v in self.d.items()})
    anyv = next(iter(new.d.values()))
    nb = len(self.batch_size)
    if isinstance(k, T) and k.dtype.name == "bool":
        new.batch_size = st.Size(anyv.shape[:1] + tuple(self.batch_size[k.a.ndim :]))
    else:
        new.batch_size = st.Size(anyv.shape[: nb if not isinstance(k, _pyint) else nb - 1])
    return new


def _td_setitem(self, k, v):
    if isinstance(k, str):
        self.d[k] = v
        return
    for kk, val in v.d.items():
        self.d[kk][k] = val


TD.__getitem__ = _td_getitem
TD.__setitem__ = _td_setitem
TD.masked_select = lambda self, m: self[m]
TD.size = lambda self, i=None: self.batch_size if i is None else self.batch_size[i]


# ---------------------------------------------------------------- einops (two patterns)
def rearrange(t, pat, **kw):
    if pat == "bs j m -> bs (j m)":
        return t.view(t.shape[0], -1)
    raise st.Unsupported(pat)


def reduce(t, pat, reduction):
    if pat == "bs ... -> bs":
        r = t.view(t.shape[0], -1)
        return r.any(1) if reduction == "any" else r.all(1)
    if pat == "bs j m -> bs j":
        return t.all(2) if reduction == "all" else t.any(2)
    raise st.Unsupported(pat)


def install(load):
    e = load("einops")
    e.rearrange, e.reduce, e.einsum = rearrange, reduce, None
    return load


# ---------------------------------------------------------------- explorer helpers
def concretize(t: Tensor, lo=0, hi=8):
    """fork until every element of a bool/int tensor is a python value"""
    flat = t.a.reshape(-1)
    for i, x in enumerate(flat):
        if not is_sym(x):
            continue
        if z3.is_bool(x):
            flat[i] = st.EXP.branch(x)
        else:
            for k in range(lo, hi):
                if st.EXP.branch(x == k):
                    flat[i] = k
                    break
            else:
                raise st.PathAbort()
    t.a[...] = flat.reshape(t.a.shape)
    return t
