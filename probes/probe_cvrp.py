"""FEASIBILITY PROBE: bounded symbolic CVRP episodes through the *real* CVRPEnv source.

Instance data (demands, coordinates) and every action are solver variables; each action
is only assumed to be admitted by the advertised mask.  We ask z3 for an episode that
breaks capacity / visits a customer twice / fails to finish in 2n+1 steps.
usage: python3-vt probe_cvrp.py N [mutate]
"""
import sys
import time
import types

import z3

sys.path.insert(0, "/verif/probes")
import symtorch_probe as st

n = int(sys.argv[1]) if len(sys.argv) > 1 else 3
mutate = len(sys.argv) > 2

load = st.make_world()
if mutate:
    # emulate a realistic regression: '>' becomes '>=' is harmless, but dropping the
    # used capacity from the mask is not.  Patch the source text before loading.
    import builtins

    _open = builtins.open

    def fake_open(p, *a, **k):
        f = _open(p, *a, **k)
        if str(p).endswith("cvrp/env.py"):
            import io

            s = f.read().replace(
                'exceeds_cap = td["demand"] + td["used_capacity"] > td["vehicle_capacity"]',
                'exceeds_cap = td["demand"] > td["vehicle_capacity"]',
            )
            return io.StringIO(s)
        return f

    st.open = fake_open
    builtins.open = fake_open

mod = load("rl4co.envs.routing.cvrp.env")
import builtins

CVRPEnv = mod.CVRPEnv
gen = types.SimpleNamespace(vehicle_capacity=1.0, num_loc=n, min_loc=0.0, max_loc=1.0, capacity=1.0, max_demand=1.0, min_demand=0.0)
env = CVRPEnv(generator=gen, check_solution=False)

B = 1
T = 2 * n + 1
t0 = time.time()
S = z3.Solver()
td = st.TensorDict(
    {
        "locs": st.sym_tensor("loc", (B, n, 2), st.float32),
        "depot": st.sym_tensor("dep", (B, 2), st.float32),
        "demand": st.sym_tensor("dem", (B, n), st.float32),
    },
    batch_size=[B],
)
for d in td["demand"].a.reshape(-1):
    S.add(d > 0, d <= 1)  # documented instance contract: 0 < demand <= capacity(=1)

td = env.reset(td)
acts = []
load_ghost = z3.RealVal(0)  # independent bookkeeping of the true vehicle load
viol = []
seen = [z3.BoolVal(False)] * (n + 1)
done_by_T = None
for t in range(T):
    a = z3.Int(f"a{t}")
    acts.append(a)
    mask = td["action_mask"]
    S.add(a >= 0, a <= n)
    # action is admitted by the advertised mask
    S.add(z3.Or(*[z3.And(a == k, st._bool(mask.a[0, k])) for k in range(n + 1)]))
    # ground truth, independent of the env
    dem_a = z3.RealVal(0)
    for k in range(1, n + 1):
        dem_a = z3.If(a == k, td["demand"].a[0, k - 1], dem_a)
    load_ghost = z3.If(a == 0, z3.RealVal(0), load_ghost + dem_a)
    viol.append(load_ghost > 1)
    for k in range(1, n + 1):
        viol.append(z3.And(a == k, seen[k]))
        seen[k] = z3.Or(seen[k], a == k)
    td.set("action", st.Tensor([a], st.int64))
    td = env.step(td)["next"]
    # dead end: unfinished row without any feasible action
    viol.append(z3.And(z3.Not(st._bool(td["done"].a[0])), z3.Not(z3.Or(*[st._bool(m) for m in td["action_mask"].a[0]]))))
viol.append(z3.Not(st._bool(td["done"].a[0])))  # must have finished within 2n+1 steps
viol.append(z3.Not(z3.And(*seen[1:])))
t_enc = time.time() - t0
S.add(z3.Or(*viol))
t1 = time.time()
r = S.check()
t_solve = time.time() - t1
print(f"n={n} T={T} mutate={mutate} encode={t_enc:.2f}s solve={t_solve:.2f}s result={r} obligations={len(st.OBLIGATIONS)}")
if r == z3.sat:
    m = S.model()
    print("actions", [m.eval(a) for a in acts])
    print("demand", [m.eval(d) for d in td["demand"].a.reshape(-1)])
