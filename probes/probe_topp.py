"""FEASIBILITY PROBE (C10 style): the real modify_logits_for_top_p_filtering on symbolic logits and
symbolic top_p, with torch.sort / softmax as contract stubs.  Assert: kept probability mass >= top_p
and the arg-max logit is never removed."""
import sys, time, types, z3, numpy as np
sys.path.insert(0, '/verif/probes')
import symtorch_probe as st
import symtorch_probe2 as s2
n = int(sys.argv[1]) if len(sys.argv) > 1 else 4
mutate = len(sys.argv) > 2
ASSUME = []; SM_APPS = []
def sort(t, dim=-1, descending=False):
    idx = t.argsort(dim)
    if descending: idx = st.Tensor(idx.a[..., ::-1].copy(), st.int64)
    return t.gather(dim, idx), idx
def softmax(self, dim=-1):
    """contract of softmax on finite inputs: positive, sums to 1, order- and equality-preserving"""
    assert dim in (-1, self.a.ndim - 1)
    out = np.empty(self.a.shape, dtype=object)
    for pos in np.ndindex(*self.a.shape[:-1]):
        xs = self.a[pos]; ps = [z3.FreshReal('p') for _ in xs]
        ASSUME.append(z3.Sum(ps) == 1)
        for i, p in enumerate(ps):
            ASSUME.append(p > 0)
            for j in range(i + 1, len(ps)):
                ASSUME.append((xs[i] <= xs[j]) == (ps[i] <= ps[j]))
                ASSUME.append((xs[i] >= xs[j]) == (ps[i] >= ps[j]))
        out[pos] = ps; SM_APPS.append((list(xs), ps))
    return st.Tensor(out, st.float32)
st.sort = sort; st.Tensor.softmax = softmax
load = st.make_world()
import builtins, io
if mutate:
    _open = builtins.open
    def fake_open(p, *a, **k):
        f = _open(p, *a, **k)
        if str(p).endswith('utils/decoding.py'):
            return io.StringIO(f.read().replace('cumulative_probs <= (1 - top_p)', 'cumulative_probs <= top_p'))
        return f
    builtins.open = fake_open
envs = load('rl4co.envs'); envs.RL4COEnvBase = object   # decoding.py only wants the name
dec = load('rl4co.utils.decoding')
t0 = time.time()
S = z3.Solver()
logits = st.sym_tensor('x', (1, n), st.float32)
top_p = z3.Real('top_p'); S.add(top_p > 0, top_p < 1)
st.EXP.solver.add(top_p > 0, top_p < 1)          # so the early-return guard has one feasible side
tp = st.Tensor(np.array(top_p, dtype=object), st.float32)
out = dec.modify_logits_for_top_p_filtering(logits, tp)
removed = [s2._xr(v).pinf for v in out.a[0]]
# oracle side: p = softmax(logits) as a second, independent application of the contract;
# functional consistency of the two applications (same multiset of inputs) is stated explicitly
n_code_apps = len(ASSUME)
code_sm = list(SM_APPS)
p = softmax(logits).a[0]
# softmax is a function: two applications on permutations of the same inputs agree entry-wise
for xs1, ps1 in code_sm:
    for xi, pi in zip(xs1, ps1):
        for xj, pj in zip(logits.a[0], p):
            ASSUME.append(z3.Implies(xi == xj, pi == pj))
S.add(*ASSUME)
kept = z3.Sum([z3.If(st._bool(r), z3.RealVal(0), pi) for r, pi in zip(removed, p)])
ismax = [z3.And(*[logits.a[0, i] >= logits.a[0, j] for j in range(n)]) for i in range(n)]
# with tied logits every tied entry is 'the' arg-max: the property is that SOME maximiser survives
bad = z3.Or(kept < top_p, z3.Not(z3.Or(*[z3.And(ismax[i], z3.Not(st._bool(removed[i]))) for i in range(n)])))
S.add(bad)
te = time.time() - t0; t1 = time.time(); r = S.check()
print(f'n={n} mutate={mutate} encode={te:.2f}s solve={time.time()-t1:.2f}s -> {r}')
if r == z3.sat:
    m = S.model(); print('logits', [m.eval(v, True) for v in logits.a[0]], 'top_p', m.eval(top_p), 'p', [m.eval(v, True) for v in p], 'removed', [m.eval(st._bool(v), True) for v in removed])
