"""FEASIBILITY PROBE (C14/C11 style): the real AttentionModelPolicy (encoder: init embedding +
GraphAttentionNetwork; decoder: context embedding + PointerAttention + cache) on TSP, executed in
opaque-arithmetic mode.  Row 0 of a batch [X, Y] must produce the same logits as the batch [X]."""
import sys, time, types, z3, numpy as np
sys.path.insert(0, '/verif/probes')
import symtorch_probe as st
import symtorch_probe2 as s2
import symtorch_probe3 as s3
n = int(sys.argv[1]) if len(sys.argv) > 1 else 3
norm = sys.argv[2] if len(sys.argv) > 2 else 'batch'
mutate = len(sys.argv) > 3
_init = st.Tensor.__init__
def _tinit(self, arr, dtype=None, *more):
    if dtype is None or isinstance(dtype, int):     # torch.Tensor(d0, d1, ...) = uninitialised float tensor
        sizes = (arr,) + (() if dtype is None else (dtype,)) + more
        a = np.empty(sizes, dtype=object); a[...] = 0.0
        return _init(self, a, st.float32)
    return _init(self, arr, dtype)
st.Tensor.__init__ = _tinit
st.tanh = lambda t: s3.apply_elem('tanh', t)
load = s3.install(st.make_world())
import builtins, io
if mutate:
    _open = builtins.open
    def fake_open(p, *a, **k):
        f = _open(p, *a, **k)
        if str(p).endswith('am/decoder.py'):
            # regression: graph context averaged over the whole batch instead of per instance
            return io.StringIO(f.read().replace('self.project_fixed_context(embeddings.mean(1))', 'self.project_fixed_context(embeddings.mean(1).mean(0, keepdim=True).expand(embeddings.size(0), -1))'))
        return f
    builtins.open = fake_open
tsp = load('rl4co.envs.routing.tsp.env')
pol = load('rl4co.models.zoo.am.policy')
env = tsp.TSPEnv(generator=types.SimpleNamespace(num_loc=n, min_loc=0.0, max_loc=1.0), check_solution=False)
policy = pol.AttentionModelPolicy(env_name='tsp', embed_dim=8, num_heads=1, num_encoder_layers=1, feedforward_hidden=8, normalization=norm)
X = st.sym_tensor('X', (1, n, 2), st.float32); Y = st.sym_tensor('Y', (1, n, 2), st.float32)
def run(locs, acts):
    B = locs.shape[0]
    td = env.reset(st.TensorDict({'locs': locs}, batch_size=[B]))
    hidden, _ = policy.encoder(td)
    td, _, cache = policy.decoder.pre_decoder_hook(td, env, hidden, 0)
    outs = []
    for a in acts:
        logits, mask = policy.decoder(td, cache, 0)
        outs.append(logits)
        td.set('action', st.tensor([a[b] for b in range(B)])); td = env.step(td)['next']
    return outs
t0 = time.time()
acts2 = [[0, 1], [1, 2], [2, 0]][:n]; acts1 = [[a[0]] for a in acts2]
both = run(st.cat([X, Y], 0), acts2)
solo = run(X, acts1)
swapped = run(st.cat([Y, X], 0), [[a[1], a[0]] for a in acts2])
te = time.time() - t0
S = z3.Solver(); diffs = []
for t, (lb, ls, lw) in enumerate(zip(both, solo, swapped)):
    for j in range(n):
        diffs.append(s3.rl(lb.a[0, j]) != s3.rl(ls.a[0, j])); diffs.append(s3.rl(lw.a[1, j]) != s3.rl(ls.a[0, j]))
S.add(z3.Or(*diffs)); t1 = time.time(); r = S.check()
print(f'AM/TSP n={n} norm={norm} mutate={mutate}: steps={len(both)} build={te:.1f}s solve={time.time()-t1:.2f}s row-independence -> {"HOLDS (unsat)" if r == z3.unsat else r}')
