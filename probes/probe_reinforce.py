"""FEASIBILITY PROBE (C16 style): the real REINFORCE.calculate_loss + baselines (+ the Lightning
module chain, stubbed) with symbolic reward / log-likelihood / critic value.  Gradient flow is
modelled by an infinitesimal: every differentiable input is  x + eps*x'  and `.detach()` sets
eps:=0 in its operand; the loss must be the same function of eps as the reference surrogate."""
import sys, time, types, z3, numpy as np
sys.path.insert(0, '/verif/probes')
import symtorch_probe as st
import symtorch_probe2 as s2
import symtorch_probe3 as s3
B = int(sys.argv[1]) if len(sys.argv) > 1 else 3
mutate = len(sys.argv) > 2
EPS = z3.Real('eps')
st.Tensor.detach = lambda self: st.Tensor(np.frompyfunc(lambda x: z3.substitute(x, (EPS, z3.RealVal(0))) if st.is_sym(x) else x, 1, 1)(self.a), self.dtype)
F = None
load = s3.install(st.make_world())
Fm = load('torch.nn.functional')
Fm.mse_loss = lambda a, b: ((a - b) * (a - b)).mean()
import builtins, io
if mutate:
    _open = builtins.open
    def fake_open(p, *a, **k):
        f = _open(p, *a, **k)
        if str(p).endswith('reinforce/baselines.py'):   # regression: critic value not detached for the actor
            return io.StringIO(f.read().replace('return v.detach(), F.mse_loss(v, c.detach())', 'return v, F.mse_loss(v, c.detach())'))
        return f
    builtins.open = fake_open
t0 = time.time()
bl = load('rl4co.models.rl.reinforce.baselines')
rf = load('rl4co.models.rl.reinforce.reinforce')
utils = load('rl4co.models.rl.common.utils')
def sym(name, tangent):
    a = np.empty((B,), dtype=object)
    for i in range(B):
        a[i] = z3.Real(f'{name}{i}') + (EPS * z3.Real(f'd{name}{i}') if tangent else 0)
    return st.Tensor(a, st.float32)
reward = sym('r', False); ll = sym('ll', True); v = sym('v', True)
class Critic(s3.Module):
    def forward(self, x): return st.Tensor(v.a.reshape(B, 1).copy(), st.float32)
model = object.__new__(rf.REINFORCE)
model.__dict__.update(env=None, advantage_scaler=utils.RewardScaler(None))
results = []
for name, baseline, ref in [
    ('no', bl.NoBaseline(), lambda: -sum((reward.a[i]) * ll.a[i] for i in range(B)) / B),
    ('critic', bl.CriticBaseline(Critic()), lambda: -sum((reward.a[i] - z3.substitute(v.a[i], (EPS, z3.RealVal(0)))) * ll.a[i] for i in range(B)) / B + sum((v.a[i] - reward.a[i]) ** 2 for i in range(B)) / B),
    ('mean', bl.MeanBaseline(), lambda: -sum((reward.a[i] - sum(reward.a) / B) * ll.a[i] for i in range(B)) / B),
]:
    model.__dict__['baseline'] = baseline
    out = model.calculate_loss(st.TensorDict({}, batch_size=[B]), st.TensorDict({}, batch_size=[B]), {'reward': reward, 'log_likelihood': ll})
    loss = out['loss']; loss = loss.a.reshape(-1)[0] if isinstance(loss, st.Tensor) else loss
    S = z3.Solver(); S.add(loss != ref()); t1 = time.time(); r = S.check()
    results.append(f'{name}: {"identity holds" if r == z3.unsat else r} ({time.time()-t1:.2f}s)')
print(f'REINFORCE.calculate_loss B={B} mutate={mutate} load+run={time.time()-t0:.1f}s | ' + ' | '.join(results))
