"""FEASIBILITY PROBE (C06 style): real CVRPEnv.check_solution_validity over an arbitrary
symbolic action sequence of length L; `assert` on a symbolic condition forks the path.
For every path we ask: does the checker's verdict agree with an independent oracle?"""
import sys, time, types, z3
sys.path.insert(0, '/verif/probes')
import symtorch_probe as st
n = int(sys.argv[1]) if len(sys.argv) > 1 else 3
L = int(sys.argv[2]) if len(sys.argv) > 2 else n + 2
mod = st.make_world()('rl4co.envs.routing.cvrp.env')
TOL = 1e-5
stats = dict(paths=0, accept=0, reject=0, disagreements=[])

def oracle(dem, acts):
    """ground truth: every customer exactly once; route load <= 1 (+TOL slack handled by caller)"""
    once = []
    for k in range(1, n + 1):
        cnt = sum([z3.If(a == k, 1, 0) for a in acts])
        once.append(cnt == 1)
    load = z3.RealVal(0); over_hard = []; over_soft = []
    for a in acts:
        d = z3.RealVal(0)
        for k in range(1, n + 1): d = z3.If(a == k, dem[k-1], d)
        load = z3.If(a == 0, z3.RealVal(0), load + d)
        over_hard.append(load > 1 + 10*TOL)   # violated beyond tolerance
        over_soft.append(load > 1)
    return z3.And(*once), z3.Or(*over_hard), z3.Or(*over_soft)

def harness():
    E = st.EXP
    dem = st.sym_tensor('dem', (1, n), st.float32)
    acts = st.sym_tensor('a', (1, L), st.int64)
    for d in dem.a[0]: E.assume(z3.And(d > 0, d <= 1))
    for a in acts.a[0]: E.assume(z3.And(a >= 0, a <= n))
    td = st.TensorDict({'demand': dem, 'vehicle_capacity': st.full((1, 1), 1.0)}, batch_size=[1])
    try:
        mod.CVRPEnv.check_solution_validity(td, acts)
        accepted = True
    except AssertionError:
        accepted = False
    stats['paths'] += 1
    once, over_hard, over_soft = oracle(list(dem.a[0]), list(acts.a[0]))
    if accepted:
        stats['accept'] += 1
        bad = z3.Or(z3.Not(once), over_hard)     # accepted although infeasible beyond tolerance
    else:
        stats['reject'] += 1
        bad = z3.And(once, z3.Not(over_soft))    # rejected although feasible
    if E.check(bad) == z3.sat:
        m = E.solver.model()
        stats['disagreements'].append((accepted, [m.eval(x, True) for x in acts.a[0]], [m.eval(x, True) for x in dem.a[0]]))

t = time.time(); st.EXP.run(harness)
print(f'n={n} L={L} paths={stats["paths"]} accept={stats["accept"]} reject={stats["reject"]} queries={st.EXP.queries} time={time.time()-t:.1f}s disagreements={stats["disagreements"][:3]}')
