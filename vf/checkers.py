"""C06: the shipped `check_solution_validity` versus the independent oracle, on arbitrary symbolic action vectors.

The real checker runs over z3 terms; every `assert <symbolic>` forks the path (one branch raises AssertionError =
rejected, the other continues = accepted).  On each path the solver decides:
    accepted  =>  no oracle constraint is violated by more than the documented tolerance
    rejected  =>  some oracle constraint (or documented solution-format rule) is violated
"""
from __future__ import annotations

import z3

from symtorch import dist, explore, world
from symtorch import tensor as T
from symtorch.scalar import PathAbort, _bool, is_sym, s_and, s_eq, s_not, s_or

from . import core
from . import envs as EV
from .episodes import ENV_ERRORS, MARGIN_VAR, candidate_models, model_replay
from .oracle import all_, any_

HARD = z3.RealVal("1/10000")  # "beyond rounding tolerance": 10x the checkers' documented 1e-5


def lengths(spec, n, variant):
    sp = EV.SPECS[spec]
    if spec in ("tsp", "atsp"):
        return [n]
    if spec == "pdp":
        return [n + 1] if variant == "depot" else [n]
    if spec in ("op", "pctsp", "spctsp"):
        return [n + 1]
    return [n + 1, n, n + 2]  # n: a single route without any depot visit in the vector


def run_oracle(sp, row, n, variant, acts, margin_value, lenient_last):
    EV.MARGIN[0] = margin_value
    o = sp.oracle(row, n, variant)
    if hasattr(o, "lenient_last"):
        o.lenient_last = lenient_last
    st = o.start()
    for t, a in enumerate(acts):
        o.step(st, a, True, t)
    hard = [v for k, v in st.viol.items() if not k.startswith("canonical:")]
    soft = list(st.viol.values())
    return o.complete(st), any_(hard), any_(soft), st


def checker_job(job_id, spec, variant, n, L, B=1, source_filter=None):
    sp = EV.SPECS[spec]
    E = explore.EXP
    ctx = core.Ctx(job_id)
    w = world.make_world(source_filter=source_filter)
    env = sp.make_env(w, n, variant)
    NA = sp.n_actions(n, variant)
    ctx.bounds = {"env": spec, "variant": variant, "n": n, "B": B, "L": L}
    ctx.assumptions.add("instance satisfies the generator contract; the action vector is ARBITRARY (any values in range, any order, duplicates, missing nodes)")
    ctx.assumptions.add("accepted solutions may violate a constraint by at most 1e-4 (10x the checkers' own 1e-5 tolerance); rejected solutions must violate a constraint or a documented format rule")
    stats = {"accept": 0, "reject": 0}

    def harness():
        E.assume(MARGIN_VAR >= 0)
        EV.MARGIN[0] = 0.0
        src = EV.Src(E, ctx)
        inst = sp.instance(src, B, n, variant)
        td = env.reset(inst.td)
        acts = [[z3.Int(f"a{t}_{b}") for b in range(B)] for t in range(L)]
        for row in acts:
            for a in row:
                E.assume(z3.And(a >= 0, a < NA))
        if spec in ("op", "pctsp", "spctsp"):
            for b in range(B):
                E.assume(acts[L - 1][b] == 0)  # solution format of these envs: the tour ends with the depot
        A = T.Tensor([[acts[t][b] for t in range(L)] for b in range(B)], T.int64)

        def cex_builder(E_, neg):
            reps = []
            for label, m in candidate_models(E_, neg, inst):
                r = model_replay(sp, n, variant, inst, acts, B, m)
                r.update(kind="checker", reset=True, actions=[[int(core.model_value(m, acts[t][b])) for t in range(L)] for b in range(B)],
                         model_kind=label, mode="C06", verdict=verdict[0], L=L)
                reps.append(r)
            return reps

        verdict = ["accept"]
        try:
            env.check_solution_validity(td, A)
        except AssertionError:
            verdict[0] = "reject"
        except ENV_ERRORS as e:
            verdict[0] = f"error:{type(e).__name__}"
        ctx.states += 1
        ctx.transitions += 1
        lenient_last = L - 1
        if verdict[0] == "accept":
            stats["accept"] += 1
            bad = False
            for b in range(B):
                comp, hard, _soft, _ = run_oracle(sp, inst.rows[b], n, variant, [acts[t][b] for t in range(L)], HARD, lenient_last)
                bad = s_or(bad, s_or(s_not(comp), hard))
            EV.MARGIN[0] = 0.0
            ctx.prove(E, f"{spec}[{variant}] L={L}: an ACCEPTED solution violates no constraint beyond tolerance (path {E.trace})", s_not(bad), cex_builder)
        elif verdict[0] == "reject":
            stats["reject"] += 1
            good = True
            for b in range(B):
                comp, _hard, soft, _ = run_oracle(sp, inst.rows[b], n, variant, [acts[t][b] for t in range(L)], 0.0, lenient_last)
                good = s_and(good, s_and(comp, s_not(soft)))
            EV.MARGIN[0] = 0.0
            ctx.prove(E, f"{spec}[{variant}] L={L}: a REJECTED solution really violates a constraint (path {E.trace})", s_not(good), cex_builder)
        else:
            ctx.prove(E, f"{spec}[{variant}] L={L}: the checker must not crash ({verdict[0]})", False, cex_builder)
        if verdict[0] == "accept" and not ctx.witness:
            from .episodes import witness_model

            wm = witness_model(E, inst)
            if wm is not None:
                r = model_replay(sp, n, variant, inst, acts, B, wm)
                r.update(kind="checker", reset=True, actions=[[int(core.model_value(wm, acts[t][b])) for t in range(L)] for b in range(B)], mode="witness", verdict="accept")
                ctx.witness.append(r)

    try:
        E.run(harness)
    except explore.Inconclusive as e:
        return ctx.result(E, w, status="inconclusive", error=str(e))
    finally:
        EV.MARGIN[0] = 0.0
    ctx.notes.append(f"paths accepted={stats['accept']} rejected={stats['reject']}")
    if not stats["accept"] or not stats["reject"]:
        return ctx.result(E, w, status="error", error=f"vacuous: accepted={stats['accept']} rejected={stats['reject']} paths")
    return ctx.result(E, w)


def mask_solutions_accepted_job(job_id, spec, variant, n, B=1, source_filter=None):
    """every mask-generated solution is accepted by the checker (episode harness + real checker at the end)"""
    from . import episodes as EP

    sp = EV.SPECS[spec]
    E = explore.EXP
    ctx = core.Ctx(job_id)
    w = world.make_world(source_filter=source_filter)
    env = sp.make_env(w, n, variant)
    Tb = sp.bound(n, variant)
    NA = sp.n_actions(n, variant)
    ctx.bounds = {"env": spec, "variant": variant, "n": n, "B": B, "T": Tb, "what": "mask-generated solutions"}
    ctx.assumptions.add("every action is admitted by the advertised mask")

    def harness():
        E.assume(MARGIN_VAR >= 0)
        src = EV.Src(E, ctx)
        inst = sp.instance(src, B, n, variant)
        td = env.reset(inst.td)
        acts = []

        def cex_builder(E_, neg):
            return [dict(model_replay(sp, n, variant, inst, acts, B, m, {"checker": True}), model_kind=label, mode="C06m") for label, m in candidate_models(E_, neg, inst)]

        for t in range(Tb + 1):
            done = EP._flat_done(td, B)
            ctx.states += 1
            if E.branch(all_(done)):
                break
            if t == Tb:
                raise PathAbort()
            mask = td["action_mask"]
            a = [z3.Int(f"a{t}_{b}") for b in range(B)]
            for b in range(B):
                E.assume(z3.And(a[b] >= 0, a[b] < NA))
                E.assume(_bool(EP.admitted(a[b], list(mask.a[b]))))
            acts.append(a)
            td.set("action", T.Tensor(a, T.int64))
            try:
                td = env.step(td)["next"]
            except ENV_ERRORS:
                raise PathAbort()
            ctx.transitions += 1
            E.obligations = []
        A = T.Tensor([[acts[t][b] for t in range(len(acts))] for b in range(B)], T.int64)
        try:
            env.check_solution_validity(td, A)
            ctx.obligations += 1
            ctx.discharged += 1
            ctx.sample({"obligation": f"{spec}[{variant}]: checker accepts this family of mask-generated solutions (path {E.trace})", "verdict": "accepted on this path"})
            if not ctx.witness:
                wm = EP.witness_model(E, inst)
                if wm is not None:
                    ctx.witness.append(dict(model_replay(sp, n, variant, inst, acts, B, wm, {"checker": True}), mode="witness"))
        except AssertionError as e:
            ctx.prove(E, f"{spec}[{variant}]: the checker rejects a mask-generated solution ({e})", False, cex_builder)
        except ENV_ERRORS as e:
            ctx.prove(E, f"{spec}[{variant}]: the checker crashes on a mask-generated solution ({type(e).__name__}: {e})", False, cex_builder)

    try:
        E.run(harness)
    except explore.Inconclusive as e:
        return ctx.result(E, w, status="inconclusive", error=str(e))
    if not ctx.witness and not ctx.cex:
        return ctx.result(E, w, status="error", error="vacuous harness")
    return ctx.result(E, w)
