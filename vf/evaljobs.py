"""C15: augmentations are isometries whose first copy is the identity; evaluation reports true best-of-k results.

(1) the real `StateAugmentation.__call__` / `dihedral_8_augmentation` / `symmetric_transform` run on symbolic
    coordinates; exact encoding (squared distances are polynomials; cos/sin are symbols with c^2+s^2=1).
(2) the real Greedy/Augmentation/GreedyMultiStart/GreedyMultiStartAugment `_inner`s and `EvalBase.__call__` run with
    a policy stub returning ARBITRARY symbolic action tensors and the real TSP environment's reward."""
from __future__ import annotations

import types

import numpy as np
import z3

from symtorch import datastub, explore, world
from symtorch import tensor as T
from symtorch.scalar import _bool, _real, is_sym, s_and, s_eq, s_ge, s_le, s_not, s_or
from symtorch.tdict import TensorDict

from . import core
from . import oracle as O
from .oracle import all_, any_, pick2


def _sq(a, b):
    dx, dy = _real(a[0]) - _real(b[0]), _real(a[1]) - _real(b[1])
    return dx * dx + dy * dy


def augment_job(job_id, fn="dihedral8", k=8, B=2, first_aug_identity=True, source_filter=None):
    E = explore.EXP
    ctx = core.Ctx(job_id)
    w = world.make_world(source_filter=source_filter)
    tr = w.load("rl4co.data.transforms")
    ctx.bounds = {"augment_fn": fn, "num_augment": k, "B": B, "points": 2}
    ctx.stubs.add("cos / sin: uninterpreted functions with cos(x)^2 + sin(x)^2 = 1; torch.rand: fresh value in [0,1)")
    ctx.assumptions.add("coordinates in the unit square; exact polynomial encoding of squared distances (no norm abstraction)")

    def cexb(E_, neg):
        if E_.check(neg) == z3.sat:
            m = E_.model()
            return [{"kind": "script", "path": core.ROOT + "/vf/torch_side", "module": "eval_side", "func": "run_augment", "model_kind": "plain", "mode": "C15",
                     "params": {"fn": fn, "k": k, "B": B, "first_aug_identity": first_aug_identity,
                                "locs": [[[float(core.model_value(m, c)) for c in p] for p in row] for row in holder["locs"].a]}}]
        return []

    holder = {}

    def harness():
        locs = T.sym_tensor("loc", (B, 2, 2), T.float32)
        holder["locs"] = locs
        for c in locs.a.reshape(-1):
            E.assume(z3.And(c >= 0, c <= 1))
        other = T.sym_tensor("demand", (B, 2), T.float32)
        td = TensorDict({"locs": locs, "demand": other}, batch_size=[B])
        T.RANDOM_LOG.clear()
        aug = tr.StateAugmentation(num_augment=k, augment_fn=fn, first_aug_identity=first_aug_identity)
        out = aug(td)
        # trig identity for every angle drawn
        # cos / sin applications become plain real symbols tied by c^2 + s^2 = 1; the identities below are then pure
        # polynomial (in)equalities, discharged by a dedicated nonlinear solver instance (nlsat)
        seen, subs, trig = {}, [], []
        for name, x, app in T.MATH_APPS:
            seen.setdefault(x.get_id(), {})[name] = app
        for k_, d in seen.items():
            c_, s_ = z3.Real(f"cosv{k_}"), z3.Real(f"sinv{k_}")
            if "cos" in d:
                subs.append((d["cos"], c_))
            if "sin" in d:
                subs.append((d["sin"], s_))
            trig.append(c_ * c_ + s_ * s_ == 1)
        ranges = [z3.And(c >= 0, c <= 1) for c in locs.a.reshape(-1)]

        def prove_poly(name, cond):
            ctx.obligations += 1
            f = z3.substitute(_bool(cond) if not isinstance(cond, bool) else z3.BoolVal(cond), *subs) if subs else (_bool(cond) if not isinstance(cond, bool) else z3.BoolVal(cond))
            sol = z3.SolverFor("QF_NRA")
            sol.set("timeout", 60000)
            sol.add(*ranges, *trig, z3.Not(f))
            r = sol.check()
            E.queries[str(r)] = E.queries.get(str(r), 0) + 1
            if r == z3.unsat:
                ctx.discharged += 1
                ctx.sample({"obligation": name, "verdict": "unsat (holds), QF_NRA"})
            elif r == z3.unknown:
                ctx.inconclusive += 1
                ctx.notes.append(f"inconclusive: {name}")
            else:
                m = sol.model()
                ctx.cex.append({"obligation": name, "job": job_id, "desc": None, "replay": [{"kind": "script", "path": core.ROOT + "/vf/torch_side", "module": "eval_side", "func": "run_augment", "model_kind": "plain", "mode": "C15",
                                "params": {"fn": fn, "k": k, "B": B, "first_aug_identity": first_aug_identity,
                                           "locs": [[[float(core.model_value(m, c)) for c in p] for p in row] for row in locs.a]}}]})

        E.obligations = []
        nm = f"{fn} k={k} B={B}"
        ok_shape = tuple(out["locs"].shape) == (k * B, 2, 2) and tuple(out.batch_size) == (k * B,)
        ctx.prove(E, f"[{nm}] augmented batch has k*B rows", ok_shape, cexb)
        if not ok_shape:
            return
        A = out["locs"].a
        for a in range(k):
            for b in range(B):
                r = a * B + b
                prove_poly(f"[{nm}] copy {a} of instance {b} (row {r}) preserves the distance between the two points", _sq(A[r, 0], A[r, 1]) == _sq(locs.a[b, 0], locs.a[b, 1]))
                ctx.prove(E, f"[{nm}] copy {a} of instance {b}: non-coordinate features are replicated unchanged", all_([s_eq(out["demand"].a[r, j], other.a[b, j]) for j in range(2)]), cexb)
        for b in range(B):
            ctx.prove(E, f"[{nm}] the first copy of instance {b} is the original instance", all_([s_eq(A[b, p, c], locs.a[b, p, c]) for p in range(2) for c in range(2)]), cexb)
        ctx.states += 1
        ctx.transitions += 1

    T.MATH_APPS.clear()
    try:
        E.run(harness)
    except explore.Inconclusive as e:
        return ctx.result(E, w, status="inconclusive", error=str(e))
    if not ctx.obligations:
        return ctx.result(E, w, status="error", error="vacuous")
    return ctx.result(E, w)


class _Param:
    device = "cpu"


def eval_job(job_id, method="augment", B=2, k=2, S=2, n=3, source_filter=None):
    E = explore.EXP
    ctx = core.Ctx(job_id)
    w = world.make_world(source_filter=source_filter, inert=())
    ev = w.load("rl4co.tasks.eval")
    tsp = w.load("rl4co.envs.routing.tsp.env")
    env = tsp.TSPEnv(generator_params={"num_loc": n}, check_solution=False)
    ctx.bounds = {"method": method, "B": B, "augment": k, "starts": S, "n": n}
    ctx.stubs.add("policy: returns ARBITRARY symbolic permutations as actions (one per replicated row); cos/sin uninterpreted")
    ctx.assumptions.add("rewards are the real TSP reward terms (C03); actions of every candidate rollout are symbolic permutations")
    holder = {}

    def cexb(E_, neg):
        if E_.check(neg) == z3.sat:
            m = E_.model()
            return [{"kind": "script", "path": core.ROOT + "/vf/torch_side", "module": "eval_side", "func": "run_eval", "model_kind": "plain", "mode": "C15",
                     "params": {"method": method, "B": B, "k": k, "S": S, "n": n, "locs": [[[float(core.model_value(m, c)) for c in p] for p in row] for row in holder["locs"].a],
                                "actions": [[int(core.model_value(m, x)) for x in row] for row in holder["acts"].a]}}]
        return []

    def harness():
        locs = T.sym_tensor("loc", (B, n, 2), T.float32)
        holder["locs"] = locs
        for c in locs.a.reshape(-1):
            E.assume(z3.And(c >= 0, c <= 1))
        rows = {"greedy": B, "augment": B * k, "multistart": B * S, "multistart_augment": B * S * k}[method]
        acts = np.empty((rows, n), dtype=object)
        for r in range(rows):
            for t in range(n):
                acts[r, t] = z3.Int(f"act_{r}_{t}")
                E.assume(z3.And(acts[r, t] >= 0, acts[r, t] < n))
            E.assume(z3.Distinct(*list(acts[r])))
        A = T.Tensor(acts, T.int64)
        holder["acts"] = A
        calls = []

        def policy(td, decode_type=None, num_starts=None, **kw):
            calls.append((tuple(td.batch_size), decode_type, num_starts))
            return {"actions": A.clone()}

        policy.parameters = lambda: iter([_Param()])
        td = env.reset(TensorDict({"locs": locs}, batch_size=[B]))
        if method == "greedy":
            fn = ev.GreedyEval(env, progress=False)
        elif method == "augment":
            fn = ev.AugmentationEval(env, num_augment=k, progress=False)
        elif method == "multistart":
            fn = ev.GreedyMultiStartEval(env, num_starts=S, progress=False)
        else:
            fn = ev.GreedyMultiStartAugmentEval(env, num_starts=S, num_augment=k, progress=False)
        ra, rr = fn._inner(policy, td)
        E.obligations = []
        nm = f"{method} B={B} k={k} S={S}"
        Xs = [[locs.a[b, v, 0] for v in range(n)] for b in range(B)]
        Ys = [[locs.a[b, v, 1] for v in range(n)] for b in range(B)]
        Ds = [O.dist_matrix(Xs[b], Ys[b]) for b in range(B)]

        def R(b, seq):
            tot = 0.0
            for t in range(n):
                tot = T.s_add(tot, pick2(seq[t], seq[(t + 1) % n], Ds[b]))
            return T.s_neg(tot)

        okshape = tuple(rr.shape) == (B,) and tuple(ra.shape) == (B, n)
        ctx.prove(E, f"[{nm}] one reward and one action sequence per instance", okshape, cexb)
        if okshape:
            for b in range(B):
                own = [r for r in range(rows) if r % B == b]
                cand = [R(b, list(acts[r])) for r in own]
                ctx.prove(E, f"[{nm}] instance {b}: reported reward is the objective of the reported actions on the ORIGINAL instance", s_eq(rr.a[b], R(b, list(ra.a[b]))), cexb)
                ctx.prove(E, f"[{nm}] instance {b}: reported reward is the maximum over its own candidate rollouts", s_and(all_([s_ge(rr.a[b], c) for c in cand]), any_([s_eq(rr.a[b], c) for c in cand])), cexb)
                ctx.prove(E, f"[{nm}] instance {b}: reported actions are those of one of its own candidates", any_([all_([s_eq(ra.a[b, t], acts[r, t]) for t in range(n)]) for r in own]), cexb)
        ctx.states += 1
        ctx.transitions += 1

    try:
        E.run(harness)
    except explore.Inconclusive as e:
        return ctx.result(E, w, status="inconclusive", error=str(e))
    if not ctx.obligations:
        return ctx.result(E, w, status="error", error="vacuous")
    return ctx.result(E, w)


def loader_job(job_id, N=3, batch_size=2, n=3, lengths=None, source_filter=None):
    """EvalBase.__call__ / evaluate_policy: concatenation over loader batches (one partial) keeps dataset order.
    lengths: solution length per loader batch (environments with variable-length solutions: later batches may be longer or shorter
    than the first); the real __call__ must pad, never crop"""
    E = explore.EXP
    ctx = core.Ctx(job_id)
    w = world.make_world(source_filter=source_filter, inert=())
    ev = w.load("rl4co.tasks.eval")
    ds = w.load("rl4co.data.dataset")
    tsp = w.load("rl4co.envs.routing.tsp.env")
    env = tsp.TSPEnv(generator_params={"num_loc": n}, check_solution=False)
    ctx.bounds = {"dataset_size": N, "loader_batch": batch_size, "n": n}
    ctx.stubs.add("DataLoader contract stub (consecutive index batches, collate_fn); tqdm / timing inert; policy returns actions that are an uninterpreted function of the instance")

    def cexb(E_, neg):
        if lengths:
            return [{"kind": "script", "path": core.ROOT + "/vf/torch_side", "module": "eval_side", "func": "run_loader_lengths", "model_kind": "plain", "mode": "C15",
                     "params": {"N": N, "batch_size": batch_size, "lengths": lengths}}]
        return []

    def harness():
        locs = T.sym_tensor("loc", (N, n, 2), T.float32)
        # the policy's answer is a function of the instance it is shown: identify instances by a distinct tag in locs[.,0,0]
        tags = [locs.a[i, 0, 0] for i in range(N)]
        if N > 1:
            E.assume(z3.Distinct(*tags))
        table = {i: [z3.Int(f"pi_{i}_{t}") for t in range(n)] for i in range(N)}

        def policy(td, decode_type=None, num_starts=None, **kw):
            Bc = td.batch_size[0]
            out = np.empty((Bc, n), dtype=object)
            for r in range(Bc):
                tag = td["locs"].a[r, 0, 0]
                for t in range(n):
                    acc = table[N - 1][t]
                    for i in range(N - 2, -1, -1):
                        acc = T.s_where(s_eq(tag, tags[i]), table[i][t], acc)
                    out[r, t] = acc
            return {"actions": T.Tensor(out, T.int64)}

        policy.parameters = lambda: iter([_Param()])
        for i in range(N):
            for t in range(n):
                E.assume(z3.And(table[i][t] >= 0, table[i][t] < n))
        dataset = ds.TensorDictDataset(TensorDict({"locs": locs}, batch_size=[N]))
        dl = datastub.DataLoader(dataset, batch_size=batch_size, shuffle=False, collate_fn=dataset.collate_fn)
        fn = ev.GreedyEval(env, progress=False)
        if lengths:
            # variable-length solutions: the evaluator's inner step is replaced by one that answers batch k with sequences of length
            # lengths[k] (symbolic content per dataset item); what is under test is the real __call__ (concatenation + padding)
            nb = -(-N // batch_size)
            Ls = [lengths[k % len(lengths)] for k in range(nb)]
            seqs = {i: [z3.Int(f"act_{i}_{t}") for t in range(Ls[i // batch_size])] for i in range(N)}
            rews = {i: z3.Real(f"rew_{i}") for i in range(N)}
            calls = [0]

            def inner(policy_, td_, **kw):
                k = calls[0]
                calls[0] += 1
                items = list(range(k * batch_size, min(N, (k + 1) * batch_size)))
                return (T.Tensor(np.array([seqs[i] for i in items], dtype=object), T.int64), T.Tensor(np.array([rews[i] for i in items], dtype=object), T.float32))

            fn._inner = inner
            res = fn(policy, dl)
            E.obligations = []
            Lmax = max(Ls)
            ok = tuple(res["actions"].shape) == (N, Lmax) and tuple(res["rewards"].shape) == (N,)
            ctx.prove(E, f"[N={N} bs={batch_size} lengths={Ls}] one row per dataset item, as wide as the longest batch", ok, cexb)
            if ok:
                for i in range(N):
                    Li = Ls[i // batch_size]
                    ctx.prove(E, f"[N={N} bs={batch_size} lengths={Ls}] item {i}: its {Li} actions are kept in order, padded with zeros (never cropped), its reward travels with it",
                              s_and(all_([s_eq(res["actions"].a[i, t], seqs[i][t]) for t in range(Li)] + [s_eq(res["actions"].a[i, t], 0) for t in range(Li, Lmax)]), s_eq(res["rewards"].a[i], rews[i])), cexb)
            ctx.states += 1
            ctx.transitions += 1
            return
        res = fn(policy, dl)
        E.obligations = []
        ok = tuple(res["actions"].shape) == (N, n) and tuple(res["rewards"].shape) == (N,)
        ctx.prove(E, f"[N={N} bs={batch_size}] one result per dataset item (incl. the final partial batch)", ok, cexb)
        if ok:
            for i in range(N):
                ctx.prove(E, f"[N={N} bs={batch_size}] item {i}: the reported actions are the policy's answer for dataset item {i} (order preserved)",
                          all_([s_eq(res["actions"].a[i, t], table[i][t]) for t in range(n)]), cexb)
        ctx.states += 1
        ctx.transitions += 1

    try:
        E.run(harness)
    except explore.Inconclusive as e:
        return ctx.result(E, w, status="inconclusive", error=str(e))
    if not ctx.obligations:
        return ctx.result(E, w, status="error", error="vacuous")
    return ctx.result(E, w)
