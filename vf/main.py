"""CLI: python3-vt -m vf.main <PROPERTY> --tier quick|thorough [--replay file]

exit 0: every obligation discharged (unsat) within the stated bounds, or only known findings matched
exit 1: a solver counterexample was replayed on the real torch build and reproduces -> VIOLATION line
exit 2: harness error / inconclusive / counterexample that does not reproduce (encoding or stub wrong)
"""
from __future__ import annotations

import argparse
import importlib
import json
import os
import sys
import time

from . import core


def main(argv=None):
    ap = argparse.ArgumentParser()
    ap.add_argument("prop")
    ap.add_argument("--tier", default=os.environ.get("VERIF_TIER", "quick"), choices=["quick", "thorough"])
    ap.add_argument("--replay", default=None)
    ap.add_argument("--only", default=None, help="substring filter on job ids (debugging)")
    ap.add_argument("--mutations", default=None, help="self-test: JSON file with in-memory source mutations")
    args = ap.parse_args(argv)
    seed = int(os.environ.get("VERIF_SEED", "0"))
    t0 = time.time()
    prop = args.prop
    mod = importlib.import_module(f"vf.props.{prop}")
    if args.replay:
        # re-run a saved counterexample against the CURRENT real torch build of /repo
        with open(args.replay) as f:
            saved = json.load(f)
        rp = saved["request"]
        resp = core.torch_run([rp])[0]
        ok, text = mod.confirm(rp, resp)
        print(f"[{prop}/replay] obligation: {saved.get('obligation')}")
        print(f"[{prop}/replay] real run: {text}")
        if ok:
            sig = mod.signature({"obligation": saved.get("obligation")}, rp, resp, text)
            k = core.match_known(prop, sig)
            if k is not None:
                print(f"KNOWN-FINDING: property={prop} {k['summary']}")
                return 0
            print(f"VIOLATION property={prop} replay={args.replay}")
            return 1
        print(f"[{prop}/replay] the saved counterexample does not reproduce on the current tree")
        return 0
    # wall-clock budget per job: a job that cannot finish is reported as inconclusive (exit 2) instead of hanging
    os.environ.setdefault("VERIF_JOB_BUDGET_S", "900" if args.tier == "quick" else "5400")
    plan = mod.plan(args.tier, seed)
    jobs = plan["jobs"]
    if args.only:
        jobs = [j for j in jobs if args.only in j["id"]]
    if args.mutations:
        muts = json.load(open(args.mutations))
        for j in jobs:
            j.setdefault("params", {})["mutations"] = muts
    # real-torch side (differential validation rollouts) runs concurrently with the solver jobs
    import concurrent.futures as cf

    pool = cf.ThreadPoolExecutor(1)
    fut = pool.submit(core.torch_run, plan.get("torch_requests", [])) if plan.get("torch_requests") else None
    results = core.run_jobs(jobs)
    harness_errors, violations, known, lines = [], 0, [], []
    for r in results:
        if r["status"] == "error":
            harness_errors.append(f"job {r['job']}: {r['error']}\n{r.get('trace', '')}")
        elif r["status"] == "inconclusive":
            harness_errors.append(f"job {r['job']}: inconclusive: {r.get('error') or r['notes']}")
    # ---- translator validation
    traces_validated = 0
    diff_notes = []
    if fut is not None:
        try:
            resps = fut.result()
            v, bad, notes = mod.validate(plan["torch_requests"], resps)
            traces_validated += v
            diff_notes = notes
            harness_errors.extend(bad)
        except Exception as e:  # noqa: BLE001
            harness_errors.append(f"differential validation failed to run: {e!r}")
    # ---- replay before reporting
    cexs = [c for r in results for c in r["cex"]]
    witnesses = [wt for r in results for wt in r["witness"] if isinstance(wt, dict) and "kind" in wt]
    confirmed, unconfirmed = [], []
    if cexs or witnesses:
        reqs, owners = [], []
        for wt in witnesses:
            reqs.append(wt)
            owners.append(-1)
        for ci, c in enumerate(cexs):
            reps = c["replay"] if isinstance(c["replay"], list) else ([c["replay"]] if c["replay"] else [])
            for rp in reps:
                if isinstance(rp, dict) and "kind" in rp:
                    reqs.append(rp)
                    owners.append(ci)
        resps = core.torch_run(reqs) if reqs else []
        done = set()
        why = {}
        for rp, resp, ci in zip(reqs, resps, owners):
            if ci == -1:
                okw, textw = mod.confirm_witness(rp, resp)
                if okw:
                    traces_validated += 1
                elif rp.get("exact_model", True):
                    harness_errors.append(f"reachability witness does not replay on real torch: {textw}")
                else:
                    # the only model found leaves distances to the abstraction (no collinear / dyadic completion exists on this path):
                    # the real run is not obliged to follow it, so it validates nothing and breaks nothing
                    diff_notes.append(f"witness skipped (inexact model: distance abstraction): {textw[:160]}")
                continue
            if ci in done:
                continue
            ok, text = mod.confirm(rp, resp)
            why.setdefault(ci, []).append(f"[{rp.get('model_kind')}] {text}")
            if not ok and os.environ.get("VERIF_DUMP_UNCONFIRMED"):
                with open(os.path.join(os.environ["VERIF_DUMP_UNCONFIRMED"], f"{prop}_unconfirmed_{ci}.json"), "w") as f:
                    json.dump({"obligation": cexs[ci]["obligation"], "request": rp, "response": resp, "text": text}, f, indent=1, default=str)
            if ok:
                done.add(ci)
                confirmed.append((cexs[ci], rp, resp, text))
        for ci, c in enumerate(cexs):
            if ci not in done:
                unconfirmed.append((c, why.get(ci, ["no replayable model"])))
    seen_sig = set()
    for c, rp, resp, text in confirmed:
        sig = mod.signature(c, rp, resp, text)
        k = core.match_known(prop, sig)
        key = json.dumps(sig, sort_keys=True, default=str)
        if k is not None:
            if k["id"] not in seen_sig:
                seen_sig.add(k["id"])
                lines.append(f"KNOWN-FINDING: property={prop} {k['summary']}")
                known.append(k["id"])
            continue
        if key in seen_sig:
            continue
        seen_sig.add(key)
        path = core.save_replay(prop, f"{len(seen_sig)}", {"property": prop, "obligation": c["obligation"], "what": text, "request": rp, "real_run": resp, "signature": sig})
        lines.append(f"VIOLATION property={prop} replay={path}")
        lines.append(f"  {c['obligation']}: {text}")
        violations += 1
    for c, why in unconfirmed:
        harness_errors.append(f"counterexample did not reproduce on real torch (encoding/stub suspect): {c['obligation']} :: {why[:4]}")
    wall = time.time() - t0
    extra = dict(plan.get("evidence", {}))
    extra["traces_validated"] = traces_validated
    extra["differential_notes"] = diff_notes[:10]
    extra["known_findings_matched"] = known
    extra["harness_errors"] = [h[:500] for h in harness_errors][:10]
    extra["bounds"] = plan.get("bounds", "")
    extra["outside_claim"] = plan.get("outside", "")
    tv = extra["traces_validated"]
    core.write_evidence(prop, args.tier, plan.get("level", "model_checking"), results, extra, violations, wall, seed)
    ob = sum(r["obligations"] for r in results)
    di = sum(r["discharged"] for r in results)
    for ln in lines:
        print(ln)
    print(f"[{prop}/{args.tier}] jobs={len(results)} obligations={ob} discharged={di} paths={sum(r['paths'] for r in results)} "
          f"solver={sum(r['solver_s'] for r in results):.1f}s wall={wall:.1f}s validated_traces={tv} "
          f"violations={violations} known={len(known)} harness_errors={len(harness_errors)}")
    for h in harness_errors[:8]:
        print("HARNESS-ERROR:", h[:3000], file=sys.stderr)
    if violations:
        return core.EXIT_VIOLATION
    if harness_errors:
        return core.EXIT_HARNESS
    return core.EXIT_OK


if __name__ == "__main__":
    sys.exit(main())
