"""C16: training losses are the stated policy-gradient surrogates, with their gradients"""
from __future__ import annotations

CASES = ("no", "mean", "exponential", "critic", "rollout_extra", "warmup", "warmup_done", "scaled_norm", "scaled_int", "pomo", "symnco", "ppo")


def plan(tier, seed):
    jobs = []
    for case in CASES:
        Bs = [2] if case in ("symnco", "scaled_norm") else [3]
        if tier == "thorough":
            Bs = sorted(set(Bs + [1, 2, 3, 4])) if case not in ("symnco", "scaled_norm", "ppo") else ([2, 3] if case != "ppo" else [2, 3, 4])
        for B in Bs:
            for S in ([2] if tier == "quick" or case not in ("pomo", "symnco") else [2, 3]):
                jobs.append({"id": f"C16:{case} B={B} S={S}", "module": "vf.training", "func": "loss_job", "params": dict(case=case, B=B, S=S)})
    return {"jobs": jobs, "level": "model_checking",
            "bounds": "batch B<=4 (B=1 included where the sample statistics are defined), starts/augmentations S<=3, 3 successive steps for stateful baselines; rewards, log-likelihoods, critic values, entropies and their tangents symbolic",
            "outside": "optimizer step, gradient clipping, Lightning manual-optimisation plumbing; PPO advantage normalisation (nonlinear std) is covered for REINFORCE's scaler only"}


def validate(reqs, resps):
    return 0, [], []


def confirm(rp, resp):
    if "error" in resp:
        return False, "torch side failed: " + resp["error"]
    if rp.get("nograd") and "steps" in resp:
        st = resp["steps"][rp.get("tag") or 0]
        return (True, "the baseline value returned to the loss still requires grad (not detached)") if st["bl_requires_grad"] else (False, "real baseline value is detached")
    if "unsupported" in resp or "ref_value" not in rp:
        return False, "no real-torch replay implemented for this case"
    st = resp["steps"][rp.get("tag") or 0]
    dv, dg = abs(st["value"] - rp["ref_value"]), abs(st["grad"] - rp["ref_grad"])
    tol = 1e-5 * (1 + abs(rp["ref_value"]) + abs(rp["ref_grad"]))
    if dv > tol:
        return True, f"real loss value {st['value']:.6g} != reference surrogate {rp['ref_value']:.6g}"
    if dg > tol:
        return True, f"real gradient along the tangent {st['grad']:.6g} != gradient of the reference surrogate {rp['ref_grad']:.6g} (a term that should be detached carries gradient, or a gradient is missing)"
    return False, "real autograd value and gradient equal the reference"


def confirm_witness(rp, resp):
    return True, "n/a"


def signature(c, rp, resp, text):
    return {"case": rp.get("params", {}).get("case"), "what": text[:40]}
