"""C04: an instance's masks, finishing step and reward do not depend on batch-mates or post-finish padding"""
from __future__ import annotations

from .. import confirm as CF
from . import _episodes as _E

validate, confirm_witness = _E.validate, _E.confirm_witness

# (spec, variant, n_quick, n_thorough)
TABLE = [
    ("tsp", None, 3, 4), ("atsp", None, 3, 4), ("cvrp", None, 3, 4), ("sdvrp", None, 2, 3), ("op", None, 2, 3), ("pctsp", None, 2, 3),
    ("spctsp", None, 2, 3), ("pdp", "free", 2, 4), ("pdp", "depot", 2, 4), ("mtsp", "minmax", 3, 4), ("mtsp", "sum", 3, 4),
    ("svrp", None, 3, 4), ("cvrptw", None, 3, 3),
] + [("mtvrp", v, 3, 3) for v in ("", "OTW", "BL", "OBLTW", "mix:TW/", "mix:/TW")] + [("flp", None, 3, 3), ("mcp", None, 2, 2), ("dpp", None, 4, 4), ("mdpp", None, 4, 4), ("smtwtp", None, 3, 3),
                                                                   ("mdcpdp", "d1", 2, 4), ("mdcpdp", "d2", 2, 2)]
TABLE_T = [("mtvrp", v, 3, 3) for v in ("O", "B", "L", "TW", "OB", "OL", "BTW", "LTW", "OBL", "OBTW", "OLTW", "BLTW", "mix:OTW/L", "mix:BL/OTW")]


def plan(tier, seed):
    jobs, pairs = [], []
    table = TABLE if tier == "quick" else TABLE + TABLE_T
    for spec, variant, nq, nt in table:
        # (MTVRP with three rows stays at n=2: the n=3 queries run close to the per-query timeout and become inconclusive on a loaded machine)
        for n, B in ([(nq, 2)] if tier == "quick" else ([(nq, 2), (nt, 2), (nq, 3)] if spec != "mtvrp" else [(nq, 2), (2, 3)])):
            for pos in range(B):
                if tier == "quick" and pos == 1 and spec == "mtvrp" and not (variant or "").startswith("mix:"):
                    continue
                if tier == "quick" and pos == 0 and (variant or "").startswith("mix:"):
                    continue
                jobs.append({"id": f"C04:{spec}[{variant}] n={n} B={B} row={pos}", "module": "vf.episodes", "func": "independence_job",
                             "params": dict(spec=spec, variant=variant, n=n, B=B, pos=pos)})
        if spec not in ("dpp", "mdpp"):
            pairs.append((spec, variant, nq + 2))
    # scheduling: two padded instances with different numbers of operations in one batch, every mask-admitted action
    # sequence of both rows; row 0 is also driven alone with the same actions (paths split over 16 worker shards)
    kinds = ["jssp"] if tier == "quick" else ["jssp", "fjsp"]
    for kind in kinds:
        for mno in ([True] if tier == "quick" else [True, False]):
            for i in range(16):
                jobs.append({"id": f"C04:sched {kind} 2 rows (2,1 ops) mask_no_ops={mno} shard {i}/16", "module": "vf.sched", "func": "fjsp_job",
                             "params": dict(kind=kind, NJ=2, NOPS=2, NM=2, mask_no_ops=mno, B=2, unequal=True, shard=[i, 16], compare_solo=True)})
    return {
        "jobs": jobs, "torch_requests": CF.rollout_requests(pairs, seed, B=3), "level": "model_checking",
        "bounds": "per job: n nodes, B rows (row under test at every position), T = step bound; all instance data and all actions of all rows symbolic; solo run = B=1 with the same actions",
        "outside": "B above 3; sizes above the bounds; cross-row effects of float kernels (batched BLAS)",
    }


def confirm(rp, resp):
    if rp.get("mode") == "witness":
        return False, "witness"
    if rp.get("module") == "sched_side":
        from . import C07

        return C07.confirm(rp, resp)
    if "error" in resp:
        return False, "torch side failed: " + resp["error"]
    b, s, pos = resp["batched"], resp["solo"], rp["pos"]
    acts = rp["batched"]["actions"]
    B = rp["batched"]["batch"][0]
    for t in range(b["steps"]):
        for r in range(B):
            if not b["masks"][t][r][acts[t][r]]:
                return False, f"replay diverges: action {acts[t][r]} of row {r} at step {t} not admitted by the real mask"
    if "step_error" in b:
        return True, f"batched run raised at step {b['step_error_at']} on mask-admitted actions (padding of a finished row): {b['step_error']}"
    for t in range(min(s["steps"], b["steps"]) + 1):
        if s["done"][t][0] != b["done"][t][pos]:
            return True, f"row {pos} finishes at a different step alone than in the batch (step {t})"
        if not s["done"][t][0] and s["masks"][t][0] != b["masks"][t][pos]:
            return True, f"mask of row {pos} at step {t} differs alone {s['masks'][t][0]} vs in batch {b['masks'][t][pos]}"
    if "reward" in s and "reward" in b:
        rs = list(CF.flat(s["reward"]))[0]
        rb = list(CF.flat(b["reward"]))[pos]
        if not CF.close(rs, rb, 1e-4):
            return True, f"reward of row {pos}: alone {rs} vs in batch (with padding / batch-mates) {rb}"
    if "reward_error" in b and "reward_error" not in s:
        return True, "batched reward raised: " + b["reward_error"]
    # the model may owe its difference to the distance abstraction (no exact model exists for 2-D geometry): look for a real
    # discrepancy on generator instances in the same batch composition (randomised, seeded by this counterexample's job)
    if rp.get("spec") not in ("dpp", "mdpp") and not rp.get("no_search"):
        from .. import core
        from .. import envs as EV

        sp = EV.SPECS[rp["spec"]]
        n, variant = rp["n"], rp["variant"]
        if rp["spec"] not in ("flp", "mcp", "smtwtp", "mdcpdp"):
            n = max(n, 10)  # longer routes: effects that need accumulated time / length show up on random instances
        req = {"kind": "pair_search", "env": {"module": sp.module, "cls": sp.cls, "kwargs": sp.env_kwargs(n, variant)}, "B": B, "pos": pos, "tries": 200}
        if (variant or "").startswith("mix:"):
            vs = variant[4:].split("/")
            req["row_envs"] = [{"module": sp.module, "cls": sp.cls, "kwargs": sp.env_kwargs(n, vs[r % len(vs)])} for r in range(B)]
        try:
            found = core.torch_run([req])[0]
        except Exception as e:  # noqa: BLE001
            found = {"error": repr(e)}
        if found.get("violation"):
            resp["search"] = found
            return True, found["violation"] + f" (real generator instance, seed {found['seed']}, found by the search seeded by the solver's counterexample)"
    return False, "solo and batched runs agree on real torch"


def signature(c, rp, resp, text):
    import re

    return {"env": rp.get("spec"), "variant": rp.get("variant"), "what": re.sub(r"row \d+|step \d+", "", text.split(":")[0])[:60].strip(), "quotas_differ": _E.quotas_differ(rp)}
