from . import _episodes as _E

confirm, validate, signature, confirm_witness = _E.confirm, _E.validate, _E.signature, _E.confirm_witness


def plan(tier, seed):
    return _E.plan("C01", tier, seed, B_quick=1)
