"""C12: replicated rollouts (multi-start, sampling, augmentation) keep their instance"""
from __future__ import annotations

import re


def plan(tier, seed):
    jobs = [{"id": "C12:layout", "module": "vf.opsjobs", "func": "layout_job", "params": dict(Bmax=3 if tier == "quick" else 4, fmax=3)}]
    for B, k, L in ([(2, 3, 2), (1, 2, 2)] if tier == "quick" else [(1, 2, 2), (2, 2, 3), (2, 3, 2), (3, 3, 2), (3, 2, 1)]):
        jobs.append({"id": f"C12:best B={B} k={k}", "module": "vf.opsjobs", "func": "best_job", "params": dict(B=B, k=k, L=L)})
    envs = ("tsp", "atsp", "cvrp", "sdvrp", "op", "pctsp", "pdp", "mtsp", "mtvrp", "flp", "mcp", "svrp", "sampling")
    for e in envs:
        for B, n, k in ([(2, 4, 2), (2, 4, 3), (2, 4, 5)] if tier == "quick" else [(2, 4, 2), (1, 4, 3), (3, 4, 4), (2, 4, 5), (3, 4, 2)]):
            jobs.append({"id": f"C12:starts {e} B={B} n={n} k={k}", "module": "vf.opsjobs", "func": "starts_job", "params": dict(env_name=e, B=B, n=n, k=k)})
    from . import C16  # POMO / SymNCO regrouping of rewards and log-likelihoods is decided by the C16 identities

    jobs += [dict(j, id=j["id"].replace("C16:", "C12:regroup ")) for j in C16.plan(tier, seed)["jobs"] if "pomo" in j["id"] or "symnco" in j["id"]]
    return {"jobs": jobs, "level": "model_checking",
            "bounds": "B<=3 (thorough 4), replication factors <=3, nesting <=3, n<=4 nodes, k<=5 starts; SHAPES ARE ENUMERATED, the solver decides over all element values, reset masks and reward orderings (ties)",
            "outside": "a shape-symbolic proof; AttentionModelDecoder cache regrouping (see C14)"}


def validate(reqs, resps):
    return 0, [], []


def confirm(rp, resp):
    if "error" in resp:
        return False, "torch side failed: " + resp["error"]
    if rp.get("module") == "training_side":
        from . import C16

        return C16.confirm(rp, resp)
    if resp.get("violations"):
        return True, "; ".join(resp["violations"][:2])
    return False, "not reproduced on real torch"


def confirm_witness(rp, resp):
    return True, "n/a"


def signature(c, rp, resp, text):
    p = rp.get("params") or {}
    sig = {"env": p.get("env"), "what": re.sub(r"\[[^\]]*\]|\(mask[^)]*\)|\d+", "", text)[:70].strip()}
    if "mask" in p and "k" in p:  # does every instance of the failing batch have >= k feasible non-depot starts?
        sig["all_rows_have_k_feasible"] = all(sum(bool(x) for x in row[1:]) >= p["k"] for row in p["mask"])
    return sig
