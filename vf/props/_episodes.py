"""shared plan / confirm / validate for the episode-based properties C01, C02, C03"""
from __future__ import annotations

import json

from .. import confirm as CF
from .. import envs as EV

# (spec, variant, n_quick, n_thorough)
TABLE = [
    ("tsp", None, 4, 5),
    ("atsp", None, 4, 5),
    ("cvrp", None, 3, 4),
    ("sdvrp", None, 2, 3),
    ("op", None, 3, 4),
    ("pctsp", None, 3, 4),
    ("spctsp", None, 3, 4),
    ("pdp", "free", 4, 6),
    ("pdp", "depot", 4, 6),
    ("mtsp", "minmax", 3, 4),
    ("mtsp", "sum", 3, 4),
    ("svrp", None, 3, 4),
    ("cvrptw", None, 3, 4),
] + [("mtvrp", v, 3, 3) for v in ("", "O", "B", "L", "TW", "OTW", "OB", "OL", "BL", "BTW", "LTW", "OBL", "OBTW", "OLTW", "BLTW", "OBLTW")] + [("mtvrp", "TW@2", 3, 3), ("mtvrp", "LTW@0.5", 2, 3)]  # '@k': generated with speed k (travel time = distance / speed)


SELECTION = [("flp", None, 3, 4), ("mcp", None, 2, 3), ("dpp", None, 4, 9), ("mdpp", None, 4, 9)]
SMTWTP = [("smtwtp", None, 3, 4)]
MDCPDP = [("mdcpdp", "d1", 4, 6), ("mdcpdp", "d2", 4, 4), ("mdcpdp", "d3", 4, 4)]  # 1 / 2 / 3 depots (documented constraints only; reward not claimed)
MDCPDP_R = [("mdcpdp", "d1", 2, 4), ("mdcpdp", "d2", 2, 4)]  # reward_mode="minsum": total length driven
EXTRA = {"C01": MDCPDP, "C02": SELECTION + SMTWTP + MDCPDP, "C03": SELECTION[:2] + SMTWTP + MDCPDP_R}
NO_GENERATOR = {"dpp", "mdpp"}  # constructors need downloaded data: no generator rollouts (witness runs are still replayed)


def plan(prop, tier, seed, B_quick=1):
    jobs, pairs = [], []
    for spec, variant, nq, nt in TABLE + EXTRA.get(prop, []):
        if spec not in EV.SPECS:
            continue
        if prop == "C02":
            # mixed finished / unfinished rows need B=2; kept small in quick (rows finish at different steps from n=2 on)
            small = max(2, nq - 1) if spec not in NO_GENERATOR and spec != "mtsp" else nq  # mTSP: fleets of different size differ in episode length only from n=3
            sizes = [(small, 2), (nq, 1)] if tier == "quick" else [(nq, 2), (nt, 1)]
            if spec == "mcp":
                sizes = [(2, 2), (3, 1)]
        elif prop == "C03":
            # rewards are computed by batched gathers and, for some envs, python loops over batch rows: a second,
            # smaller job with two independent rows exposes row mix-ups that B=1 cannot show
            small = max(2, nq - 1) if spec not in NO_GENERATOR and spec not in ("svrp", "mtsp") else nq  # mTSP: rows of a batch finish at different steps only from n=3
            sizes = [(nq, 1), (small, 2)] if tier == "quick" else [(nq, 2), (nt, 1)]
            if spec == "mcp":
                sizes = [(3, 1), (2, 2)]
            if spec == "mtvrp" and tier == "quick":
                sizes = [(nq, 1)]
        else:
            sizes = [(nq, B_quick)] if tier == "quick" else [(nq, 2), (nt, 1)]
        if spec in ("pdp", "mdcpdp"):
            sizes = [(max(2, n - n % 2), B) for n, B in sizes]
        for n, B in sizes:
            jobs.append({"id": f"{prop}:{spec}[{variant}] n={n} B={B}", "module": "vf.episodes", "func": "episode_job",
                         "params": dict(spec=spec, variant=variant, n=n, B=B, mode=prop)})
        if spec not in NO_GENERATOR:
            pairs.append((spec, variant, nq + 2))
    if prop in ("C02", "C03"):
        # scheduling environments: the C07 harness proves, on every path, that an action is offered, that the episode ends
        # within ops+waits steps, that stepping never raises, and that reward == -makespan
        from . import C07

        sched = C07.plan(tier, seed)["jobs"]
        jobs += [dict(j, id=j["id"].replace("C07:", prop + ":sched ")) for j in sched if j["module"] == "vf.sched"][: (4 if tier == "quick" else None)]
    return {
        "jobs": jobs,
        "torch_requests": CF.rollout_requests(pairs, seed),
        "level": "model_checking",
        "bounds": "per job: n customers/nodes, B batch rows, T = documented step bound (asserted, not assumed); all instance data and every action symbolic",
        "outside": "sizes above the bounds; float32 rounding (reals model); GPU kernels",
    }


def validate(reqs, resps):
    n, bad, notes = 0, [], []
    for rq, rs in zip(reqs, resps):
        d = CF.diff_validate(rq, rs)
        n += 1
        for x in d:
            (notes if "oracle" in x else bad).append(x)
    return n, bad, notes


def confirm(rp, resp):
    if rp.get("mode") == "witness":
        return False, "witness"
    return CF.confirm_episode(rp, resp)


def quotas_differ(rp):
    """selection envs: do the per-instance quotas differ inside the replayed batch? (the open FLP/MCP finding needs that)"""
    td = rp.get("td") or (rp.get("batched") or {}).get("td") or {}
    for k in ("to_choose", "n_sets_to_choose"):
        if k in td:
            flat = [x for x in CF.flat(td[k]["data"])]
            return len(set(flat)) > 1
    return False


def signature(c, rp, resp, text):
    return {"env": rp.get("spec"), "variant": rp.get("variant"), "what": text.split(":")[0][:80], "obligation_kind": c["obligation"].split(":")[-1].strip()[:60],
            "quotas_differ": quotas_differ(rp)}


def confirm_witness(rp, resp):
    if "error" in resp:
        return False, resp["error"]
    B = rp["batch"][0]
    if "step_error" in resp:
        return False, "real env raised: " + resp["step_error"]
    for t in range(resp["steps"]):
        for b in range(B):
            if not resp["masks"][t][b][rp["actions"][t][b]]:
                return False, f"{rp.get('spec')}[{rp.get('variant')}] n={rp.get('n')}: witness action not admitted by the real mask at step {t}: {rp['actions']}; instance {json.dumps(rp.get('td'))[:400]}"
    if resp["steps"] != len(rp["actions"]) or not all(resp["done"][resp["steps"]]):
        return False, f"witness finishes at a different step in the real env (steps={resp['steps']}, planned={len(rp['actions'])})"
    return True, "ok"
