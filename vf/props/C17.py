"""C17: datasets, collation and baseline wrapping preserve instance identity and order"""
from __future__ import annotations


def plan(tier, seed):
    jobs = []
    for c in ("TensorDictDataset", "FastTdDataset", "TensorDictDatasetFastGeneration"):
        for ex in (False, True):
            for N in ([4] if tier == "quick" else [1, 3, 4, 5]):
                jobs.append({"id": f"C17:{c} N={N} extra={ex}", "module": "vf.datajobs", "func": "dataset_job", "params": dict(cls_name=c, N=N, extra=ex)})
    for N, bs in ([(3, 2)] if tier == "quick" else [(3, 1), (3, 2), (3, 4), (4, 3)]):
        jobs.append({"id": f"C17:rollout baseline N={N} eval_bs={bs}", "module": "vf.datajobs", "func": "rollout_job", "params": dict(N=N, eval_bs=bs)})
    return {"jobs": jobs, "level": "model_checking",
            "bounds": "N<=5 instances, every batch size 1..N+1 (final partial batch), sequential order and a SYMBOLIC shuffle permutation (distinct solver integers: every order a sampler can produce; list-backed datasets case-split it, tensor-backed ones index with it symbolically); element values are distinct solver variables",
            "outside": "multi-worker loading, pinned memory, the DataLoader implementation itself (contract stub)",
            "evidence": {"explanation_of_solver_role": "equalities between what is read back and the original instance are decided on terms: for correct code both sides are the same z3 term, so the obligation folds to true before a query is issued; a mix-up yields two different variables and a satisfiable disequality"}}


def validate(reqs, resps):
    return 0, [], []


def confirm(rp, resp):
    if "error" in resp:
        return False, "torch side failed: " + resp["error"]
    if resp.get("violations"):
        return True, "; ".join(resp["violations"][:2])
    return False, "not reproduced on real torch"


def confirm_witness(rp, resp):
    return True, "n/a"


def signature(c, rp, resp, text):
    return {"cls": (rp.get("params") or {}).get("cls"), "what": text[:40]}
