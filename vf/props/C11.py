"""C11: returned log-likelihoods are those of the returned actions (evaluate round trip)"""
from __future__ import annotations


def plan(tier, seed):
    J = lambda i, f, **p: {"id": "C11:" + i, "module": "vf.policyjobs", "func": f, "params": p}  # noqa: E731
    jobs = []
    if "C11" == "C11":
        for d in ("greedy", "sampling", "multistart_greedy", "multistart_sampling"):
            jobs.append(J(f"{d} n=3 B=2", "ll_job", decode_type=d, n=3, B=2))
        # temperature != 1 (the step distribution must still be the normalised one) and steps flagged irrelevant through td["mask"]
        jobs += [J("greedy n=3 B=2 temperature=2", "ll_job", decode_type="greedy", n=3, B=2, temperature=2.0), J("sampling n=3 B=2 temperature=0.5", "ll_job", decode_type="sampling", n=3, B=2, temperature=0.5),
                 J("greedy n=3 B=2 flagged steps", "ll_job", decode_type="greedy", n=3, B=2, flagged=True), J("sampling n=3 B=2 flagged steps", "ll_job", decode_type="sampling", n=3, B=2, flagged=True),
                 J("multistart_greedy n=3 B=2 flagged steps", "ll_job", decode_type="multistart_greedy", n=3, B=2, flagged=True)]
        if tier == "thorough":
            for d in ("greedy", "sampling", "multistart_greedy"):
                jobs.append(J(f"{d} n=4 B=2", "ll_job", decode_type=d, n=4, B=2))
            jobs.append(J("multistart_greedy n=4 k=2", "ll_job", decode_type="multistart_greedy", n=4, B=2, num_starts=2))
            jobs.append(J("greedy n=3 B=3", "ll_job", decode_type="greedy", n=3, B=3))
            jobs += [J("sampling n=4 B=2 temperature=2 flagged steps", "ll_job", decode_type="sampling", n=4, B=2, temperature=2.0, flagged=True),
                     J("multistart_sampling n=4 B=2 flagged steps", "ll_job", decode_type="multistart_sampling", n=4, B=2, flagged=True),
                     J("greedy n=4 B=3 temperature=0.5", "ll_job", decode_type="greedy", n=4, B=3, temperature=0.5), J("sampling n=3 B=1", "ll_job", decode_type="sampling", n=3, B=1)]
    else:
        jobs = [J("n=3 w=2 B=1", "beam_job", n=3, W=2, B=1), J("n=3 w=2 B=2", "beam_job", n=3, W=2, B=2), J("n=3 w=2 B=2 select_best", "beam_job", n=3, W=2, B=2, select_best=True),
                J("n=3 w=3 B=2", "beam_job", n=3, W=3, B=2)]
        if tier == "thorough":
            jobs += [J("n=4 w=2 B=1", "beam_job", n=4, W=2, B=1), J("n=4 w=2 B=2", "beam_job", n=4, W=2, B=2), J("n=3 w=3 B=2 select_best", "beam_job", n=3, W=3, B=2, select_best=True)]
    return {"jobs": jobs, "level": "model_checking",
            "bounds": "TSP n<=4, B<=3, temperatures 1 / 2 / 0.5, optional per-step relevance flags (symbolic), beam width <=3 (n=4: width 2); abstract decoder (logits = uninterpreted function of the state shown), so the verdict holds for every network",
            "outside": "beam width >=3 at n>=4 (symbolic top-k does not finish); other environments (variable-length episodes); the numerical content of real networks"}


def validate(reqs, resps):
    return 0, [], []


def confirm(rp, resp):
    if "error" in resp:
        return False, "torch side failed: " + resp["error"]
    if resp.get("violations"):
        return True, "; ".join(resp["violations"][:2])
    return False, "not reproduced on real torch with concrete state-determined decoders (5 seeds)"


def confirm_witness(rp, resp):
    return True, "n/a"


def signature(c, rp, resp, text):
    import re

    return {"what": re.sub(r"seed \\d+|row \\d+|-?\\d+(\\.\\d+)?", "", text)[:60]}
