"""C07: scheduling environments always yield valid schedules with the reported makespan"""
from __future__ import annotations

import random

from .. import core


def _fj(kind, NJ, NOPS, NM, mno, unequal=False, B=1, elig="all", source="hand", gen_mas=None):
    return {"id": f"C07:{kind} {NJ}x{NOPS}x{NM} mask_no_ops={mno} unequal={unequal} B={B} elig={elig} instances={source}" + (f" env built for {gen_mas} machines" if gen_mas else ""), "module": "vf.sched", "func": "fjsp_job",
            "params": dict(kind=kind, NJ=NJ, NOPS=NOPS, NM=NM, mask_no_ops=mno, unequal=unequal, B=B, elig=elig, source=source, gen_mas=gen_mas)}


def _ff(NJ, NS, NMA, D, flatten=True, big=None, B=1):
    return {"id": f"C07:ffsp {NJ} jobs x {NS} stages x {NMA} machines D<={D}{' or ' + str(big) if big else ''} flatten_stages={flatten}" + (f" B={B}" if B > 1 else ""), "module": "vf.sched", "func": "ffsp_job",
            "params": dict(NJ=NJ, NS=NS, NMA=NMA, D=D, flatten=flatten, big=big, B=B)}


def plan(tier, seed):
    jobs = [_fj("fjsp", 2, 2, 2, True), _fj("fjsp", 2, 2, 2, True, unequal=True), _fj("fjsp", 2, 2, 2, True, elig="first"), _fj("jssp", 2, 2, 2, True),
            _fj("fjsp", 2, 1, 2, False), _fj("jssp", 2, 1, 2, False), _fj("fjsp", 2, 1, 2, True, gen_mas=3), _ff(2, 2, 1, 2), _ff(2, 2, 2, 2), _ff(2, 2, 1, 2, flatten=False), _ff(2, 2, 2, 2, flatten=False),
            _ff(2, 2, 1, 2, B=2),  # two rows that finish at different steps: the finished row keeps stepping (waits) until the batch is done
            _ff(2, 2, 2, 1, big=6),  # heterogeneous machines: a job may be much slower on a machine it does not end up using
            # instances produced by the REAL bundled generators (every sampler outcome), incl. padded ones with fewer ops than slots
            _fj("jssp", 2, 2, 2, True, source="generator")]
    jobs.append({"id": "C07:smtwtp n=3", "module": "vf.episodes", "func": "episode_job", "params": dict(spec="smtwtp", variant=None, n=3, B=1, mode="C01")})
    if tier == "thorough":
        jobs += [_fj("fjsp", 2, 2, 2, True, source="generator"), _fj("jssp", 2, 2, 2, False, source="generator"), _fj("fjsp", 2, 2, 2, False), _fj("jssp", 2, 2, 2, False), _fj("fjsp", 2, 2, 2, True, elig="symbolic"), _fj("fjsp", 3, 1, 2, True), _fj("jssp", 3, 1, 2, True), _fj("fjsp", 2, 2, 2, True, gen_mas=3), _fj("jssp", 2, 2, 2, True, gen_mas=1),
                 _fj("fjsp", 2, 2, 2, True, unequal=True, B=2), _ff(3, 2, 1, 2), _ff(2, 2, 1, 3), _ff(2, 3, 1, 2), _ff(2, 2, 2, 2, big=9), _ff(3, 2, 2, 1, big=5), _ff(2, 2, 2, 2, B=2)]
        jobs.append({"id": "C07:smtwtp n=4 B=2", "module": "vf.episodes", "func": "episode_job", "params": dict(spec="smtwtp", variant=None, n=4, B=2, mode="C01")})
    rng = random.Random(seed)
    reqs = []
    for kind in ("fjsp", "jssp"):
        proc = [[[round(rng.uniform(1, 9), 1) for _ in range(4)] for _ in range(2)]]
        if kind == "jssp":
            for o in range(4):
                proc[0][rng.randrange(2)][o] = 0.0
        reqs.append({"kind": "script", "path": core.ROOT + "/vf/torch_side", "module": "sched_side", "func": "run_fjsp",
                     "params": {"kind": kind, "NJ": 2, "NOPS": 2, "NM": 2, "mask_no_ops": True, "starts": [0, 2], "ends": [1, 3], "B": 1, "proc": proc,
                                "pad": [[False] * 4], "actions": []}, "validate": True})
    return {"jobs": jobs, "torch_requests": reqs, "level": "model_checking",
            "bounds": "FJSP/JSSP: 2 jobs x <=2 ops x 2 machines (thorough: 3 jobs, arbitrary eligibility patterns, padded unequal batches), processing times symbolic reals; FFSP: 2-3 jobs x 2-3 stages, durations symbolic ints in [1,3], optionally one much longer value (5-9) for heterogeneous machines; SMTWTP n<=4; ALL mask-admitted action sequences incl. waits",
            "outside": "larger shapes; the lower-bound feature calc_lower_bound (policy input, stubbed by zeros)"}


def validate(reqs, resps):
    bad = [f"sched_side smoke run failed: {r.get('error')}" for r in resps if "error" in r]
    return len(resps) - len(bad), bad, []


def confirm(rp, resp):
    if rp.get("kind") == "episode":
        from . import _episodes as _E

        return _E.confirm(rp, resp)
    if "error" in resp:
        return False, "torch side failed: " + resp["error"]
    if not resp.get("admitted", True):
        return False, "replay diverges: an action of the sequence is not admitted by the real mask"
    if resp.get("violations"):
        return True, "; ".join(resp["violations"][:3])
    return False, "the real schedule is valid and the reward is its makespan"


def confirm_witness(rp, resp):
    from . import _episodes as _E

    return _E.confirm_witness(rp, resp) if rp.get("kind") == "episode" else (True, "n/a")


def signature(c, rp, resp, text):
    import re

    return {"env": (rp.get("params") or {}).get("kind", rp.get("spec", "ffsp")), "what": re.sub(r"\d+(\.\d+)?", "", text)[:60]}
