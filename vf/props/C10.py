"""C10: decoding distributions are proper and confined to feasible actions"""
from __future__ import annotations

import math


def plan(tier, seed):
    jobs = []
    ns = [3] if tier == "quick" else [3, 4, 5]
    for n in ns:
        for top_k in sorted({0, 1, 2, n, n + 1} if tier == "quick" else set(range(0, n + 2))):
            for mode in ("plain", "select", "shift"):
                if mode != "plain" and top_k not in (0, 2):
                    continue
                jobs.append({"id": f"C10:n={n} top_k={top_k} {mode}", "module": "vf.decoding", "func": "decoding_job", "params": dict(n=n, top_k=top_k, mode=mode)})
        for top_k in (0, 2):
            jobs.append({"id": f"C10:n={n} top_k={top_k} topp", "module": "vf.decoding", "func": "decoding_job", "params": dict(n=n, top_k=top_k, mode="topp")})
        jobs.append({"id": f"C10:n={n} top_k=0 tanh", "module": "vf.decoding", "func": "decoding_job", "params": dict(n=n, top_k=0, mode="tanh")})
        # two rows: filters must act row by row (a statistic taken over the whole batch leaks between rows)
        for top_k, mode in ((2, "plain"), (0, "topp"), (1, "select")):
            jobs.append({"id": f"C10:n={n} top_k={top_k} {mode} B=2", "module": "vf.decoding", "func": "decoding_job", "params": dict(n=n, top_k=top_k, mode=mode, B=2)})
    # through DecodingStrategy.step (the settings reach process_logits unchanged), batch sizes around top_k
    for B, top_k in ((1, 1), (2, 1), (2, 2)) + (((3, 2), (2, 3), (1, 2)) if tier == "thorough" else ()):
        jobs.append({"id": f"C10:n=3 top_k={top_k} strategy B={B}", "module": "vf.decoding", "func": "decoding_job", "params": dict(n=3, top_k=top_k, mode="strategy", B=B)})
    if tier == "thorough":
        jobs.append({"id": "C10:n=6 top_k=0 topp", "module": "vf.decoding", "func": "decoding_job", "params": dict(n=6, top_k=0, mode="topp")})
        jobs.append({"id": "C10:n=6 top_k=3 plain", "module": "vf.decoding", "func": "decoding_job", "params": dict(n=6, top_k=3, mode="plain")})
    import random

    rng = random.Random(seed)
    reqs = []
    for _ in range(10):
        n = rng.choice([3, 5, 8])
        mask = [rng.random() < 0.7 for _ in range(n)]
        mask[rng.randrange(n)] = True
        vals = [round(rng.uniform(-3, 3), 2) for _ in range(n)]
        if rng.random() < 0.5:
            vals[rng.randrange(n)] = vals[0]  # tie
        reqs.append({"kind": "script", "path": __import__("vf.core", fromlist=["ROOT"]).ROOT + "/vf/torch_side", "module": "decoding_side", "func": "run",
                     "params": {"logits": vals, "mask": mask, "temperature": rng.choice([0.5, 1.0, 2.0]), "top_p": rng.choice([0.0, 0.3, 0.9]),
                                "top_k": rng.choice([0, 1, 2, n]), "tanh_clipping": rng.choice([0.0, 0.0, 10.0]), "shift": 0.0}})
    return {
        "jobs": jobs, "torch_requests": reqs, "level": "model_checking",
        "bounds": "n actions, B<=2 rows; logits, mask, temperature, top_p, tanh clipping symbolic; top_k enumerated 0..n+1",
        "outside": "float overflow of exp for huge magnitudes (real-arithmetic model); B>2",
    }


def validate(reqs, resps):
    """translator validation: the same concrete inputs through symtorch (concrete mode, real softmax arithmetic)"""
    from symtorch import explore, world
    from symtorch import tensor as T

    n_ok, bad = 0, []
    for rq, rs in zip(reqs, resps):
        p = rq["params"]
        if "error" in rs:
            bad.append("real process_logits failed on a validation input: " + rs["error"])
            continue
        explore.EXP.reset_all()
        explore.EXP._new_path()
        dec = world.make_world().load("rl4co.utils.decoding")
        lp = dec.process_logits(T.tensor([p["logits"]], dtype=T.float32), T.tensor([p["mask"]], dtype=T.bool_), temperature=p["temperature"],
                                top_p=p["top_p"], top_k=p["top_k"], tanh_clipping=p["tanh_clipping"])
        mine = [float(x) for x in lp.a[0]]
        real = [_f(x) for x in rs["logprobs"][0]]
        if any((a == -math.inf) != (b == -math.inf) or (a > -math.inf and abs(a - b) > 1e-4 * (1 + abs(a))) for a, b in zip(mine, real)):
            bad.append(f"process_logits differs on {p}: symtorch {mine} vs torch {real}")
        else:
            n_ok += 1
    return n_ok, bad, []


def _f(x):
    return -math.inf if x == "-inf" else (math.inf if x == "inf" else float(x))


def confirm(rp, resp):
    ok, text = confirm_one(rp["params"], resp)
    if ok:
        return ok, text
    for v in resp.get("variants", []):
        ok, text2 = confirm_one(v["params"], v)
        if ok:
            return True, text2 + f" [instance re-scaled for replay: temperature={v['params']['temperature']} top_p={v['params']['top_p']} logits={v['params']['logits']}]"
    return False, text


def confirm_one(p, resp):
    if "error" in resp:
        return True, "real process_logits raised: " + resp["error"]
    masks = p["mask"] if isinstance(p["mask"][0], list) else [p["mask"]]
    if "greedy_assert" in resp:
        return True, "greedy selected an infeasible action: " + resp["greedy_assert"]
    if "sampling_error" in resp:
        return True, "sampling failed: " + resp["sampling_error"]
    for b, mask in enumerate(masks):
        lp, lp0 = [_f(x) for x in resp["logprobs"][b]], [_f(x) for x in resp["unfiltered"][b]]
        n = len(lp)
        kept = [i for i in range(n) if lp[i] > -math.inf]
        if any(not mask[i] for i in kept):
            return True, f"row {b}: masked action keeps positive probability: logprobs={lp} mask={mask}"
        if not kept:
            return True, f"row {b}: no action keeps positive probability"
        if abs(sum(math.exp(lp[i]) for i in kept) - 1) > 1e-4:
            return True, f"row {b}: distribution is not normalised: {lp}"
        best = max(lp0[i] for i in range(n) if mask[i])
        if not any(lp0[i] >= best - 1e-7 and i in kept for i in range(n)):
            return True, f"row {b}: the most likely feasible action was filtered out: unfiltered={lp0} filtered={lp}"
        if p["top_k"] > 0:
            k = min(p["top_k"], n)
            for i in kept:
                if sum(1 for j in range(n) if mask[j] and lp0[j] > lp0[i] + 1e-6) >= k:
                    return True, f"row {b}: top-k={k} keeps an action with >= k strictly better feasible actions: unfiltered={lp0} filtered={lp}"
        if 0 < p["top_p"] < 1:
            mass = sum(math.exp(lp0[i]) for i in kept)
            if mass < p["top_p"] - 1e-4:
                return True, f"row {b}: top-p={p['top_p']} keeps only mass {mass:.5f}: unfiltered={lp0} filtered={lp}"
        if "shifted" in resp:
            ls = [_f(x) for x in resp["shifted"][b]]
            if any((a > -math.inf) != (c > -math.inf) or (a > -math.inf and abs(a - c) > 1e-4 * (1 + abs(a))) for a, c in zip(lp, ls)):
                return True, f"row {b}: adding {p['shift']} to all logits changes the distribution: {lp} vs {ls}"
        if "greedy" in resp:
            g = resp["greedy"][b]
            if not mask[g] or lp[g] < max(lp) - 1e-6:
                return True, f"row {b}: greedy returned {g} which is not a feasible maximiser of {lp}"
        if resp.get("samples") and any((not mask[s_]) or lp[s_] == -math.inf for s_ in resp["samples"][b]):
            return True, f"row {b}: sampling returned an action of zero probability: {resp['samples'][b]} for {lp}"
    return False, "all decoding properties hold numerically on the real outputs"


def confirm_witness(rp, resp):
    return True, "n/a"


def signature(c, rp, resp, text):
    return {"what": text.split(":")[0][:50]}
