"""C10: decoding distributions are proper and confined to feasible actions"""
from __future__ import annotations

import math


def plan(tier, seed):
    jobs = []
    ns = [3] if tier == "quick" else [3, 4, 5]
    for n in ns:
        for top_k in sorted({0, 1, 2, n, n + 1} if tier == "quick" else set(range(0, n + 2))):
            for mode in ("plain", "select", "shift"):
                if mode != "plain" and top_k not in (0, 2):
                    continue
                jobs.append({"id": f"C10:n={n} top_k={top_k} {mode}", "module": "vf.decoding", "func": "decoding_job", "params": dict(n=n, top_k=top_k, mode=mode)})
        for top_k in (0, 2):
            jobs.append({"id": f"C10:n={n} top_k={top_k} topp", "module": "vf.decoding", "func": "decoding_job", "params": dict(n=n, top_k=top_k, mode="topp")})
        jobs.append({"id": f"C10:n={n} top_k=0 tanh", "module": "vf.decoding", "func": "decoding_job", "params": dict(n=n, top_k=0, mode="tanh")})
    if tier == "thorough":
        jobs.append({"id": "C10:n=6 top_k=0 topp", "module": "vf.decoding", "func": "decoding_job", "params": dict(n=6, top_k=0, mode="topp")})
        jobs.append({"id": "C10:n=6 top_k=3 plain", "module": "vf.decoding", "func": "decoding_job", "params": dict(n=6, top_k=3, mode="plain")})
    return {
        "jobs": jobs, "level": "model_checking",
        "bounds": "n actions, B=1; logits, mask, temperature, top_p, tanh clipping symbolic; top_k enumerated 0..n+1",
        "outside": "float overflow of exp for huge magnitudes (real-arithmetic model); B>1 (row-wise code)",
    }


def validate(reqs, resps):
    return 0, [], []


def _f(x):
    return -math.inf if x == "-inf" else (math.inf if x == "inf" else float(x))


def confirm(rp, resp):
    p = rp["params"]
    if "error" in resp:
        return True, "real process_logits raised: " + resp["error"]
    lp, lp0 = [_f(x) for x in resp["logprobs"]], [_f(x) for x in resp["unfiltered"]]
    n = len(lp)
    mask = p["mask"]
    kept = [i for i in range(n) if lp[i] > -math.inf]
    if any(not mask[i] for i in kept):
        return True, f"masked action keeps positive probability: logprobs={lp} mask={mask}"
    if not kept:
        return True, "no action keeps positive probability"
    if abs(sum(math.exp(lp[i]) for i in kept) - 1) > 1e-4:
        return True, f"distribution is not normalised: {lp}"
    best = max(lp0[i] for i in range(n) if mask[i])
    if not any(lp0[i] >= best - 1e-7 and i in kept for i in range(n)):
        return True, f"the most likely feasible action was filtered out: unfiltered={lp0} filtered={lp}"
    if p["top_k"] > 0:
        k = min(p["top_k"], n)
        for i in kept:
            if sum(1 for j in range(n) if mask[j] and lp0[j] > lp0[i] + 1e-6) >= k:
                return True, f"top-k={k} keeps an action with >= k strictly better feasible actions: unfiltered={lp0} filtered={lp}"
    if 0 < p["top_p"] < 1:
        mass = sum(math.exp(lp0[i]) for i in kept)
        if mass < p["top_p"] - 1e-4:
            return True, f"top-p={p['top_p']} keeps only mass {mass:.5f}: unfiltered={lp0} filtered={lp}"
    if "shifted" in resp:
        ls = [_f(x) for x in resp["shifted"]]
        if any((a > -math.inf) != (b > -math.inf) or (a > -math.inf and abs(a - b) > 1e-4 * (1 + abs(a))) for a, b in zip(lp, ls)):
            return True, f"adding {p['shift']} to all logits changes the distribution: {lp} vs {ls}"
    if "greedy_assert" in resp:
        return True, "greedy selected an infeasible action: " + resp["greedy_assert"]
    if "greedy" in resp and (not mask[resp["greedy"]] or lp[resp["greedy"]] < max(lp) - 1e-6):
        return True, f"greedy returned {resp['greedy']} which is not a feasible maximiser of {lp}"
    if "sampling_error" in resp:
        return True, "sampling failed: " + resp["sampling_error"]
    if any((not mask[s]) or lp[s] == -math.inf for s in resp.get("samples", [])):
        return True, f"sampling returned an action of zero probability: {resp['samples']} for {lp}"
    return False, "all decoding properties hold numerically on the real outputs"


def confirm_witness(rp, resp):
    return True, "n/a"


def signature(c, rp, resp, text):
    return {"what": text.split(":")[0][:50]}
