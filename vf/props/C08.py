"""C08: selection environments pick exactly the quota of distinct, allowed items; bookkeeping shown to the policy is exact"""
from __future__ import annotations

from .. import confirm as CF
from . import _episodes as _E

validate, confirm_witness = _E.validate, _E.confirm_witness
TABLE = [("flp", None, 3, 4), ("mcp", None, 3, 3), ("dpp", None, 4, 9), ("mdpp", None, 4, 9)]


def plan(tier, seed):
    jobs, pairs = [], []
    for spec, variant, nq, nt in TABLE:
        sizes = [(nq, 1), (nq if spec != "mcp" else 2, 2)] if tier == "quick" else [(nq, 1), (nq if spec != "mcp" else 2, 2), (nt, 1)]
        for n, B in sizes:
            jobs.append({"id": f"C08:{spec} n={n} B={B}", "module": "vf.episodes", "func": "episode_job", "params": dict(spec=spec, variant=variant, n=n, B=B, mode="C08")})
        if spec not in ("dpp", "mdpp"):
            pairs.append((spec, variant, nq + 2))
    return {"jobs": jobs, "torch_requests": CF.rollout_requests(pairs, seed), "level": "model_checking",
            "bounds": "n items / grid cells, B<=2 rows with independent symbolic quotas, memberships (MCP: 3 items, sets of size<=2 with zero padding), keep-out layouts and probes symbolic; all mask-admitted selection orders",
            "outside": "larger instances; DPP/MDPP reward (impedance simulation on downloaded data)"}


def confirm(rp, resp):
    if rp.get("mode") == "witness":
        return False, "witness"
    if "error" in resp:
        return False, "torch side failed: " + resp["error"]
    from .. import envs as EV

    sp = EV.SPECS[rp["spec"]]
    n, variant, B = rp["n"], rp["variant"], rp["batch"][0]
    acts = rp["actions"]
    for t in range(resp["steps"]):
        for b in range(B):
            if not resp["masks"][t][b][acts[t][b]]:
                return False, f"replay diverges: action of row {b} at step {t} not admitted"
    td = CF.td_from_json(rp["td"], [B])
    rows = sp.rows_from_td(td, B, n, variant)
    for b in range(B):
        o = sp.oracle(rows[b], n, variant)
        st = o.start()
        picks = 0
        if hasattr(sp, "bookkeeping_concrete") and resp["extra"]:
            wrong = sp.bookkeeping_concrete(resp["extra"][0], resp["masks"][0], o, st, b, n)
            if wrong:
                return True, f"row {b} at reset: what the policy is shown does not follow from the instance: {wrong[0]}"
        for t in range(resp["steps"]):
            active = not resp["done"][t][b]
            o.step(st, acts[t][b], active, t)
            picks += 1
            if active and hasattr(sp, "bookkeeping_concrete") and t + 1 < len(resp["extra"]):
                wrong = sp.bookkeeping_concrete(resp["extra"][t + 1], resp["masks"][t + 1], o, st, b, n)
                if wrong:
                    return True, f"row {b} after step {t}: what the policy is shown does not follow from the selection: {wrong[0]}"
        bad = [k for k, v in st.viol.items() if v]
        if bad:
            return True, f"row {b}: mask-confined selection violates {bad}"
        if all(resp["done"][resp["steps"]]) and not o.complete(st):
            return True, f"row {b}: finished with a number of selected items different from the quota"
        quota = rows[b].get("k", getattr(o, "quota", None))
        if all(resp["done"][resp["steps"]]) and quota is not None and picks != int(quota):
            return True, f"row {b}: the environment holds {picks} selected items when the batch finishes, quota is {int(quota)} (finished row kept selecting as padding)"
    return False, "selection is valid in the real run (bookkeeping mismatch not reproduced)"


def signature(c, rp, resp, text):
    import re

    return {"env": rp.get("spec"), "what": re.sub(r"row \d+|\d+", "", text)[:50].strip(), "quotas_differ": _E.quotas_differ(rp)}
