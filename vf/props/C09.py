"""C09: improvement environments keep tours valid and best-so-far bookkeeping exact"""
from __future__ import annotations


def plan(tier, seed):
    J = lambda i, f, **p: {"id": "C09:" + i, "module": "vf.improve", "func": f, "params": p}  # noqa: E731
    jobs = [J("2-opt move n=4", "move_job", kind="kopt", n=4, k_max=2), J("2-opt move n=5", "move_job", kind="kopt", n=5, k_max=2),
            J("ruin-repair move n=4", "move_job", kind="pdp", n=4),
            J("2-opt bookkeeping n=4", "bookkeeping_job", kind="kopt", n=4, steps=2), J("ruin-repair bookkeeping n=4", "bookkeeping_job", kind="pdp", n=4, steps=2)]
    # moves drawn by the environments' own samplers (k-opt with k = 3: k sequential draws under the sampler's masks)
    jobs += [J("2-opt sampler n=4", "sampler_job", kind="kopt", n=4, k_max=2), J("3-opt sampler n=5", "sampler_job", kind="kopt", n=5, k_max=3), J("5-opt sampler n=6", "sampler_job", kind="kopt", n=6, k_max=5), J("ruin-repair sampler n=4", "sampler_job", kind="pdp", n=4)]
    if tier == "thorough":
        jobs += [J("3-opt sampler n=6", "sampler_job", kind="kopt", n=6, k_max=3), J("4-opt sampler n=6", "sampler_job", kind="kopt", n=6, k_max=4)]  # (ruin-repair sampler at n=6: the single-cycle query does not finish within the per-query timeout; not claimed)
        jobs += [J("2-opt move n=6", "move_job", kind="kopt", n=6, k_max=2), J("ruin-repair move n=6", "move_job", kind="pdp", n=6),
                 J("2-opt bookkeeping n=5", "bookkeeping_job", kind="kopt", n=5, steps=2), J("2-opt bookkeeping n=4 x3", "bookkeeping_job", kind="kopt", n=4, steps=3)]
    return {"jobs": jobs, "level": "model_checking",
            "bounds": "2-opt and ruin-repair moves on ARBITRARY valid tours with n<=6 nodes (every move admitted by the env's own mask); every move the environments' own samplers can draw (2-opt ... 5-opt, ruin-repair; n<=6); bookkeeping over 2-3 successive steps from the real reset; B=1",
            "outside": "k-exchanges chosen by the NeuOpt policy through its own internal masks (the env's sampler for k = 3, 4 IS covered); moves chosen by DACT/N2S networks beyond what the env's move mask admits; B>1"}


def validate(reqs, resps):
    return 0, [], []


def confirm(rp, resp):
    if "error" in resp:
        return False, "torch side failed: " + resp["error"]
    if rp["func"] == "run_move":
        if not resp["pre_valid"] or not resp["admitted"]:
            return False, "replay diverges: pre-state invalid or move not admitted by the real mask"
        if not resp["valid"] and rp["params"].get("sampled"):
            return True, f"on the valid tour {rp['params']['rec']}: {resp['why']}"
        if not resp["valid"]:
            return True, f"admitted move {rp['params']['action']} turns the valid tour {rp['params']['rec']} into {resp['next']}: {resp['why']}"
        return False, "real move yields a valid tour"
    if resp.get("violations"):
        return True, "; ".join(resp["violations"][:3])
    return False, "bookkeeping is exact in the real run"


def confirm_witness(rp, resp):
    return True, "n/a"


def signature(c, rp, resp, text):
    import re

    return {"env": (rp.get("params") or {}).get("kind"), "what": re.sub(r"\[[^\]]*\]|\d+(\.\d+)?", "", text)[:60]}
