"""C20: running statistics and stateful baselines are exact for any training history"""
from __future__ import annotations


def plan(tier, seed):
    jobs = []
    spec = [("welford", 2, None), ("welford", 3, 2), ("welford_first", 3, None), ("scale_norm", 2, 1), ("scale_norm", 3, 4), ("scale_scale", 2, 3),
            ("scale_int", 3, None), ("scale_none", 3, None), ("ema", 2, None), ("warmup", 2, None)]
    if tier == "thorough":
        spec += [("welford", 3, 5), ("welford", 4, 1), ("welford", 4, 7), ("welford_first", 4, None), ("scale_scale", 3, 1), ("scale_norm", 4, 2), ("ema", 3, None)]
    for case, m, n0 in spec:
        jobs.append({"id": f"C20:{case} m={m} n0={n0}", "module": "vf.training", "func": "stats_job", "params": dict(case=case, m=m, n0=n0)})
    # two-dimensional batches ([batch, n_start] advantages of multi-start training): every VALUE counts
    for case, m, n0 in [("welford", 2, 3), ("welford_first", 2, None)]:
        jobs.append({"id": f"C20:{case} m={m}x2 n0={n0}", "module": "vf.training", "func": "stats_job", "params": dict(case=case, m=m, n0=n0, cols=2)})
    return {"jobs": jobs, "level": "model_checking",
            "bounds": "one inductive step from an ARBITRARY history summarised by (n, S1, S2) with n symbolic (batches of m=2 values; m=3 with a symbolic n does not finish within the per-query timeout and is not claimed) or concrete (m<=4); EMA 3 steps with symbolic beta; warm-up n_epochs<=3",
            "outside": "total count 1 (sample standard deviation undefined); float32 rounding of the accumulators"}


def validate(reqs, resps):
    return 0, [], []


def confirm(rp, resp):
    """recompute the statistics of history + batch independently and compare with what the real RewardScaler holds"""
    from fractions import Fraction

    p = rp["params"]
    if "error" in resp:
        return True, "the real RewardScaler raised: " + resp["error"]
    if p["case"] in ("ema", "warmup"):
        return (True, "; ".join(resp["violations"][:2])) if resp.get("violations") else (False, "real baseline follows the recurrence / schedule")
    if "history" not in resp:
        return False, "no real-torch replay implemented for this case"
    xs = [float(Fraction(p["values"].get(f"x{i}", "0"))) for i in range(p["m"] * p.get("cols", 1))]
    allv = list(resp["history"]) + xs
    n = len(allv)
    mean = sum(allv) / n
    m2 = sum((v - mean) ** 2 for v in allv)
    tol = lambda a: 1e-6 * (1 + abs(a))  # noqa: E731
    if "count" in resp:
        if resp["count"] != n:
            return True, f"count {resp['count']} != number of observed values {n}"
        if abs(resp["mean"] - mean) > tol(mean):
            return True, f"running mean {resp['mean']} != mean of all observed values {mean}"
        if abs(resp["M2"] - m2) > 1e-6 * (1 + abs(m2)):
            return True, f"running M2 {resp['M2']} != sum of squared deviations {m2}"
    if "output" in resp and n >= 2:
        std = (m2 / (n - 1)) ** 0.5 + 1.1920928955078125e-07
        if p["case"] == "scale_norm":
            ref = [(x - mean) / std for x in xs]
        elif p["case"] == "scale_scale":
            ref = [x / std for x in xs]
        elif p["case"] == "scale_int":
            ref = [x / 4 for x in xs]
        else:
            ref = xs
        flat_out = [v for row in resp["output"] for v in (row if isinstance(row, list) else [row])]
        if any(abs(a - b) > 1e-5 * (1 + abs(b)) for a, b in zip(flat_out, ref)):
            return True, f"scaled output {resp['output']} != stated transformation {ref}"
    return False, "real statistics agree with the recomputation"


def confirm_witness(rp, resp):
    return True, "n/a"


def signature(c, rp, resp, text):
    return {"what": text[:40]}
