"""C18: generators emit well-formed, solvable instances within documented bounds"""
from __future__ import annotations

import re


def plan(tier, seed):
    J = lambda name, B=2, **p: {"id": f"C18:{name} {p} B={B}", "module": "vf.genjobs", "func": "gen_job", "params": dict(name=name, params=p, B=B)}  # noqa: E731
    jobs = [J("tsp", num_loc=3), J("tsp", num_loc=4, loc_distribution="cluster", n_cluster=2), J("tsp", num_loc=4, loc_distribution="mixed", n_cluster_mix=1), J("cvrp", num_loc=3), J("cvrp", num_loc=3, capacity=10.0), J("cvrp", num_loc=3, capacity=12.5), J("op", num_loc=3, prize_type="unif"), J("op", num_loc=3, prize_type="const"),
            J("pctsp", num_loc=3), J("pdp", num_loc=4), J("pdp", num_loc=3), J("mdcpdp", num_loc=4, num_depot=2), J("mdcpdp", num_loc=2, num_depot=3, depot_mode="single"), J("mtsp", num_loc=4), J("svrp", num_loc=3), J("atsp", num_loc=3), J("atsp", num_loc=3, tmat_class=False),
            J("smtwtp", num_job=3), J("ffsp", num_stage=2, num_machine=2, num_job=2), J("flp", num_loc=3, to_choose=2), J("mcp", num_items=3, num_sets=3, min_size=1, max_size=2, n_sets_to_choose=2),
            J("cvrptw", B=1, num_loc=2), J("mtvrp", num_loc=3, variant_preset="all"), J("mtvrp", num_loc=3, variant_preset="vrptw"), J("mtvrp", num_loc=3, variant_preset="ovrpbltw"), J("mtvrp", num_loc=3, variant_preset="vrptw", speed=0.75), J("mtvrp", num_loc=3, variant_preset="vrptw", speed=2.0), J("mtvrp", num_loc=3, variant_preset="single_feat"), J("mtvrp", num_loc=3, variant_preset="single_feat_otw"),
            J("dpp", B=2, size=3, num_keepout_min=1, num_keepout_max=4, max_decaps=2), J("mdpp", B=1, size=3, num_keepout_min=1, num_keepout_max=3, num_probes_min=1, num_probes_max=3, max_decaps=2),
            J("fjsp", B=1, num_jobs=2, num_machines=2, min_ops_per_job=1, max_ops_per_job=2, min_processing_time=1, max_processing_time=3), J("fjsp", B=1, num_jobs=2, num_machines=2, min_ops_per_job=1, max_ops_per_job=2, same_mean_per_op=False), J("jssp", B=1, num_jobs=2, num_machines=2)]
    if tier == "thorough":
        from ..genjobs import MTVRP_PRESETS

        jobs += [J("mtvrp", num_loc=3, variant_preset=p) for p in MTVRP_PRESETS if p not in ("vrptw", "ovrpbltw")]
        jobs += [J("tsp", num_loc=5), J("cvrp", num_loc=4, capacity=30.0), J("cvrp", num_loc=22), J("cvrptw", B=1, num_loc=3), J("cvrptw", B=1, num_loc=2, scale=True), J("cvrptw", B=1, num_loc=2, max_loc=100.0, max_time=300),
                 J("pdp", num_loc=5), J("mtsp", num_loc=5, min_num_agents=2, max_num_agents=3), J("smtwtp", num_job=5), J("ffsp", num_stage=3, num_machine=2, num_job=3),
                 J("fjsp", B=1, num_jobs=2, num_machines=3, min_ops_per_job=1, max_ops_per_job=2, min_processing_time=2, max_processing_time=5), J("fjsp", B=2, num_jobs=2, num_machines=2, min_ops_per_job=1, max_ops_per_job=2, same_mean_per_op=False),
                 J("jssp", B=2, num_jobs=2, num_machines=3), J("mcp", num_items=4, num_sets=3, min_size=1, max_size=3, n_sets_to_choose=2)]
    return {"jobs": jobs, "level": "model_checking",
            "bounds": "sizes n<=5 (one off-table CVRP size 22), B<=2; EVERY sampler outcome (each rand/randint/uniform/randperm/multinomial draw is a solver variable over its documented support); "
                      "configurations listed per job (capacity overrides, prize types, all 16 MTVRP presets in the thorough tier, scaled/unscaled CVRPTW windows, scheduling shapes)",
            "outside": "float32 rounding inside the generators (reals are exact); the gaussian-mixture and mix_distribution location samplers (cluster and mixed ARE covered); OP prize_type='dist' (division by a symbolic maximum); "
                       "solvability of generated instances is decided by C02 on instance sets that contain every generated instance (the contracts proven here)"}


def validate(reqs, resps):
    return 0, [], []


def confirm(rp, resp):
    if "error" in resp:
        return False, "torch side failed: " + resp["error"]
    p = rp["params"]
    if "raised" in resp:
        return True, f"the real generator raises on these sampler outcomes: {resp['raised']}"
    from .. import genjobs

    try:
        bad = genjobs.check_concrete(p["name"], p["params"], p["B"], resp["td"])
    except RuntimeError as e:
        return False, str(e)
    if bad:
        return True, f"real generator output violates: {bad[0]}"
    return False, "real generator output satisfies the documented contract for these sampler outcomes"


def confirm_witness(rp, resp):
    return True, "n/a"


def signature(c, rp, resp, text):
    p = rp.get("params") or {}
    return {"generator": p.get("name"), "what": re.sub(r"\d+(\.\d+)?", "", text)[:60]}
