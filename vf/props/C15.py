"""C15: augmentation preserves costs; evaluation reports true best-of-k results"""
from __future__ import annotations


def plan(tier, seed):
    J = lambda i, f, **p: {"id": "C15:" + i, "module": "vf.evaljobs", "func": f, "params": p}  # noqa: E731
    jobs = [J("dihedral8 B=2", "augment_job", fn="dihedral8", k=8, B=2), J("symmetric k=2 B=2", "augment_job", fn="symmetric", k=2, B=2),
            J("symmetric k=3 B=1", "augment_job", fn="symmetric", k=3, B=1), J("loader N=3 bs=2", "loader_job", N=3, batch_size=2, n=3),
            J("loader N=4 bs=2 lengths 2,4", "loader_job", N=4, batch_size=2, n=3, lengths=[2, 4]), J("loader N=5 bs=2 lengths 3,2,4", "loader_job", N=5, batch_size=2, n=3, lengths=[3, 2, 4]),
            J("dihedral8 B=2 first copy augmented too", "augment_job", fn="dihedral8", k=8, B=2, first_aug_identity=False),
            J("symmetric k=2 B=2 first copy augmented too", "augment_job", fn="symmetric", k=2, B=2, first_aug_identity=False)]
    for m in ("greedy", "augment", "multistart"):
        jobs.append(J(f"eval {m} B=2", "eval_job", method=m, B=2, k=2, S=2, n=3))
    jobs.append(J("eval multistart_augment B=1", "eval_job", method="multistart_augment", B=1, k=2, S=2, n=3))
    if tier == "thorough":
        jobs += [J("symmetric k=4 B=2", "augment_job", fn="symmetric", k=4, B=2), J("dihedral8 B=1", "augment_job", fn="dihedral8", k=8, B=1),
                 J("loader N=5 bs=2", "loader_job", N=5, batch_size=2, n=3), J("loader N=4 bs=4", "loader_job", N=4, batch_size=4, n=3), J("loader N=3 bs=5", "loader_job", N=3, batch_size=5, n=3),
                 J("eval multistart_augment B=2", "eval_job", method="multistart_augment", B=2, k=2, S=2, n=3), J("eval augment k=3", "eval_job", method="augment", B=2, k=3, S=2, n=3),
                 J("eval multistart S=3", "eval_job", method="multistart", B=2, k=2, S=3, n=3)]
    return {"jobs": jobs, "level": "model_checking",
            "bounds": "augmentation: B<=2 instances of 2 points, k<=8 copies, all coordinates and rotation angles symbolic (exact polynomial encoding); evaluation: B<=2 per loader batch, k,S<=3, TSP n=3, candidate action sequences arbitrary symbolic permutations; loaders with a final partial batch and with batches of different solution length",
            "outside": "SamplingEval (its selection happens inside the policy: see C11/C12 best-selection); other environments' rewards (C03)"}


def validate(reqs, resps):
    return 0, [], []


def confirm(rp, resp):
    if "error" in resp:
        return False, "torch side failed: " + resp["error"]
    if resp.get("violations"):
        return True, "; ".join(resp["violations"][:2])
    return False, "not reproduced on real torch"


def confirm_witness(rp, resp):
    return True, "n/a"


def signature(c, rp, resp, text):
    import re

    sig = {"what": re.sub(r"\d+(\.\d+)?", "", text)[:60], "first_aug_identity": (rp.get("params") or {}).get("first_aug_identity", True)}
    m = re.search(r"copy (\d+) of instance (\d+)", text)
    if m and not sig["first_aug_identity"]:
        sig.update(copy=int(m.group(1)), instance=int(m.group(2)))
    return sig
