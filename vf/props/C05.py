"""C05: the mask never hides a feasible solution (canonical-witness formulation, DESIGN.md 3/C05)"""
from __future__ import annotations

import re

from .. import confirm as CF
from .. import envs as EV
from . import _episodes as _E

validate = _E.validate

TABLE = [
    ("tsp", None, 4, 5), ("atsp", None, 4, 5), ("cvrp", None, 3, 4), ("sdvrp", None, 2, 3), ("op", None, 3, 4), ("pctsp", None, 3, 4),
    ("spctsp", None, 3, 4), ("pdp", "free", 4, 6), ("pdp", "depot", 4, 6), ("mtsp", "minmax", 3, 4), ("svrp", None, 3, 4), ("cvrptw", None, 2, 3),
] + [("mtvrp", v, 2, 3) for v in ("", "O", "B", "L", "TW", "OTW", "OB", "OL", "BL", "BTW", "LTW", "OBL", "OBTW", "OLTW", "BLTW", "OBLTW")] + [("mtvrp", "TW@2", 2, 3)] + [("flp", None, 3, 4), ("mcp", None, 3, 3), ("smtwtp", None, 3, 4)]


def plan(tier, seed):
    jobs, pairs = [], []
    for spec, variant, nq, nt in TABLE:
        for n in ([nq] if tier == "quick" else sorted({nq, nt})):
            if spec == "mtvrp" and n > nq and "TW" in (variant or ""):
                continue  # time-window variants at n=3: the reachability queries run close to / beyond the per-query timeout (not claimed)
            jobs.append({"id": f"C05:{spec}[{variant}] n={n}", "module": "vf.episodes", "func": "reach_job", "params": dict(spec=spec, variant=variant, n=n)})
        pairs.append((spec, variant, nq + 2))
    # exact-fill clause in bit-precise float32 (capacities of the library's own table: 20 = CVRP10, 30 = CVRP20, ...)
    fp = [("cvrp", 3, 17), ("cvrp", 4, 30)] if tier == "quick" else [("cvrp", 3, 17)] + [("cvrp", 4, c) for c in (20, 25, 30, 33)] + [("cvrp", 5, c) for c in (30, 33, 37, 40)]
    for e, n, c in fp:
        jobs.append({"id": f"C05:float32 exact fill {e} n={n} capacity={c}", "module": "vf.fpjobs", "func": "exact_fill_job", "params": dict(env_name=e, n=n, capacities=[c])})
    return {
        "jobs": jobs, "torch_requests": CF.rollout_requests(pairs, seed), "level": "model_checking",
        "bounds": "n customers, all instance data symbolic; the action sequence ranges over ALL oracle-feasible canonical solutions of length <= step bound",
        "outside": "sizes above the bounds; FFSP; float32 rounding except the dedicated exact-fill jobs (CVRP capacity mask in bit-precise float32: integer demands 1..9, capacities 17/20/25/30/33/37/40, n<=5 customers, every route prefix)",
    }


def confirm(rp, resp):
    if rp.get("mode") == "witness":
        return False, "witness"
    if "error" in resp:
        return False, "torch side failed: " + resp["error"]
    if rp.get("mode") == "fp":
        # integer ground truth: replay the route, then look for an unvisited customer that fits but is masked
        d, c, load, seen = rp["int_demands"], rp["capacity"], 0, set()
        for t, a in enumerate(rp["actions"]):
            if t >= resp["steps"] or not resp["masks"][t][0][a[0]]:
                return False, "replay diverges: the real mask refuses the route prefix itself"
            if a[0] == 0:
                load = 0
            else:
                load += d[a[0] - 1]
                seen.add(a[0])
        last = resp["masks"][len(rp["actions"])][0]
        for j in range(1, len(d) + 1):
            if j not in seen and load + d[j - 1] <= c and not last[j]:
                return True, (f"float32 mask hides customer {j} after the route {[a[0] for a in rp['actions']]}: integer demands {d}, capacity {c}, load {load} + {d[j - 1]} "
                              f"{'=' if load + d[j - 1] == c else '<'} {c}")
        return False, "the real float32 mask offers every customer that fits"
    sp = EV.SPECS[rp["spec"]]
    n, variant = rp["n"], rp["variant"]
    acts = rp["actions"]
    # the sequence must be oracle-feasible on the concrete instance ...
    td = CF.td_from_json(rp["td"], [1])
    rows = sp.rows_from_td(td, 1, n, variant)
    from ..episodes import DOC_MARGIN

    EV.MARGIN[0] = -1e-6 if rp["spec"] in DOC_MARGIN else 0.0
    try:
        o = sp.oracle(rows[0], n, variant)
        st = o.start()
        for t, a in enumerate(acts):
            o.step(st, a[0], not o.complete(st), t)
        bad = [k for k, v in st.viol.items() if v]
    finally:
        EV.MARGIN[0] = 0.0
    if bad:
        return False, f"the prefix is not oracle-feasible on the rounded instance ({bad})"
    # ... and the real mask must refuse one of its actions (or the env ends early / late)
    for t in range(min(resp["steps"], len(acts))):
        if not resp["masks"][t][0][acts[t][0]]:
            return True, f"the real mask hides action {acts[t][0]} at step {t} of the feasible solution prefix {[a[0] for a in acts]}"
    if resp["steps"] < len(acts):
        return True, f"the real environment reports done after {resp['steps']} steps although the solution {[a[0] for a in acts]} is incomplete"
    if "step_error" in resp:
        return True, "real env raised: " + resp["step_error"]
    return False, "the real mask offers every action of the prefix"


def confirm_witness(rp, resp):
    return _E.confirm_witness(rp, resp) if resp.get("steps") == len(rp["actions"]) and all(resp["done"][resp["steps"]]) else (True, "prefix witness")


def signature(c, rp, resp, text):
    if rp.get("mode") == "fp":
        return {"env": rp.get("spec"), "what": "float32 exact fill" if " = " in text else "float32 mask hides a customer that fits with room to spare"}
    return {"env": rp.get("spec"), "variant": rp.get("variant"), "what": re.sub(r"\[[^\]]*\]|\d+", "", text)[:60].strip()}
