"""C14 (restricted claim): inference is per-instance for the attention-model policy family"""
from __future__ import annotations

ENVS = ("tsp", "cvrp", "sdvrp", "op", "pctsp", "spctsp", "cvrptw", "pdp", "mtsp", "svrp", "mtvrp")


def plan(tier, seed):
    jobs = []
    for e in ENVS:
        n = 4 if e == "pdp" else 3
        norms = ("batch",) if tier == "quick" and e not in ("tsp", "cvrp") else ("batch", "instance", "layer")
        for norm in norms:
            jobs.append({"id": f"C14:am {e} n={n} norm={norm}", "module": "vf.am", "func": "am_job",
                         "params": dict(env_name=e, n=n, norm=norm, compositions=["XY", "YX"] if tier == "quick" else ["XY", "YX", "XXY", "YXX"])})
    # MTVRP batches that mix variants (what the 'all' preset produces): X with time windows next to Y without, and the other way round
    for v in ("mix:TW/", "mix:/TW") + (("mix:OBLTW/L", "mix:B/OTW") if tier == "thorough" else ()):
        jobs.append({"id": f"C14:am mtvrp[{v}] n=3 norm=batch", "module": "vf.am", "func": "am_job", "params": dict(env_name="mtvrp", n=3, norm="batch", variant=v, compositions=["XY", "YX"])})
    # multi-start decoding: the decoder regroups its cache / the state between [B*S] and [B, S] (shared embeddings) or
    # replicates the cache (dynamic embeddings: SDVRP); row = start * B + instance
    # (mTSP is left out: MTSPContext._distance_from_depot gathers along the start dimension of the regrouped state and raises for
    #  EVERY batch size under multi-start decoding -- a missing feature rather than a batch-composition effect)
    for e in (("tsp", "sdvrp") if tier == "quick" else [x for x in ENVS if x != "mtsp"]):
        n = 4 if e == "pdp" else 3
        jobs.append({"id": f"C14:am {e} n={n} multistart S=2", "module": "vf.am", "func": "am_job",
                     "params": dict(env_name=e, n=n, norm="batch", num_starts=2, compositions=["XY", "YX"] if tier == "quick" else ["XY", "YX", "XXY"])})
    return {"jobs": jobs, "level": "model_checking",
            "bounds": "AttentionModelPolicy (embed_dim 8, 1 head, 1 encoder layer; batch / instance / layer normalisation in eval mode) on 11 routing environments, n=3-4 nodes, batch compositions [X], [X,Y], [Y,X], [X,X,Y], [Y,X,X] with symbolic instances and symbolic forced action prefixes; single-start and multi-start (S=2 forced starts per instance) decoding",
            "outside": "numerical equality of float kernels; every other policy family (PointerNetwork, MatNet, HAM, MDAM, PolyNet, L2D/HGNN, MoE variants) is NOT executed and NOT claimed: their forward passes are float tensor algebra whose data-flow skeleton was not brought under the opaque-arithmetic stand-in",
            "evidence": {"explanation_of_solver_role": "in opaque-arithmetic mode the logits of X are z3 terms over uninterpreted layer functions; for per-instance code the terms of X in every batch composition are IDENTICAL, so the equalities fold before a query; a leak (e.g. a statistic over the batch) makes them differ and the disequality is satisfiable"}}


def validate(reqs, resps):
    return 0, [], []


def confirm(rp, resp):
    if "error" in resp:
        return False, "torch side failed: " + resp["error"]
    if resp.get("violations"):
        return True, "; ".join(resp["violations"][:2])
    return False, "not reproduced on real torch (6 seeds)"


def confirm_witness(rp, resp):
    return True, "n/a"


def signature(c, rp, resp, text):
    return {"env": (rp.get("params") or {}).get("env"), "what": text[:40]}
