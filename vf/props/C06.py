"""C06: shipped solution checkers vs the independent ground truth"""
from __future__ import annotations

import re

from .. import checkers as CK
from .. import confirm as CF
from .. import envs as EV
from . import _episodes as _E

validate = _E.validate

TABLE = [
    ("tsp", None, 3, 4), ("atsp", None, 3, 4), ("cvrp", None, 3, 4), ("sdvrp", None, 2, 3), ("op", None, 3, 4), ("pctsp", None, 3, 4),
    ("spctsp", None, 3, 3), ("pdp", "free", 4, 4), ("pdp", "depot", 4, 4), ("svrp", None, 3, 3), ("cvrptw", None, 2, 3),
] + [("mtvrp", v, 2, 3) for v in ("", "O", "B", "L", "TW", "OBLTW")]
TABLE_T = [("mtvrp", v, 2, 3) for v in ("OTW", "OB", "OL", "BL", "BTW", "LTW", "OBL", "OBTW", "OLTW", "BLTW")]


def plan(tier, seed):
    jobs, pairs = [], []
    table = TABLE if tier == "quick" else TABLE + TABLE_T
    for spec, variant, nq, nt in table:
        for n in ([nq] if tier == "quick" else sorted({nq, nt})):
            Ls = CK.lengths(spec, n, variant)
            for L in (Ls[:2] if tier == "quick" else Ls):
                for B in ([1] if tier == "quick" else [1, 2]):
                    if B == 2 and n > nq:
                        continue
                    jobs.append({"id": f"C06:checker {spec}[{variant}] n={n} L={L} B={B}", "module": "vf.checkers", "func": "checker_job",
                                 "params": dict(spec=spec, variant=variant, n=n, L=L, B=B)})
            jobs.append({"id": f"C06:mask-generated {spec}[{variant}] n={n}", "module": "vf.checkers", "func": "mask_solutions_accepted_job",
                         "params": dict(spec=spec, variant=variant, n=n)})
        pairs.append((spec, variant, nq + 2))
    IMPROVE_READY = True
    if IMPROVE_READY:
        jobs.append({"id": "C06:improvement checkers", "module": "vf.improve", "func": "improvement_checker_job", "params": dict(n=4 if tier == "quick" else 5)})
    return {
        "jobs": jobs, "torch_requests": CF.rollout_requests(pairs, seed), "level": "model_checking",
        "bounds": "n customers, arbitrary action vectors of length L (every value in range, duplicates / omissions / any order), B rows; plus all mask-generated solutions at size n",
        "outside": "longer vectors; float32 rounding below the 1e-4 band between 'accepted' and 'violated'",
    }


def confirm(rp, resp):
    if rp.get("mode") == "witness":
        return False, "witness"
    if "error" in resp:
        return False, "torch side failed: " + resp["error"]
    if rp.get("mode") == "C06m":
        B = rp["batch"][0]
        for t in range(resp["steps"]):
            for b in range(B):
                if not resp["masks"][t][b][rp["actions"][t][b]]:
                    return False, f"replay diverges: action of row {b} at step {t} not admitted by the real mask"
        if not all(resp["done"][resp["steps"]]):
            return False, "real episode did not finish"
        if resp.get("checker", "accept") != "accept":
            return True, f"the real checker refuses a mask-generated solution: {resp['checker']}"
        return False, "real checker accepts"
    if rp.get("mode") == "C06i":
        from .. import improve

        return improve.confirm_checker(rp, resp)
    # arbitrary vector: compare the real verdict with the concrete oracle
    sp = EV.SPECS[rp["spec"]]
    n, variant, B, L = rp["n"], rp["variant"], rp["batch"][0], rp["L"]
    real = resp["checker"]
    td = CF.td_from_json(rp["td"], [B])
    rows = sp.rows_from_td(td, B, n, variant)
    acc = real == "accept"
    if real.startswith("error"):
        return True, f"the real checker crashes: {real}"
    try:
        if acc:
            for b in range(B):
                comp, hard, _s, st = CK.run_oracle(sp, rows[b], n, variant, rp["actions"][b], 5e-5, L - 1)
                if not comp:
                    return True, f"checker ACCEPTS {rp['actions'][b]} although the solution is incomplete"
                if hard:
                    return True, f"checker ACCEPTS {rp['actions'][b]} although it violates {[k for k, v in st.viol.items() if v and not k.startswith('canonical:')]}"
            return False, "real checker accepts and the oracle agrees"
        ok = True
        for b in range(B):
            comp, _h, soft, st = CK.run_oracle(sp, rows[b], n, variant, rp["actions"][b], 1e-6, L - 1)
            ok = ok and comp and not soft
        if ok:
            return True, f"checker REJECTS ({real}) the feasible solution {rp['actions']}"
        return False, "real checker rejects and the oracle agrees"
    finally:
        EV.MARGIN[0] = 0.0


def confirm_witness(rp, resp):
    if "error" in resp:
        return False, resp["error"]
    if rp.get("kind") == "checker":
        return (resp.get("checker") == "accept"), f"witness verdict {resp.get('checker')}"
    if "checker" in resp and resp["checker"] != "accept":
        return False, f"witness rejected by the real checker: {resp['checker']}"
    return _E.confirm_witness(rp, resp)


def signature(c, rp, resp, text):
    what = re.sub(r"\[[^\]]*\]|\d+(\.\d+)?", "", text)[:70].strip()
    return {"env": rp.get("spec"), "variant": rp.get("variant"), "what": what}
