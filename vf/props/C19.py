"""C19 (restricted claim): persistence round trips -- FJSP text writer/reader, JSSP reader, npz save/load, load_data"""
from __future__ import annotations

import re


def plan(tier, seed):
    J = lambda i, f, **p: {"id": "C19:" + i, "module": "vf.persistjobs", "func": f, "params": p}  # noqa: E731
    jobs = [J("fjsp text [2,1]+[1,1] m=2", "text_job", shapes=[[2, 1], [1, 1]], NM=2), J("fjsp text single file", "text_job", shapes=[[1, 2]], NM=2),
            J("jssp read 2x2", "jssp_read_job", NJ=2, NM=2), J("jssp read 2x2 padded", "jssp_read_job", NJ=2, NM=2, max_ops=6),
            J("npz generic", "npz_job", case="generic"), J("npz cvrp load_data", "npz_job", case="cvrp"), J("npz mtvrp load_data", "npz_job", case="mtvrp"), J("npz cvrp load_data bit-exact", "npz_job", case="cvrp_bits", B=2, n=1), J("dataset file naming (check_extension)", "crosshair_job", func="check_extension", maxlen=7)]
    if tier == "thorough":
        jobs += [J("fjsp text [1,1]+[2,2] m=2", "text_job", shapes=[[1, 1], [2, 2]], NM=2), J("fjsp text [2,1] m=3", "text_job", shapes=[[2, 1]], NM=3),
                 J("fjsp text [1,1,1]+[1,2,1] m=2", "text_job", shapes=[[1, 1, 1], [1, 2, 1]], NM=2), J("jssp read 3x2", "jssp_read_job", NJ=3, NM=2), J("jssp read 2x3", "jssp_read_job", NJ=2, NM=3),
                 J("npz generic B=1", "npz_job", case="generic", B=1, n=3), J("npz cvrp load_data B=3", "npz_job", case="cvrp", B=3, n=2)]
    return {"jobs": jobs, "level": "model_checking",
            "bounds": "FJSP text round trip (env.reset -> parser.write -> FJSPFileGenerator -> batch): <=2 instances of <=3 jobs / <=5 operations / <=3 machines, every eligibility pattern (forked), every duration (solver integers), "
                      "both directory-listing orders; JSSP reader on 2-3 jobs x 2-3 machines with every machine assignment and duration; npz save/load and CVRP / MTVRP load_data on B<=3 symbolic batches (loaded twice); dataset file naming (check_extension) on every name of length <= 7 (CrossHair, symbolic str)",
            "outside": "deep copy / pickling of environments (torch.Generator state), Lightning checkpoint save / restore incl. baselines, generate_data.py (numpy RNG code), the bytes written by np.savez (contract stub), "
                       "text-level formatting of numbers (contract int(str(i)) == i; float-formatted durations in files are outside)"}


def validate(reqs, resps):
    return 0, [], []


def confirm(rp, resp):
    if "error" in resp:
        return False, "torch side failed: " + resp["error"]
    if resp.get("violations"):
        return True, "; ".join(resp["violations"][:2])
    return False, "not reproduced on real torch"


def confirm_witness(rp, resp):
    return True, "n/a"


def signature(c, rp, resp, text):
    return {"func": rp.get("func"), "what": re.sub(r"\[[^\]]*\]|\d+(\.\d+)?", "", text)[:60]}
