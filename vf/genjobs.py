"""C18: generators emit well-formed instances within documented bounds.  Every real `_generate` runs with the
sampler stubs of symtorch (each `rand / randint / Uniform.sample / randperm / multinomial` returns fresh solver
variables constrained to the documented support), i.e. over EVERY sampler outcome at the given sizes."""
from __future__ import annotations

import math

import numpy as np
import z3

from symtorch import dist as DS
from symtorch import explore, world
from symtorch import tensor as T
from symtorch.scalar import XR, _bool, _real, is_sym, s_and, s_eq, s_ge, s_gt, s_le, s_lt, s_not, s_or
from symtorch.tdict import TensorDict

from . import core
from .oracle import all_, any_


def _vals(t):
    return list(t.a.reshape(-1))


def _in(t, lo, hi, strict_hi=False):
    return all_([s_and(s_ge(x, lo), (s_lt(x, hi) if strict_hi else s_le(x, hi))) for x in _vals(t)])


def _shape(td, key, shape, dtype=None):
    return key in td.keys() and tuple(td[key].shape) == tuple(shape) and (dtype is None or td[key].dtype is dtype)


def gen_job(job_id, name, params=None, B=2, source_filter=None):
    E = explore.EXP
    ctx = core.Ctx(job_id)
    w = world.make_world(source_filter=source_filter)
    params = dict(params or {})
    ctx.bounds = {"generator": name, "params": params, "B": B}
    ctx.stubs.add("samplers (rand, randint, Uniform/Normal.sample, randperm, multinomial): fresh variables constrained to the documented support (every outcome)")

    def cexb(E_, neg):
        return [{"kind": "script", "path": core.ROOT + "/vf/torch_side", "module": "gen_side", "func": "run_gen", "model_kind": "plain", "mode": "C18",
                 "params": {"name": name, "params": params, "B": B}}]

    def P(nm, cond):
        ctx.prove(E, f"[{name} {params}] {nm}", cond, cexb)

    def harness():
        DS.FULL_SANDWICH = True
        n = params.get("num_loc", 3)
        if name == "tsp":
            g = w.load("rl4co.envs.routing.tsp.generator").TSPGenerator(**params)
            td = g([B])
            P("keys / shapes / dtypes", _shape(td, "locs", (B, n, 2), T.float32))
            P("coordinates within [min_loc, max_loc]", _in(td["locs"], g.min_loc, g.max_loc))
        elif name == "cvrp":
            g = w.load("rl4co.envs.routing.cvrp.generator").CVRPGenerator(**params)
            td = g([B])
            P("keys / shapes / dtypes", _shape(td, "locs", (B, n, 2), T.float32) and _shape(td, "depot", (B, 2), T.float32) and _shape(td, "demand", (B, n), T.float32) and _shape(td, "capacity", (B, 1)))
            P("coordinates within bounds", s_and(_in(td["locs"], g.min_loc, g.max_loc), _in(td["depot"], g.min_loc, g.max_loc)))
            cap = g.capacity
            P("demand is an integer in [min_demand, max_demand] divided by the capacity, never above the vehicle capacity",
              all_([s_and(any_([s_eq(x, k / cap) if False else s_eq(T.s_mul(x, cap), float(k)) for k in range(g.min_demand, g.max_demand + 1)]), s_and(s_gt(x, 0), s_le(x, g.vehicle_capacity))) for x in _vals(td["demand"])]))
            P("capacity column holds the capacity used for normalisation", all_([s_eq(x, cap) for x in _vals(td["capacity"])]))
        elif name == "op":
            g = w.load("rl4co.envs.routing.op.generator").OPGenerator(**params)
            td = g([B])
            P("keys / shapes", _shape(td, "locs", (B, n, 2)) and _shape(td, "depot", (B, 2)) and _shape(td, "prize", (B, n)) and _shape(td, "max_length", (B,)))
            P("prizes in (0, 1]", all_([s_and(s_gt(x, 0), s_le(x, 1)) for x in _vals(td["prize"])]))
            P("max_length positive", all_([s_gt(x, 0) for x in _vals(td["max_length"])]))
        elif name == "pctsp":
            g = w.load("rl4co.envs.routing.pctsp.generator").PCTSPGenerator(**params)
            td = g([B])
            P("keys / shapes", all(_shape(td, k, (B, n)) for k in ("penalty", "deterministic_prize", "stochastic_prize")) and _shape(td, "locs", (B, n, 2)) and _shape(td, "depot", (B, 2)))
            P("prizes and penalties non-negative", all_([s_ge(x, 0) for k in ("penalty", "deterministic_prize", "stochastic_prize") for x in _vals(td[k])]))
            P("expected total prize of all nodes can reach the requirement: deterministic prize <= 4/n each", all_([s_le(x, 4.0 / n) for x in _vals(td["deterministic_prize"])]))
        elif name == "pdp":
            g = w.load("rl4co.envs.routing.pdp.generator").PDPGenerator(**params)
            td = g([B])
            nn = g.num_loc
            P("number of locations is even (pickups paired with deliveries)", nn % 2 == 0 and _shape(td, "locs", (B, nn, 2)) and _shape(td, "depot", (B, 2)))
            P("coordinates within bounds", _in(td["locs"], g.min_loc, g.max_loc))
        elif name == "mtsp":
            g = w.load("rl4co.envs.routing.mtsp.generator").MTSPGenerator(**params)
            td = g([B])
            P("keys / shapes", _shape(td, "locs", (B, n, 2)) and _shape(td, "num_agents", (B,), T.int64))
            P("number of agents within [min_num_agents, max_num_agents]", _in(td["num_agents"], g.min_num_agents, g.max_num_agents))
        elif name == "svrp":
            g = w.load("rl4co.envs.routing.svrp.generator").SVRPGenerator(**params)
            td = g([B])
            K = g.num_tech
            P("keys / shapes", _shape(td, "techs", (B, K, 1)) and _shape(td, "skills", (B, n, 1)) and _shape(td, "locs", (B, n, 2)) and _shape(td, "depot", (B, 2)))
            P("technician levels ascending within [min_skill, max_skill]", all_([s_and(_in(td["techs"], g.min_skill, g.max_skill), all_([s_le(td["techs"].a[b, k, 0], td["techs"].a[b, k + 1, 0]) for k in range(K - 1)])) for b in range(B)]))
            P("every customer can be served by the most skilled technician", all_([s_and(s_ge(td["skills"].a[b, j, 0], 0), s_le(td["skills"].a[b, j, 0], td["techs"].a[b, K - 1, 0])) for b in range(B) for j in range(n)]))
        elif name == "atsp":
            g = w.load("rl4co.envs.routing.atsp.generator").ATSPGenerator(**params)
            td = g([B])
            C = td["cost_matrix"].a
            P("shape", _shape(td, "cost_matrix", (B, n, n)))
            P("non-negative costs, zero diagonal", all_([s_and(s_ge(C[b, i, j], 0), (s_eq(C[b, i, i], 0))) for b in range(B) for i in range(n) for j in range(n)]))
            if g.tmat_class:
                P("triangle inequality C[i][j] <= C[i][k] + C[k][j] (tmat_class)", all_([s_le(C[b, i, j], T.s_add(C[b, i, k], C[b, k, j])) for b in range(B) for i in range(n) for j in range(n) for k in range(n)]))
        elif name == "smtwtp":
            g = w.load("rl4co.envs.scheduling.smtwtp.generator").SMTWTPGenerator(**params)
            td = g([B])
            nj = g.num_job
            P("keys / shapes", all(_shape(td, k, (B, nj + 1)) for k in ("job_due_time", "job_weight", "job_process_time")))
            P("dummy start job (index 0) has zero due time / weight / processing time", all_([s_eq(td[k].a[b, 0], 0) for k in ("job_due_time", "job_weight", "job_process_time") for b in range(B)]))
            P("values non-negative", all_([s_ge(x, 0) for k in ("job_due_time", "job_weight", "job_process_time") for x in _vals(td[k])]))
        elif name == "ffsp":
            g = w.load("rl4co.envs.scheduling.ffsp.generator").FFSPGenerator(**params)
            td = g([B])
            P("shape", _shape(td, "run_time", (B, g.num_job, g.num_machine_total)))
            P("run times within [min_time, max_time) and positive", s_and(_in(td["run_time"], g.min_time, g.max_time, strict_hi=True), all_([s_ge(x, 1) for x in _vals(td["run_time"])])))
        elif name == "flp":
            g = w.load("rl4co.envs.graph.flp.generator").FLPGenerator(**params)
            td = g([B])
            P("keys / shapes", _shape(td, "locs", (B, n, 2)) and _shape(td, "orig_distances", (B, n, n)) and _shape(td, "distances", (B, n)) and _shape(td, "chosen", (B, n), T.bool_) and _shape(td, "to_choose", (B,), T.int64))
            P("nothing chosen initially, quota as configured and not above the number of locations", s_and(all_([s_not(x) for x in _vals(td["chosen"])]), all_([s_and(s_eq(x, g.to_choose), s_le(x, n)) for x in _vals(td["to_choose"])])))
            D = td["orig_distances"].a
            P("orig_distances is symmetric with zero diagonal", all_([s_and(s_eq(D[b, i, j], D[b, j, i]), s_eq(D[b, i, i], 0)) for b in range(B) for i in range(n) for j in range(n)]))
        elif name == "mcp":
            g = w.load("rl4co.envs.graph.mcp.generator").MCPGenerator(**params)
            td = g(B)
            ns, ni = g.num_sets, g.num_items
            ok = _shape(td, "weights", (B, ni)) and _shape(td, "n_sets_to_choose", (B, 1)) and "membership" in td.keys() and tuple(td["membership"].shape[:2]) == (B, ns)
            P("keys / shapes", ok)
            if ok:
                M = td["membership"].a
                P("membership ids are integers in [0, num_items]; non-zero ids distinct within a set", all_([s_and(s_and(s_ge(M[b, s, p], 0), s_le(M[b, s, p], ni)), all_([s_or(s_eq(M[b, s, p], 0), T.s_ne(M[b, s, p], M[b, s, q])) for q in range(p + 1, M.shape[2])])) for b in range(B) for s in range(ns) for p in range(M.shape[2])]))
                P("weights within [min_weight, max_weight]", _in(td["weights"], g.min_weight, g.max_weight))
        elif name == "cvrptw":
            from symtorch import scalar as SC

            # (upper_bound - dist) * rand: the product with a sampler value in [0,1) is an opaque function bounded by its other factor
            SC.OPAQUE_MUL[0] = True
            SC.MULC_APPS.clear()
            g = w.load("rl4co.envs.routing.cvrptw.generator").CVRPTWGenerator(**params)
            orig_rand = T.rand

            def rand_with_bounds(*a, **k):
                t = orig_rand(*a, **k)
                return t

            td = g([B])
            SC.OPAQUE_MUL[0] = False
            for ax in SC.unit_factor_axioms(lambda t_: z3.is_const(t_) and str(t_).startswith("rand!")):
                E.assume(ax)
            ctx.stubs.add("symbolic*rand products in the CVRPTW generator: opaque function with |a*t| <= |a|, sign of a (t in [0,1))")
            tw, dur = td["time_windows"].a, td["durations"].a
            scale = g.max_time if g.scale else 1.0
            P("keys / shapes", _shape(td, "time_windows", (B, n + 1, 2)) and _shape(td, "durations", (B, n + 1)))
            X0, Y0 = td["depot"].a[:, 0], td["depot"].a[:, 1]
            conds = []
            for b in range(B):
                conds.append(s_and(s_eq(tw[b, 0, 0], 0), s_eq(T.s_mul(tw[b, 0, 1], scale) if g.scale else tw[b, 0, 1], g.max_time)))
                for j in range(1, n + 1):
                    d0 = DS.norm2(T.s_sub(X0[b], td["locs"].a[b, j - 1, 0]), T.s_sub(Y0[b], td["locs"].a[b, j - 1, 1]))
                    e, l, s_ = tw[b, j, 0], tw[b, j, 1], dur[b, j]
                    conds.append(s_and(s_and(s_ge(e, 0), s_lt(e, l)), s_and(s_ge(s_, 0), s_and(s_le(d0, T.s_mul(l, scale) if g.scale else l), s_le(T.s_add(T.s_add(l, s_), d0) if not g.scale else T.s_add(T.s_mul(T.s_add(l, s_), scale), d0), g.max_time)))))
            P("windows ordered, non-negative, reachable from the depot and leaving time to return before the depot closes", all_(conds))
        elif name == "mtvrp":
            g = w.load("rl4co.envs.routing.mtvrp.generator").MTVRPGenerator(**params)
            td = g([B])
            env = w.load("rl4co.envs.routing.mtvrp.env").MTVRPEnv
            keys = ("locs", "demand_backhaul", "demand_linehaul", "distance_limit", "time_windows", "service_time", "vehicle_capacity", "capacity_original", "open_route", "speed")
            P("documented keys present", all(k in td.keys() for k in keys))
            preset = params.get("variant_preset")
            want = {"cvrp": "", "ovrp": "O", "vrpb": "B", "vrpl": "L", "vrptw": "TW", "ovrptw": "OTW", "ovrpb": "OB", "ovrpl": "OL", "vrpbl": "BL", "vrpbtw": "BTW", "vrpltw": "LTW",
                    "ovrpbl": "OBL", "ovrpbtw": "OBTW", "ovrpltw": "OLTW", "vrpbltw": "BLTW", "ovrpbltw": "OBLTW"}.get(preset)
            dl, db = td["demand_linehaul"].a, td["demand_backhaul"].a
            P("depot has no demand; each customer is either linehaul or backhaul; demands within (0, capacity]",
              all_([s_and(s_and(s_eq(dl[b, 0], 0), s_eq(db[b, 0], 0)), all_([s_and(s_or(s_eq(dl[b, j], 0), s_eq(db[b, j], 0)), s_and(s_gt(T.s_add(dl[b, j], db[b, j]), 0), s_le(T.s_add(dl[b, j], db[b, j]), 1))) for j in range(1, n + 1)])) for b in range(B)]))
            if want is not None:
                O_, TW_, L_, B_ = "O" in want, "TW" in want, "L" in want.replace("TW", ""), "B" in want
                P(f"preset {preset}: open_route flag", all_([s_eq(x, O_) for x in _vals(td["open_route"])]))
                P(f"preset {preset}: distance limit {'finite' if L_ else 'infinite'}", all_([(T.s_isfinite(x) if L_ else T.s_isinf(x)) for x in _vals(td["distance_limit"])]))
                P(f"preset {preset}: time windows {'present' if TW_ else 'absent ([0, inf], no service time)'}",
                  all_([(T.s_isfinite(td["time_windows"].a[b, j, 1]) if TW_ else s_and(T.s_isinf(td["time_windows"].a[b, j, 1]), s_eq(td["service_time"].a[b, j], 0))) for b in range(B) for j in range(1, n + 1)]))
                if not B_:
                    P(f"preset {preset}: no backhaul demand", all_([s_eq(x, 0) for x in _vals(td["demand_backhaul"])]))
        else:
            raise ValueError(name)
        E.obligations = []
        ctx.states += 1
        ctx.transitions += 1

    try:
        E.run(harness)
    except explore.Inconclusive as e:
        return ctx.result(E, w, status="inconclusive", error=str(e))
    finally:
        DS.FULL_SANDWICH = False
        from symtorch import scalar as SC2

        SC2.OPAQUE_MUL[0] = False
    if not ctx.obligations:
        return ctx.result(E, w, status="error", error="vacuous")
    return ctx.result(E, w)
