"""C18: generators emit well-formed instances within documented bounds.  Every real `_generate` runs with the
sampler stubs of symtorch (each `rand / randint / Uniform.sample / randperm / multinomial` returns fresh solver
variables constrained to the documented support), i.e. over EVERY sampler outcome at the given sizes.

The properties are written once (`props`) against the scalar API, so the same predicates decide the symbolic run
and -- with a rounding tolerance -- the concrete instance produced by the real torch generator when a counterexample's
sampler values are replayed (vf/torch_side/gen_side.py)."""
from __future__ import annotations

import math

import numpy as np
import z3

from symtorch import dist as DS
from symtorch import explore, world
from symtorch import scalar as SC
from symtorch import tensor as T
from symtorch.scalar import XR, _bool, _real, is_sym, s_and, s_not, s_or
from symtorch.tdict import TensorDict

from . import core
from .oracle import all_, any_, pick

TOL = [0.0]  # > 0 in concrete (replay) mode: comparisons of float32 data against real-arithmetic references


def _c(a, b):
    return not is_sym(a) and not is_sym(b) and not isinstance(a, XR) and not isinstance(b, XR) and TOL[0] > 0


def _slack(a, b):
    return TOL[0] * (1 + abs(float(a)) + abs(float(b)))


def eq(a, b):
    return abs(float(a) - float(b)) <= _slack(a, b) if _c(a, b) else T.s_eq(a, b)


def le(a, b):
    return float(a) <= float(b) + _slack(a, b) if _c(a, b) else T.s_le(a, b)


def lt(a, b):
    return float(a) < float(b) + _slack(a, b) if _c(a, b) else T.s_lt(a, b)


def ge(a, b):
    return le(b, a)


def gt(a, b):
    return lt(b, a)


def norm2(dx, dy):
    if not is_sym(dx) and not is_sym(dy):
        return math.hypot(float(dx), float(dy))
    return DS.norm2(dx, dy)


def _vals(t):
    return list(t.a.reshape(-1))


def _in(t, lo, hi, strict_hi=False):
    return all_([s_and(ge(x, lo), (lt(x, hi) if strict_hi else le(x, hi))) for x in _vals(t)])


def _shape(td, key, shape, dtype=None):
    return key in td.keys() and tuple(td[key].shape) == tuple(shape) and (dtype is None or td[key].dtype is dtype)


GENERATORS = {
    "tsp": ("rl4co.envs.routing.tsp.generator", "TSPGenerator"), "cvrp": ("rl4co.envs.routing.cvrp.generator", "CVRPGenerator"),
    "op": ("rl4co.envs.routing.op.generator", "OPGenerator"), "pctsp": ("rl4co.envs.routing.pctsp.generator", "PCTSPGenerator"),
    "pdp": ("rl4co.envs.routing.pdp.generator", "PDPGenerator"), "mtsp": ("rl4co.envs.routing.mtsp.generator", "MTSPGenerator"),
    "svrp": ("rl4co.envs.routing.svrp.generator", "SVRPGenerator"), "atsp": ("rl4co.envs.routing.atsp.generator", "ATSPGenerator"),
    "smtwtp": ("rl4co.envs.scheduling.smtwtp.generator", "SMTWTPGenerator"), "ffsp": ("rl4co.envs.scheduling.ffsp.generator", "FFSPGenerator"),
    "flp": ("rl4co.envs.graph.flp.generator", "FLPGenerator"), "mcp": ("rl4co.envs.graph.mcp.generator", "MCPGenerator"),
    "cvrptw": ("rl4co.envs.routing.cvrptw.generator", "CVRPTWGenerator"), "mtvrp": ("rl4co.envs.routing.mtvrp.generator", "MTVRPGenerator"),
    "fjsp": ("rl4co.envs.scheduling.fjsp.generator", "FJSPGenerator"), "jssp": ("rl4co.envs.scheduling.jssp.generator", "JSSPGenerator"),
    "mdcpdp": ("rl4co.envs.routing.mdcpdp.generator", "MDCPDPGenerator"),
    "dpp": ("rl4co.envs.eda.dpp.generator", "DPPGenerator"), "mdpp": ("rl4co.envs.eda.mdpp.generator", "MDPPGenerator"),
}
MTVRP_PRESETS = {"cvrp": "", "ovrp": "O", "vrpb": "B", "vrpl": "L", "vrptw": "TW", "ovrptw": "OTW", "ovrpb": "OB", "ovrpl": "OL", "vrpbl": "BL", "vrpbtw": "BTW", "vrpltw": "LTW",
                 "ovrpbl": "OBL", "ovrpbtw": "OBTW", "ovrpltw": "OLTW", "vrpbltw": "BLTW", "ovrpbltw": "OBLTW"}


def make_generator(w, name, params):
    mod, cls = GENERATORS[name]
    if name in ("dpp", "mdpp"):
        # the constructors download / load chip data that only the reward needs: build the object bare, set what _generate reads
        g = object.__new__(getattr(w.load(mod), cls))
        g.__dict__.update(params)
        return g
    return getattr(w.load(mod), cls)(**params)


def call_generator(name, g, B):
    return g(B) if name == "mcp" else g([B])


def props(name, g, td, B, params):
    """[(label, condition)]; conditions are Python bools or solver terms"""
    out = []

    def P(nm, cond):
        out.append((nm, cond))

    n = params.get("num_loc", getattr(g, "num_loc", 3))
    if name == "tsp":
        P("keys / shapes / dtypes", _shape(td, "locs", (B, n, 2), T.float32))
        P("coordinates within [min_loc, max_loc]", _in(td["locs"], g.min_loc, g.max_loc))
    elif name == "cvrp":
        P("keys / shapes / dtypes", _shape(td, "locs", (B, n, 2), T.float32) and _shape(td, "depot", (B, 2), T.float32) and _shape(td, "demand", (B, n), T.float32) and _shape(td, "capacity", (B, 1)))
        P("coordinates within bounds", s_and(_in(td["locs"], g.min_loc, g.max_loc), _in(td["depot"], g.min_loc, g.max_loc)))
        cap = g.capacity
        P("demand is an integer in [min_demand, max_demand] divided by the capacity, never above the vehicle capacity",
          all_([s_and(any_([eq(T.s_mul(x, cap), float(k)) for k in range(g.min_demand, g.max_demand + 1)]), s_and(gt(x, 0), le(x, g.vehicle_capacity))) for x in _vals(td["demand"])]))
        P("capacity column holds the capacity used for normalisation", all_([eq(x, cap) for x in _vals(td["capacity"])]))
    elif name == "op":
        P("keys / shapes", _shape(td, "locs", (B, n, 2)) and _shape(td, "depot", (B, 2)) and _shape(td, "prize", (B, n)) and _shape(td, "max_length", (B,)))
        P("coordinates within bounds", s_and(_in(td["locs"], g.min_loc, g.max_loc), _in(td["depot"], g.min_loc, g.max_loc)))
        P("prizes in (0, 1]", all_([s_and(gt(x, 0), le(x, 1)) for x in _vals(td["prize"])]))
        P("max_length positive", all_([gt(x, 0) for x in _vals(td["max_length"])]))
    elif name == "pctsp":
        P("keys / shapes", all(_shape(td, k, (B, n)) for k in ("penalty", "deterministic_prize", "stochastic_prize")) and _shape(td, "locs", (B, n, 2)) and _shape(td, "depot", (B, 2)))
        P("prizes and penalties non-negative", all_([ge(x, 0) for k in ("penalty", "deterministic_prize", "stochastic_prize") for x in _vals(td[k])]))
        P("deterministic prize <= 4/n each (expected total prize of all nodes can reach the requirement)", all_([le(x, 4.0 / n) for x in _vals(td["deterministic_prize"])]))
        P("penalties <= penalty_factor * 3 / n each", all_([le(x, g.penalty_factor * 3.0 / n) for x in _vals(td["penalty"])]) if hasattr(g, "penalty_factor") else True)
    elif name == "pdp":
        nn = g.num_loc
        P("number of locations is even (pickups paired with deliveries)", nn % 2 == 0 and _shape(td, "locs", (B, nn, 2)) and _shape(td, "depot", (B, 2)))
        P("coordinates within bounds", s_and(_in(td["locs"], g.min_loc, g.max_loc), _in(td["depot"], g.min_loc, g.max_loc)))
    elif name == "mdcpdp":
        nn, nd = g.num_loc, g.num_depot
        P("keys / shapes: depots first, then an even number of pickups+deliveries", nn % 2 == 0 and _shape(td, "locs", (B, nn, 2)) and "depot" in td.keys() and tuple(td["depot"].shape)[-2:] == (nd, 2))
        P("coordinates within bounds", s_and(_in(td["locs"], g.min_loc, g.max_loc), _in(td["depot"], g.min_loc, g.max_loc)))
        P("one vehicle capacity per depot (the environment and the init embedding read the number of depots from capacity.shape[-1])", _shape(td, "capacity", (B, nd)))
        if "capacity" in td.keys():
            P("vehicle capacity within [min_capacity, max_capacity] and >= 1 (a pickup can always be loaded)", all_([s_and(ge(x, max(1, g.min_capacity)), le(x, g.max_capacity)) for x in _vals(td["capacity"])]))
    elif name == "mtsp":
        P("keys / shapes", _shape(td, "locs", (B, n, 2)) and _shape(td, "num_agents", (B,), T.int64))
        P("coordinates within bounds", _in(td["locs"], g.min_loc, g.max_loc))
        P("number of agents within [min_num_agents, max_num_agents]", _in(td["num_agents"], g.min_num_agents, g.max_num_agents))
    elif name == "svrp":
        K = g.num_tech
        P("keys / shapes", _shape(td, "techs", (B, K, 1)) and _shape(td, "skills", (B, n, 1)) and _shape(td, "locs", (B, n, 2)) and _shape(td, "depot", (B, 2)))
        P("technician levels ascending within [min_skill, max_skill]", all_([s_and(_in(td["techs"], g.min_skill, g.max_skill), all_([le(td["techs"].a[b, k, 0], td["techs"].a[b, k + 1, 0]) for k in range(K - 1)])) for b in range(B)]))
        P("every customer can be served by the most skilled technician", all_([s_and(ge(td["skills"].a[b, j, 0], 0), le(td["skills"].a[b, j, 0], td["techs"].a[b, K - 1, 0])) for b in range(B) for j in range(n)]))
    elif name == "atsp":
        C = td["cost_matrix"].a
        P("shape", _shape(td, "cost_matrix", (B, n, n)))
        P("non-negative costs, zero diagonal", all_([s_and(ge(C[b, i, j], 0), (eq(C[b, i, i], 0))) for b in range(B) for i in range(n) for j in range(n)]))
        if g.tmat_class:
            P("triangle inequality C[i][j] <= C[i][k] + C[k][j] (tmat_class)", all_([le(C[b, i, j], T.s_add(C[b, i, k], C[b, k, j])) for b in range(B) for i in range(n) for j in range(n) for k in range(n)]))
    elif name == "smtwtp":
        nj = g.num_job
        P("keys / shapes", all(_shape(td, k, (B, nj + 1)) for k in ("job_due_time", "job_weight", "job_process_time")))
        P("dummy start job (index 0) has zero due time / weight / processing time", all_([eq(td[k].a[b, 0], 0) for k in ("job_due_time", "job_weight", "job_process_time") for b in range(B)]))
        P("values non-negative", all_([ge(x, 0) for k in ("job_due_time", "job_weight", "job_process_time") for x in _vals(td[k])]))
        P("real jobs: processing time and weight within the configured ranges", all_([s_and(s_and(ge(td["job_process_time"].a[b, j], g.min_process_time), le(td["job_process_time"].a[b, j], g.max_process_time)),
                                                                                   s_and(ge(td["job_weight"].a[b, j], g.min_job_weight), le(td["job_weight"].a[b, j], g.max_job_weight))) for b in range(B) for j in range(1, nj + 1)]))
    elif name == "ffsp":
        P("shape", _shape(td, "run_time", (B, g.num_job, g.num_machine_total)))
        P("run times within [min_time, max_time) and positive", s_and(_in(td["run_time"], g.min_time, g.max_time, strict_hi=True), all_([ge(x, 1) for x in _vals(td["run_time"])])))
    elif name == "flp":
        P("keys / shapes", _shape(td, "locs", (B, n, 2)) and _shape(td, "orig_distances", (B, n, n)) and _shape(td, "distances", (B, n)) and _shape(td, "chosen", (B, n), T.bool_) and _shape(td, "to_choose", (B,), T.int64))
        P("nothing chosen initially, quota as configured and not above the number of locations", s_and(all_([s_not(x) for x in _vals(td["chosen"])]), all_([s_and(eq(x, g.to_choose), le(x, n)) for x in _vals(td["to_choose"])])))
        D = td["orig_distances"].a
        P("orig_distances is symmetric with zero diagonal", all_([s_and(eq(D[b, i, j], D[b, j, i]), eq(D[b, i, i], 0)) for b in range(B) for i in range(n) for j in range(n)]))
        P("coordinates within bounds", _in(td["locs"], g.min_loc, g.max_loc))
    elif name == "mcp":
        ns, ni = g.num_sets, g.num_items
        ok = _shape(td, "weights", (B, ni)) and _shape(td, "n_sets_to_choose", (B, 1)) and "membership" in td.keys() and tuple(td["membership"].shape[:2]) == (B, ns)
        P("keys / shapes", ok)
        if ok:
            M = td["membership"].a
            P("membership ids are integers in [0, num_items]; non-zero ids distinct within a set", all_([s_and(s_and(ge(M[b, s, p], 0), le(M[b, s, p], ni)), all_([s_or(eq(M[b, s, p], 0), s_not(eq(M[b, s, p], M[b, s, q]))) for q in range(p + 1, M.shape[2])])) for b in range(B) for s in range(ns) for p in range(M.shape[2])]))
            P("weights within [min_weight, max_weight]", _in(td["weights"], g.min_weight, g.max_weight))
            P("quota as configured and not above the number of sets", all_([s_and(eq(x, g.n_sets_to_choose), le(x, ns)) for x in _vals(td["n_sets_to_choose"])]))
    elif name == "cvrptw":
        tw, dur = td["time_windows"].a, td["durations"].a
        scale = g.max_time if g.scale else 1.0
        P("keys / shapes", _shape(td, "time_windows", (B, n + 1, 2)) and _shape(td, "durations", (B, n + 1)))
        X0, Y0 = td["depot"].a[:, 0], td["depot"].a[:, 1]
        conds = []
        for b in range(B):
            conds.append(s_and(eq(tw[b, 0, 0], 0), eq(T.s_mul(tw[b, 0, 1], scale), g.max_time)))
            for j in range(1, n + 1):
                d0 = norm2(T.s_mul(T.s_sub(X0[b], td["locs"].a[b, j - 1, 0]), scale), T.s_mul(T.s_sub(Y0[b], td["locs"].a[b, j - 1, 1]), scale))  # in time units
                e, l, s_ = T.s_mul(tw[b, j, 0], scale), T.s_mul(tw[b, j, 1], scale), T.s_mul(dur[b, j], scale)
                conds.append(s_and(s_and(ge(e, 0), lt(e, l)), s_and(ge(s_, 0), s_and(le(d0, l), le(T.s_add(T.s_add(l, s_), d0), g.max_time)))))
        P("windows ordered, non-negative, reachable from the depot and leaving time to return before the depot closes", all_(conds))
    elif name == "mtvrp":
        keys = ("locs", "demand_backhaul", "demand_linehaul", "distance_limit", "time_windows", "service_time", "vehicle_capacity", "capacity_original", "open_route", "speed")
        P("documented keys present", all(k in td.keys() for k in keys))
        preset = params.get("variant_preset")
        want = MTVRP_PRESETS.get(preset)
        dl, db = td["demand_linehaul"].a, td["demand_backhaul"].a
        nn = dl.shape[1]  # depot column first
        P("depot has no demand; each customer is either linehaul or backhaul; demands within (0, capacity]",
          all_([s_and(s_and(eq(dl[b, 0], 0), eq(db[b, 0], 0)), all_([s_and(s_or(eq(dl[b, j], 0), eq(db[b, j], 0)), s_and(gt(T.s_add(dl[b, j], db[b, j]), TOL[0] * 4), le(T.s_add(dl[b, j], db[b, j]), 1))) for j in range(1, nn)])) for b in range(B)]))
        tw, st_, lim, spd = td["time_windows"].a, td["service_time"].a, td["distance_limit"].a, td["speed"].a
        conds, lconds = [], []
        for b in range(B):
            conds.append(s_and(eq(tw[b, 0, 0], 0), s_and(eq(st_[b, 0], 0), s_or(T.s_isinf(tw[b, 0, 1]), eq(tw[b, 0, 1], g.max_time)))))
            for j in range(1, nn):
                d0 = norm2(T.s_sub(td["locs"].a[b, 0, 0], td["locs"].a[b, j, 0]), T.s_sub(td["locs"].a[b, 0, 1], td["locs"].a[b, j, 1]))
                e, l, sv = tw[b, j, 0], tw[b, j, 1], st_[b, j]
                fin = T.s_isfinite(l)
                tt = T.s_div(d0, spd[b, 0])
                conds.append(s_or(s_and(s_not(fin), s_and(eq(e, 0), eq(sv, 0))),
                                  s_and(fin, s_and(s_and(ge(e, 0), lt(e, l)), s_and(ge(sv, 0), s_and(le(tt, l), le(T.s_add(T.s_add(l, sv), tt), g.max_time)))))))
                lconds.append(s_or(T.s_isinf(lim[b, 0]), le(T.s_mul(d0, 2), lim[b, 0])))
        P("time windows: either absent ([0, inf], no service) or ordered, reachable from the depot and leaving time to serve and return before max_time", all_(conds))
        P("distance limit: infinite or large enough to visit every customer alone (2 * d(depot, j) <= limit)", all_(lconds))
        if preset in ("single_feat", "single_feat_otw"):
            rows_ok = []
            for b in range(B):
                O_b = td["open_route"].a[b, 0]
                TW_b = T.s_isfinite(tw[b, 1, 1])
                L_b = T.s_isfinite(lim[b, 0])
                B_b = any_([gt(db[b, j], 0) for j in range(1, nn)])
                cnt = sum_int([O_b, TW_b, L_b, B_b])
                ok = T.s_le(cnt, 1)
                if preset == "single_feat_otw":
                    ok = s_or(ok, s_and(s_and(O_b, TW_b), s_and(s_not(L_b), s_not(B_b))))
                rows_ok.append(ok)
            P(f"preset {preset}: every instance carries at most one of the features O / TW / L / B" + (" or exactly O+TW" if preset == "single_feat_otw" else ""), all_(rows_ok))
        if want is not None:
            O_, TW_, L_, B_ = "O" in want, "TW" in want, "L" in want.replace("TW", ""), "B" in want
            P(f"preset {preset}: open_route flag", all_([eq(x, O_) if not isinstance(x, bool) else x == O_ for x in _vals(td["open_route"])]))
            P(f"preset {preset}: distance limit {'finite' if L_ else 'infinite'}", all_([(T.s_isfinite(x) if L_ else T.s_isinf(x)) for x in _vals(td["distance_limit"])]))
            P(f"preset {preset}: time windows {'present' if TW_ else 'absent ([0, inf], no service time)'}",
              all_([(T.s_isfinite(td["time_windows"].a[b, j, 1]) if TW_ else s_and(T.s_isinf(td["time_windows"].a[b, j, 1]), eq(td["service_time"].a[b, j], 0))) for b in range(B) for j in range(1, td["time_windows"].shape[1])]))
            if not B_:
                P(f"preset {preset}: no backhaul demand", all_([eq(x, 0) for x in _vals(td["demand_backhaul"])]))
    elif name in ("dpp", "mdpp"):
        cells = g.size * g.size
        am = td["action_mask"].a
        P("keys / shapes", _shape(td, "locs", (B, cells, 2)) and _shape(td, "action_mask", (B, cells), T.bool_) and "probe" in td.keys())
        if name == "dpp":
            pr = td["probe"].a
            P("probing port within the grid and NOT available for a decap", all_([s_and(s_and(ge(pr[b, 0], 0), lt(pr[b, 0], cells)), s_not(pick(pr[b, 0], list(am[b])) if is_sym(pr[b, 0]) else am[b, int(pr[b, 0])])) for b in range(B)]))
        else:
            pr = td["probe"].a
            P("every probing port is NOT available for a decap", all_([s_or(s_not(pr[b, c]), s_not(am[b, c])) for b in range(B) for c in range(cells)]))
        blocked = [sum_int([s_not(am[b, c]) for c in range(cells)]) for b in range(B)]
        extra = 1 + (g.num_probes_max - 1 if name == "mdpp" else 0)
        P("number of blocked cells between 1 and probes + keep-outs, at least one cell stays free", all_([s_and(s_and(ge(x, 1), le(x, extra + max(g.num_keepout_max - 1, 0))), lt(x, cells)) for x in blocked]))
    elif name in ("fjsp", "jssp"):
        nj, nm = g.num_jobs, g.num_mas
        PT, pad = td["proc_times"].a, td["pad_mask"].a
        nops = PT.shape[2]
        P("keys / shapes", _shape(td, "start_op_per_job", (B, nj)) and _shape(td, "end_op_per_job", (B, nj)) and tuple(PT.shape) == (B, nm, nops) and tuple(pad.shape) == (B, nops))
        so, eo = td["start_op_per_job"].a, td["end_op_per_job"].a
        P("jobs partition the operations: start of job 0 is 0, each job starts right after the previous one ends, ends >= starts",
          all_([s_and(eq(so[b, 0], 0), all_([s_and(le(so[b, j], eo[b, j]), (eq(so[b, j], T.s_add(eo[b, j - 1], 1)) if j else True)) for j in range(nj)])) for b in range(B)]))
        P("padding mask marks exactly the operations after the last job's end", all_([T.s_eq(pad[b, o], T.s_gt(o, eo[b, nj - 1])) for b in range(B) for o in range(nops)]))
        P("every real operation is eligible on at least one machine, with processing times in [min, max]; padded operations on none",
          all_([s_or(s_and(pad[b, o], all_([eq(PT[b, m, o], 0) for m in range(nm)])),
                     s_and(s_not(pad[b, o]), s_and(any_([gt(PT[b, m, o], 0) for m in range(nm)]), all_([s_or(eq(PT[b, m, o], 0), s_and(ge(PT[b, m, o], g.min_processing_time), le(PT[b, m, o], g.max_processing_time))) for m in range(nm)]))))
                for b in range(B) for o in range(nops)]))
        if name == "jssp":
            P("JSSP: every real operation is eligible on exactly one machine", all_([s_or(pad[b, o], T.s_eq(sum_int([gt(PT[b, m, o], 0) for m in range(nm)]), 1)) for b in range(B) for o in range(nops)]))
    else:
        raise ValueError(name)
    return out


def sum_int(conds):
    tot = 0
    for c in conds:
        tot = T.s_add(tot, T.s_where(c, 1, 0))
    return tot


def gen_job(job_id, name, params=None, B=2, source_filter=None):
    E = explore.EXP
    ctx = core.Ctx(job_id)
    w = world.make_world(source_filter=source_filter)
    params = dict(params or {})
    ctx.bounds = {"generator": name, "params": params, "B": B}
    ctx.stubs.add("samplers (rand, randint, Uniform/Normal.sample, randperm, multinomial): fresh variables constrained to the documented support (every outcome)")

    def cexb(E_, neg):
        def request(m, kind_):
            draws = []
            for kind, t in T.RANDOM_LOG:
                vals = [core.model_value(m, x) for x in t.a.reshape(-1)]
                draws.append({"kind": kind, "shape": list(t.a.shape), "values": [str(v) for v in vals]})
            return {"kind": "script", "path": core.ROOT + "/vf/torch_side", "module": "gen_side", "func": "run_gen", "model_kind": kind_, "mode": "C18",
                    "params": {"name": name, "params": params, "B": B, "draws": draws}}

        out = []
        # candidate 1: all points of an instance on one horizontal line -> the distance abstraction is exact (|dx|), so the
        # real run computes the very distances the model assumed
        col = []
        for kind, t in T.RANDOM_LOG:
            if kind in ("uniform", "rand") and t.a.ndim >= 2 and t.a.shape[-1] == 2:
                ys = t.a[..., 1].reshape(t.a.shape[0], -1) if t.a.ndim >= 3 else t.a[..., 1].reshape(-1, 1)
                anchor = [row[0] for row in ys]
                col += [y == anchor[i] for i, row in enumerate(ys) for y in row[1:]]
        ys_all = [t.a[..., 1] for kind, t in T.RANDOM_LOG if kind in ("uniform", "rand") and t.a.ndim >= 2 and t.a.shape[-1] == 2]
        if len(ys_all) > 1:  # depot and customers drawn separately: same line across draws
            for other in ys_all[1:]:
                first = ys_all[0].reshape(ys_all[0].shape[0], -1)
                oth = other.reshape(other.shape[0], -1)
                col += [y == first[i][0] for i in range(min(len(first), len(oth))) for y in oth[i]]
        if name == "cvrptw":  # opaque products are exact for these factor values
            for kind, t in T.RANDOM_LOG:
                if kind == "rand":
                    col += [z3.Or(x == 0, *[x == c_ for c_ in SC.UNIT_EXACT]) for x in t.a.reshape(-1)]
        if col:
            E_._sync_axioms()
            # candidate 0: collinear AND every [0,1) draw a coarse dyadic value -- exactly representable, far from the
            # degenerate corners (coinciding points, clamp thresholds) where float32 and the reals model part ways, so a
            # violation that exists there has a margin the float32 replay keeps
            dy = [z3.Or(*[x == z3.RealVal(c_) for c_ in ("0", "1/4", "1/2", "3/4", "7/8")]) for kind, t in T.RANDOM_LOG if kind == "rand" and t.dtype.is_floating_point
                  for x in t.a.reshape(-1) if is_sym(x) and z3.is_real(x)]
            if dy and E_.check(neg, *col, *dy, *DS.collinear_axioms()) == z3.sat:
                out.append(request(E_.model(), "collinear-dyadic"))
            if E_.check(neg, *col, *DS.collinear_axioms()) == z3.sat:
                out.append(request(E_.model(), "collinear"))
        if E_.check(neg) == z3.sat:
            out.append(request(E_.model(), "plain"))
        return out

    def harness():
        DS.FULL_SANDWICH = True
        del T.RANDOM_LOG[:]
        opaque = name == "cvrptw"
        if opaque:
            # (upper_bound - dist) * rand: product with a sampler value in [0,1) = opaque function bounded by its other factor
            SC.OPAQUE_MUL[0] = True
            SC.MULC_APPS.clear()
            SC.UNIT_PRED[0] = lambda t_: z3.is_const(t_) and str(t_).startswith("rand!")
            ctx.stubs.add("symbolic*rand products in the CVRPTW generator: opaque function with 0 <= a*t < a for a > 0 (t in [0,1))")
        if name == "fjsp":
            import sys

            def split_means(t, lo, hi):
                # proc_time_means feeds `x % (high_bound - low_bound)`: a symbolic divisor; case-split the (small-range) means instead
                if sys._getframe(2).f_code.co_name == "_simulate_processing_times" and t.a.ndim == 2 and hi - lo <= 4:
                    for pos in np.ndindex(*t.a.shape):
                        t.a[pos] = E.concretize_int(t.a[pos], lo, hi)
                return t

            T.RANDINT_HOOK = split_means
        try:
            g = make_generator(w, name, params)
            try:
                td = call_generator(name, g, B)
            except AssertionError as e:
                ctx.prove(E, f"[{name} {params}] the generator rejects its own sample ({str(e)[:80]})", False, cexb)
                raise explore.PathAbort()
            except (ValueError, RuntimeError, IndexError, TypeError, KeyError) as e:
                # torch raises RuntimeError/IndexError where the stand-in (numpy) raises ValueError/IndexError
                ctx.prove(E, f"[{name} {params}] the generator must not raise ({type(e).__name__}: {str(e)[:80]})", False, cexb)
                raise explore.PathAbort()
        finally:
            SC.OPAQUE_MUL[0] = False
            SC.UNIT_PRED[0] = None
            T.RANDINT_HOOK = None
        if E.obligations:
            obs, E.obligations = E.obligations, []
            ctx.prove(E, f"[{name} {params}] library preconditions ({len(obs)}: {obs[0][0]}, ...)", z3.And(*[_bool(c) for _, c in obs]), cexb)
        for nm, cond in props(name, g, td, B, params):
            ctx.prove(E, f"[{name} {params}] {nm}", cond, cexb)
        ctx.states += 1
        ctx.transitions += 1

    try:
        E.run(harness)
    except explore.Inconclusive as e:
        return ctx.result(E, w, status="inconclusive", error=str(e))
    finally:
        DS.FULL_SANDWICH = False
        SC.OPAQUE_MUL[0] = False
        SC.UNIT_PRED[0] = None
    if not ctx.obligations:
        return ctx.result(E, w, status="error", error="vacuous")
    return ctx.result(E, w)


def check_concrete(name, params, B, td_json):
    """evaluate the same predicates on the instance the REAL generator produced (replay); returns failing labels"""
    from . import confirm as CF

    w = world.make_world()
    g = make_generator(w, name, params)
    nan_keys = [k for k, v in td_json.items() if "nan" in list(CF.flat(v["data"]))]
    if nan_keys:
        return [f"generated instance contains NaN in {nan_keys}"]
    td = CF.td_from_json(td_json, [B])
    TOL[0] = 1e-5
    try:
        bad = []
        for nm, cond in props(name, g, td, B, params):
            if is_sym(cond):
                cond = z3.simplify(cond)
                if not (z3.is_true(cond) or z3.is_false(cond)):
                    raise RuntimeError(f"predicate '{nm}' does not evaluate on the concrete instance: {str(cond)[:200]}")
                cond = z3.is_true(cond)
            if not cond:
                bad.append(nm)
        return bad
    finally:
        TOL[0] = 0.0
