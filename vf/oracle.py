"""Ground truth helpers shared by the per-problem oracles.  Oracles never import rl4co; they are written against
the scalar API of symtorch.scalar, so the same function yields z3 terms (checks) and python numbers (replay)."""
from __future__ import annotations

import math

from symtorch import dist
from symtorch.scalar import (  # noqa: F401
    is_sym, is_symbolic, s_abs, s_add, s_and, s_div, s_eq, s_ge, s_gt, s_le, s_lt, s_max, s_min, s_mul, s_ne, s_neg, s_not, s_or,
    s_sub, s_where,
)

TRUE, FALSE = True, False


def pick(idx, vals):
    """vals[idx] without emitting a range obligation (oracle side; the range is asserted separately)"""
    if not is_sym(idx):
        return vals[int(idx)]
    acc = vals[len(vals) - 1]
    for k in range(len(vals) - 2, -1, -1):
        acc = s_where(idx == k, vals[k], acc)
    return acc


def pick2(i, j, mat):
    return pick(i, [pick(j, row) for row in mat])


def euclid(dx, dy):
    if not is_symbolic(dx) and not is_symbolic(dy):
        return math.hypot(float(dx), float(dy))
    return dist.norm2(dx, dy)


def dist_matrix(X, Y, metric="l2"):
    n = len(X)
    D = [[0.0] * n for _ in range(n)]
    for i in range(n):
        for j in range(n):
            if i == j:
                continue
            if j < i and metric in ("l2", "l1"):
                D[i][j] = D[j][i]
                continue
            dx, dy = s_sub(X[i], X[j]), s_sub(Y[i], Y[j])
            D[i][j] = euclid(dx, dy) if metric == "l2" else s_add(s_abs(dx), s_abs(dy))
    return D


def ssum(xs, zero=0.0):
    acc = zero
    for x in xs:
        acc = s_add(acc, x)
    return acc


def any_(xs):
    acc = False
    for x in xs:
        acc = s_or(acc, x)
    return acc


def all_(xs):
    acc = True
    for x in xs:
        acc = s_and(acc, x)
    return acc


def count(xs):
    return ssum([s_where(x, 1, 0) for x in xs], 0)


class OState:
    """oracle state: named fields + accumulated named violations"""

    def __init__(self, **kw):
        self.f = dict(kw)
        self.viol = {}

    def __getitem__(self, k):
        return self.f[k]

    def upd(self, active, **kw):
        for k, v in kw.items():
            old = self.f[k]
            if isinstance(old, list):
                self.f[k] = [s_where(active, nv, ov) for nv, ov in zip(v, old)]
            else:
                self.f[k] = s_where(active, v, old)

    def flag(self, active, name, cond):
        self.viol[name] = s_or(self.viol.get(name, False), s_and(active, cond))
