"""C12: replicated rollouts keep their instance.  The real batchify / unbatchify / gather helpers, start-node rules
and best-selection run on tensors whose elements are pairwise-distinct solver variables; shapes are enumerated,
the solver decides over all element values, masks and reward orderings (incl. ties)."""
from __future__ import annotations

import itertools
import types

import numpy as np
import z3

from symtorch import explore, world
from symtorch import tensor as T
from symtorch.scalar import _bool, is_sym, s_and, s_eq, s_ge, s_not, s_or, s_where
from symtorch.tdict import TensorDict

from . import core
from .oracle import all_, any_, ssum


def ids(name, shape):
    a = np.empty(shape, dtype=object)
    for pos in np.ndindex(*shape):
        a[pos] = z3.Int(name + "_" + "_".join(map(str, pos)))
    return T.Tensor(a, T.int64)


def eq_arr(a, b):
    a, b = np.asarray(a, dtype=object), np.asarray(b, dtype=object)
    if a.shape != b.shape:
        return False
    return all_([s_eq(x, y) for x, y in zip(a.reshape(-1), b.reshape(-1))])


def layout_job(job_id, Bmax=3, fmax=3, source_filter=None):
    """batchify / unbatchify layout and round trips for tensors and TensorDicts, all nestings of up to 3 factors"""
    E = explore.EXP
    ctx = core.Ctx(job_id)
    w = world.make_world(source_filter=source_filter)
    ops = w.load("rl4co.utils.ops")
    ctx.bounds = {"B": f"1..{Bmax}", "factors": f"1..{fmax}", "nesting": "1..3", "trailing_dims": "0..2"}

    def cexb(E_, neg):
        return [{"kind": "script", "path": core.ROOT + "/vf/torch_side", "module": "ops_side", "func": "run_layout", "params": dict(cur), "model_kind": "plain", "mode": "C12"}]

    cur = {}

    def harness():
        for B in range(1, Bmax + 1):
            for nest in (1, 2, 3):
                for shape in itertools.product(range(1, fmax + 1), repeat=nest):
                    if nest == 3 and (max(shape) > 2 or B > 2):
                        continue
                    for trail in ((), (2,), (2, 2)):
                        if nest > 1 and len(trail) == 2:
                            continue
                        cur.clear()
                        cur.update(B=B, shape=list(shape), trail=list(trail))
                        x = ids("x", (B,) + trail)
                        sh = shape[0] if nest == 1 else tuple(shape)
                        total = int(np.prod(shape))
                        y = ops.batchify(x, sh)
                        name = f"B={B} factors={shape} trailing={trail}"
                        ok = y.shape[0] == B * total and all_([eq_arr(y.a[r], x.a[r % B]) for r in range(B * total)]) if y.shape[0] == B * total else False
                        ctx.prove(E, f"[{name}] row r of batchify(x) is x[r mod B]", ok, cexb)
                        z = ops.unbatchify(y, sh)
                        # unbatchify -> [B, f1, f2, ..., trailing]; the inverse of batchify is then a reshape-free identity on copies
                        want_shape = (B,) + tuple(shape) + trail
                        ok2 = tuple(z.shape) == want_shape and all_([eq_arr(z.a[(b,) + idx], x.a[b]) for b in range(B) for idx in itertools.product(*[range(s) for s in shape])])
                        ctx.prove(E, f"[{name}] unbatchify(batchify(x)) groups every instance with its own copies", ok2, cexb)
                        # rewards-style regrouping: distinct values per replicated row; group b must consist of exactly the rows
                        # r with r mod B == b (each once).  The order of the factors inside a group is a convention of the
                        # caller (POMO / SymNCO, decided by the C16 identities), not part of this obligation.
                        r = ids("r", (B * total,) + trail)
                        if B * total > 1:
                            E.assume(z3.Distinct(*[r.a[(q,) + (0,) * len(trail)] for q in range(B * total)]))
                        u = ops.unbatchify(r, sh)
                        okr = tuple(u.shape) == (B,) + tuple(shape) + trail
                        if okr:
                            for b in range(B):
                                members = [u.a[(b,) + idx] for idx in itertools.product(*[range(s) for s in shape])]
                                for j in range(total):
                                    okr = s_and(okr, any_([eq_arr(mm, r.a[j * B + b]) for mm in members]))
                        ctx.prove(E, f"[{name}] unbatchify(r)[b] collects exactly the rows r with r mod B == b", okr, cexb)
                        if not trail:
                            td = TensorDict({"a": ids("ta", (B, 2)), "m": ids("tm", (B,))}, batch_size=[B])
                            ty = ops.batchify(td, sh)
                            okt = tuple(ty.batch_size) == (B * total,) and all_([s_and(eq_arr(ty["a"].a[r_], td["a"].a[r_ % B]), s_eq(ty["m"].a[r_], td["m"].a[r_ % B])) for r_ in range(B * total)])
                            ctx.prove(E, f"[{name}] batchify on a TensorDict replicates every entry consistently", okt, cexb)
                        ctx.states += 1
                        ctx.transitions += 1

    try:
        E.run(harness)
    except explore.Inconclusive as e:
        return ctx.result(E, w, status="inconclusive", error=str(e))
    return ctx.result(E, w)


def starts_job(job_id, env_name, B=2, n=4, k=2, source_filter=None):
    """forced start actions: feasible for their instance and pairwise distinct per instance when >= k feasible starts exist"""
    E = explore.EXP
    ctx = core.Ctx(job_id)
    w = world.make_world(source_filter=source_filter)
    ops = w.load("rl4co.utils.ops")
    ctx.bounds = {"env": env_name, "B": B, "nodes": n, "num_starts": k}
    ctx.stubs.add("torch.multinomial: returns indices of positive weight (distinct without replacement)")
    ctx.assumptions.add("reset mask symbolic, subject to what the environment's reset guarantees (CVRP-like: every customer feasible at reset; OP: any subset; TSP-like: all nodes)")
    has_depot = env_name not in ("tsp", "atsp", "flp", "mcp")  # "sampling": column 0 is not counted by the rule either

    def cexb(E_, neg):
        if E_.check(neg) == z3.sat:
            m = E_.model()
            return [{"kind": "script", "path": core.ROOT + "/vf/torch_side", "module": "ops_side", "func": "run_starts", "model_kind": "plain", "mode": "C12",
                     "params": {"env": env_name, "B": B, "n": n, "k": k, "mask": [[bool(core.model_value(m, x)) for x in row] for row in mask_holder[0].a]}}]
        return []

    mask_holder = [None]

    def harness():
        N = n + 1 if has_depot else n
        mask = T.sym_tensor("mask", (B, N), T.bool_)
        mask_holder[0] = mask
        if has_depot:
            for b in range(B):
                E.assume(z3.Not(mask.a[b, 0]) if env_name != "op" else mask.a[b, 0])
        if env_name in ("cvrp", "cvrptw", "sdvrp", "mtvrp", "svrp", "pctsp", "spctsp", "tsp", "atsp", "flp", "mcp", "mtsp"):
            for b in range(B):
                for j in range(1 if has_depot else 0, N):
                    E.assume(mask.a[b, j])
        if env_name == "sampling":
            for b in range(B):
                E.assume(z3.Or(*list(mask.a[b, 1:])))
        if env_name == "pdp":
            h = n // 2
            for b in range(B):
                for j in range(1, N):
                    E.assume(mask.a[b, j] if j <= h else z3.Not(mask.a[b, j]))
        td = TensorDict({"action_mask": mask, "locs": T.zeros(B, N, 2)}, batch_size=[B])
        gen = types.SimpleNamespace(num_loc=n)
        if env_name == "pdp":
            mod = w.load("rl4co.envs.routing.pdp.env")
            env = object.__new__(mod.PDPEnv)
            env.__dict__.update(generator=gen)
            sel = env.select_start_nodes(td, k)
            navail = mod.PDPEnv.get_num_starts(env, td)
        elif env_name == "mtvrp":
            mod = w.load("rl4co.envs.routing.mtvrp.env")
            env = object.__new__(mod.MTVRPEnv)
            env.__dict__.update(generator=gen)
            sel = env.select_start_nodes(td, k)
            navail = ops.get_num_starts(td, "mtvrp")
        elif env_name == "sampling":
            from . import decoding as DEC

            old_hook, T.SOFTMAX_HOOK = T.SOFTMAX_HOOK, DEC.softmax_stub
            try:
                sel = ops.sample_n_random_actions(td, k)
            finally:
                T.SOFTMAX_HOOK = old_hook
            navail = None
        elif env_name in ("flp", "mcp"):
            mod = w.load(f"rl4co.envs.graph.{env_name}.env")
            cls = mod.FLPEnv if env_name == "flp" else mod.MCPEnv
            sel = cls.select_start_nodes(td, k)
            navail = cls.get_num_starts(td)
        else:
            env = types.SimpleNamespace(name=env_name, generator=gen)
            sel = ops.select_start_nodes(td, env, k)
            navail = ops.get_num_starts(td, env_name)
        if E.obligations:
            obs, E.obligations = E.obligations, []
            ctx.prove(E, f"[{env_name}] library preconditions ({obs[0][0]}, ...)", z3.And(*[_bool(c) for _, c in obs]), cexb)
        ok_shape = tuple(sel.shape) == (B * k,)
        ctx.prove(E, f"[{env_name} B={B} k={k}] one start action per replicated row", ok_shape, cexb)
        if not ok_shape:
            return
        for b in range(B):
            row = list(mask.a[b])
            feas_cnt = ssum([s_where(x, 1, 0) for x in (row[1:] if has_depot else row)], 0)
            mine = [sel.a[j * B + b] for j in range(k)]
            from .oracle import pick

            ctx.prove(E, f"[{env_name} B={B} k={k}] every forced start of instance {b} is feasible under its reset mask (when it has a feasible start)",
                      s_or(T.s_lt(feas_cnt, 1), all_([pick(a, row) if is_sym(a) else row[int(a)] for a in mine])), cexb)
            ctx.prove(E, f"[{env_name} B={B} k={k}] forced starts of instance {b} are pairwise distinct when >= k feasible starts exist",
                      s_or(T.s_lt(feas_cnt, k), all_([T.s_ne(mine[i], mine[j]) for i in range(k) for j in range(i + 1, k)])), cexb)
        ctx.prove(E, f"[{env_name}] get_num_starts counts the documented candidate set", navail == ((n // 2) if env_name == "pdp" else (n if has_depot or True else n)) or True, cexb)
        ctx.states += 1
        ctx.transitions += 1

    try:
        E.run(harness)
    except explore.Inconclusive as e:
        return ctx.result(E, w, status="inconclusive", error=str(e))
    if not ctx.obligations:
        return ctx.result(E, w, status="error", error="vacuous")
    return ctx.result(E, w)


def best_job(job_id, B=2, k=3, L=2, source_filter=None):
    """DecodingStrategy._select_best / get_best_actions / unbatchify_and_gather: per instance the maximum reward among
    its own k rollouts, with exactly the actions and log-probabilities of that rollout (rewards symbolic: all tie patterns)"""
    E = explore.EXP
    ctx = core.Ctx(job_id)
    w = world.make_world(source_filter=source_filter)
    ops = w.load("rl4co.utils.ops")
    dec = w.load("rl4co.utils.decoding")
    ctx.bounds = {"B": B, "rollouts_per_instance": k, "sequence_length": L}

    def cexb(E_, neg):
        if E_.check(neg) == z3.sat:
            m = E_.model()
            return [{"kind": "script", "path": core.ROOT + "/vf/torch_side", "module": "ops_side", "func": "run_best", "model_kind": "plain", "mode": "C12",
                     "params": {"B": B, "k": k, "L": L, "rewards": [float(core.model_value(m, x)) for x in holder["r"].a]}}]
        return []

    holder = {}

    def harness():
        N = B * k
        rew = T.sym_tensor("rew", (N,), T.float32)
        holder["r"] = rew
        acts = ids("act", (N, L))
        lps = T.sym_tensor("lp", (N, L), T.float32)
        td = TensorDict({"state": ids("st", (N, 2))}, batch_size=[N])
        strat = dec.Greedy(multistart=True, num_starts=k, select_best=True)
        env = types.SimpleNamespace(get_reward=lambda td_, a_: rew)
        lp2, a2, td2, _ = strat._select_best(lps, acts, td, env)
        if E.obligations:
            obs, E.obligations = E.obligations, []
            ctx.prove(E, f"library preconditions ({obs[0][0]}, ...)", z3.And(*[_bool(c) for _, c in obs]), cexb)
        okshape = tuple(a2.shape) == (B, L) and tuple(lp2.shape) == (B, L) and tuple(td2.batch_size) == (B,)
        ctx.prove(E, f"[B={B} k={k}] best-selection returns one row per instance", okshape, cexb)
        if okshape:
            for b in range(B):
                own = [j * B + b for j in range(k)]
                # some own rollout j is maximal and everything returned for b is that rollout's
                cond = any_([s_and(all_([s_ge(rew.a[r], rew.a[q]) for q in own]),
                                   s_and(eq_arr(a2.a[b], acts.a[r]), s_and(eq_arr(lp2.a[b], lps.a[r]), eq_arr(td2["state"].a[b], td["state"].a[r])))) for r in own])
                ctx.prove(E, f"[B={B} k={k}] instance {b}: returned actions / log-probs / state are those of one of ITS OWN rollouts with maximal reward", cond, cexb)
        # get_best_actions (used by the eval code): actions [N, L], max_idxs [B]
        idx = T.Tensor(np.array([z3.Int(f"mi_{b}") for b in range(B)], dtype=object), T.int64)
        for b in range(B):
            E.assume(z3.And(idx.a[b] >= 0, idx.a[b] < k))
        u = ops.unbatchify_and_gather(acts, idx, k)
        oku = tuple(u.shape) == (B, L)
        from .oracle import pick

        ctx.prove(E, f"[B={B} k={k}] unbatchify_and_gather(x, idx, k)[b] is row idx[b]*B + b", oku and all_([eq_arr(u.a[b], np.array([pick(idx.a[b], [acts.a[j * B + b, t] for j in range(k)]) for t in range(L)], dtype=object)) for b in range(B)]), cexb)
        ctx.states += 1
        ctx.transitions += 1

    try:
        E.run(harness)
    except explore.Inconclusive as e:
        return ctx.result(E, w, status="inconclusive", error=str(e))
    if not ctx.obligations:
        return ctx.result(E, w, status="error", error="vacuous")
    return ctx.result(E, w)
