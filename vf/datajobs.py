"""C17: datasets, collation and baseline wrapping preserve instance identity and order.
The real dataset classes, their collate_fns, `RolloutBaseline.rollout / wrap_dataset` and
`RL4COLitModule._dataloader_single` run on tensors of pairwise-distinct solver variables with the DataLoader
contract stub; batch sizes, final partial batches and shuffle permutations are enumerated (stated), element values
are symbolic."""
from __future__ import annotations

import itertools
import types

import numpy as np
import z3

from symtorch import datastub, explore, nnmod, world
from symtorch import tensor as T
from symtorch.scalar import _bool, is_sym, s_and, s_eq
from symtorch.tdict import TensorDict

from . import core
from .oracle import all_


def _eq(a, b):
    a, b = np.asarray(a, dtype=object), np.asarray(b, dtype=object)
    if a.shape != b.shape:
        return False
    return all_([s_eq(x, y) for x, y in zip(a.reshape(-1), b.reshape(-1))])


def _row(src, i):
    """src[i] for a possibly symbolic index i"""
    from symtorch.scalar import is_sym, s_where

    if not is_sym(i):
        return src.a[int(i)]
    out = src.a[0]
    for k in range(1, src.a.shape[0]):
        out = np.vectorize(lambda a, b, _k=k: s_where(i == _k, b, a), otypes=[object])(out, src.a[k]) if isinstance(out, np.ndarray) else s_where(i == k, src.a[k], out)
    return out


def dataset_job(job_id, cls_name, N=3, extra=False, source_filter=None):
    E = explore.EXP
    ctx = core.Ctx(job_id)
    w = world.make_world(source_filter=source_filter, inert=())
    ds = w.load("rl4co.data.dataset")
    base = w.load("rl4co.models.rl.common.base")
    ctx.bounds = {"dataset": cls_name, "N": N, "batch_sizes": f"1..{N + 1}", "shuffle": "identity + all permutations (N<=3) / rotations", "extra_key": extra}
    ctx.stubs.add("torch.utils.data.DataLoader contract: batches of batch_size consecutive indices of the (possibly permuted) index order, __getitems__ if present, then collate_fn")

    def cexb(E_, neg):
        from symtorch.scalar import is_sym

        if E_.check(neg) != z3.sat:
            return []
        m = E_.model()
        prm = dict(cur)
        prm["perm"] = [int(str(core.model_value(m, x))) if is_sym(x) else int(x) for x in cur["perm"]]
        return [{"kind": "script", "path": core.ROOT + "/vf/torch_side", "module": "data_side", "func": "run_dataset", "model_kind": "plain", "mode": "C17", "params": prm}]

    cur = {}

    def harness():
        locs = T.sym_tensor("loc", (N, 2, 2), T.float32)
        dem = T.Tensor(np.array([[z3.Int(f"dem_{i}_{j}") for j in range(2)] for i in range(N)], dtype=object), T.int64)
        flag = T.sym_tensor("flag", (N,), T.bool_)
        td = TensorDict({"locs": locs, "demand": dem, "flag": flag}, batch_size=[N])
        ex = T.sym_tensor("extra", (N,), T.float32)
        # shuffled order: ONE symbolic permutation (distinct solver integers) stands for every order a sampler can produce
        symperm = [z3.Int(f"perm_{i}") for i in range(N)]
        for x in symperm:
            E.assume(z3.And(x >= 0, x < N))
        if N > 1:
            E.assume(z3.Distinct(*symperm))
        perms = [list(range(N)), symperm]
        for bs in range(1, N + 2):
            for perm in perms:
                shuffle = perm is symperm
                cur.clear()
                cur.update(cls=cls_name, N=N, bs=bs, perm=perm, extra=extra)
                dataset = getattr(ds, cls_name)(td.clone())
                if extra:
                    dataset = dataset.add_key("extra", ex.clone())
                datastub.SHUFFLE_ORDER = (lambda n, _p=perm: list(_p))
                module = types.SimpleNamespace(dataloader_num_workers=0)
                dl = base.RL4COLitModule._dataloader_single(module, dataset, bs, shuffle)
                batches = list(dl)
                nm = f"{cls_name} N={N} bs={bs} order={'any permutation' if shuffle else 'sequential'} extra={extra}"
                exp_sizes = [min(bs, N - s) for s in range(0, N, bs)]
                sizes = [b.batch_size[0] for b in batches]
                ctx.prove(E, f"[{nm}] batches have the expected sizes incl. the final partial batch", sizes == exp_sizes, cexb)
                if sizes != exp_sizes:
                    continue
                pos = 0
                ok_vals, ok_meta = True, True
                for b in batches:
                    for r in range(b.batch_size[0]):
                        i = perm[pos]
                        for key, src in (("locs", locs), ("demand", dem), ("flag", flag)):
                            ok_meta = ok_meta and key in b.keys() and b[key].dtype is src.dtype and tuple(b[key].shape[1:]) == tuple(src.shape[1:])
                            if key in b.keys():
                                ok_vals = s_and(ok_vals, _eq(b[key].a[r], _row(src, i)))
                        if extra:
                            ok_meta = ok_meta and "extra" in b.keys()
                            if "extra" in b.keys():
                                ok_vals = s_and(ok_vals, _eq(b["extra"].a[r], _row(ex, i)))
                        pos += 1
                ctx.prove(E, f"[{nm}] every key keeps its dtype and per-item shape", ok_meta, cexb)
                ctx.prove(E, f"[{nm}] reading back yields exactly the original instances in loader order (extra value travels with its instance)", ok_vals, cexb)
                ctx.states += 1
                ctx.transitions += len(batches)
        datastub.SHUFFLE_ORDER = None
        if extra:
            # the baseline is re-evaluated during training: the SAME base dataset is wrapped again under the same key with new
            # values after the first wrapper has been read; items must then carry the new values
            ex2 = T.sym_tensor("extra_new", (N,), T.float32)
            base_ds = getattr(ds, cls_name)(td.clone())
            w1 = base_ds.add_key("extra", ex.clone())
            module = types.SimpleNamespace(dataloader_num_workers=0)
            list(base.RL4COLitModule._dataloader_single(module, w1, 2, False))
            w2 = base_ds.add_key("extra", ex2.clone())
            cur.clear()
            cur.update(cls=cls_name, N=N, bs=2, perm=list(range(N)), extra=True, rewrap=True)
            got, pos = True, 0
            for b in base.RL4COLitModule._dataloader_single(module, w2, 2, False):
                for r in range(b.batch_size[0]):
                    got = s_and(got, s_and(_eq(b["extra"].a[r], ex2.a[pos]) if "extra" in b.keys() else False, _eq(b["locs"].a[r], locs.a[pos])))
                    pos += 1
            ctx.prove(E, f"[{cls_name} N={N}] wrapping the same dataset again under the same key (baseline re-evaluated) makes the items carry the NEW values", got, cexb)

    try:
        E.run(harness)
    except explore.Inconclusive as e:
        return ctx.result(E, w, status="inconclusive", error=str(e))
    finally:
        datastub.SHUFFLE_ORDER = None
    if not ctx.obligations:
        return ctx.result(E, w, status="error", error="vacuous")
    return ctx.result(E, w)


def rollout_job(job_id, N=3, eval_bs=2, source_filter=None):
    """RolloutBaseline.rollout / wrap_dataset: extra[i] is the baseline policy's reward on instance i, for any evaluation
    batch size, and it travels with that instance through shuffling and batching"""
    E = explore.EXP
    ctx = core.Ctx(job_id)
    w = world.make_world(source_filter=source_filter, inert=())
    ds = w.load("rl4co.data.dataset")
    bl = w.load("rl4co.models.rl.reinforce.baselines")
    ctx.bounds = {"N": N, "baseline_eval_batch_size": eval_bs, "train_batch_size": 2}
    ctx.stubs.add("baseline policy: in inference mode its reward is an uninterpreted function of the instance it is shown; in training mode a different function that also depends on the batch-mates (batch norm / dropout); with parameters other than those at the snapshot yet another function; env.reset is the identity")
    R = z3.Function("baseline_reward", z3.RealSort(), z3.RealSort())
    Rt = z3.Function("baseline_reward_train_mode", z3.RealSort(), z3.RealSort(), z3.RealSort())
    Rmoved = z3.Function("reward_with_later_parameters", z3.RealSort(), z3.RealSort(), z3.RealSort())

    def cexb(E_, neg):
        return [{"kind": "script", "path": core.ROOT + "/vf/torch_side", "module": "data_side", "func": "run_rollout", "model_kind": "plain", "mode": "C17", "params": {"N": N, "eval_bs": eval_bs}}]

    def harness():
        locs = T.sym_tensor("loc", (N, 2, 2), T.float32)
        td = TensorDict({"locs": locs}, batch_size=[N])

        class Pol(nnmod.Module):
            def __init__(self):
                super().__init__()
                self.params = {"w": z3.Real("weights_at_snapshot")}  # stands for the network parameters (updated in place by an optimizer)

            def forward(self, batch, env=None, decode_type=None, **k):
                Bc = batch.batch_size[0]
                if not self.params["w"].eq(W0):  # (a deep copy of the term is a new Python object: compare structurally)
                    # the baseline policy must be a frozen snapshot: if it sees the actor's later parameters its values differ
                    return {"reward": T.Tensor(np.array([Rmoved(T._real(batch["locs"].a[r, 0, 0]), self.params["w"]) for r in range(Bc)], dtype=object), T.float32)}
                if self.training:
                    # training mode (batch norm statistics, dropout): what a row gets depends on its batch-mates
                    mix = 0
                    for r in range(Bc):
                        mix = mix + T._real(batch["locs"].a[r, 0, 0])
                    return {"reward": T.Tensor(np.array([Rt(T._real(batch["locs"].a[r, 0, 0]), mix) for r in range(Bc)], dtype=object), T.float32)}
                return {"reward": T.Tensor(np.array([R(T._real(batch["locs"].a[r, 0, 0])) for r in range(Bc)], dtype=object), T.float32)}

        env = types.SimpleNamespace(reset=lambda b: b, name="tsp", dataset=lambda batch_size=None, **k: ds.TensorDictDataset(td.clone()))
        rb = bl.RolloutBaseline()
        actor = Pol()
        W0 = actor.params["w"]
        actor.train()
        rb.setup(actor, env, batch_size=eval_bs, device="cpu", dataset_size=N)  # deep copy of the actor + evaluation on the baseline's own dataset
        E.obligations = []
        ctx.prove(E, f"[setup eval_bs={eval_bs}] the stored baseline values are the copied policy's inference-mode rewards on the evaluation instances",
                  all_([s_eq(rb.bl_vals[i], R(T._real(locs.a[i, 0, 0]))) for i in range(N)]) if len(rb.bl_vals) == N else False, cexb)
        actor.params["w"] = z3.Real("weights_after_optimizer_steps")  # the actor keeps training: its parameters change IN PLACE
        rb.train()  # what the trainer does at the start of every epoch: the whole module tree, baseline policy included, goes to train mode
        for cls_name in ("TensorDictDataset", "FastTdDataset", "TensorDictDatasetFastGeneration"):
            dataset = getattr(ds, cls_name)(td.clone())
            wrapped = rb.wrap_dataset(dataset, env, batch_size=eval_bs, device="cpu")
            for perm in ([0, 1, 2][:N], list(range(N))[::-1]):
                datastub.SHUFFLE_ORDER = (lambda n, _p=perm: list(_p))
                dl = datastub.DataLoader(wrapped, batch_size=2, shuffle=perm != list(range(N)), collate_fn=wrapped.collate_fn)
                pos, ok = 0, True
                for b in dl:
                    has = "extra" in b.keys()
                    ctx.prove(E, f"[{cls_name} eval_bs={eval_bs} perm={perm}] batches carry the baseline value", has, cexb)
                    if not has:
                        break
                    for r in range(b.batch_size[0]):
                        i = perm[pos]
                        ok = s_and(ok, s_and(_eq(b["locs"].a[r], locs.a[i]), s_eq(b["extra"].a[r], R(T._real(locs.a[i, 0, 0])))))
                        pos += 1
                ctx.prove(E, f"[{cls_name} eval_bs={eval_bs} perm={perm}] extra[item] is the baseline policy's reward on that very instance and travels with it", ok, cexb)
                ctx.states += 1
                ctx.transitions += 1
        datastub.SHUFFLE_ORDER = None

    try:
        E.run(harness)
    except explore.Inconclusive as e:
        return ctx.result(E, w, status="inconclusive", error=str(e))
    finally:
        datastub.SHUFFLE_ORDER = None
    if not ctx.obligations:
        return ctx.result(E, w, status="error", error="vacuous")
    return ctx.result(E, w)
