"""Parent-side: (a) confirm solver counterexamples against what the real torch build did (replay before
reporting), (b) differential validation of the stand-in: concrete symtorch runs vs real torch runs."""
from __future__ import annotations

import math

from symtorch import explore, world
from symtorch import tensor as T
from symtorch.tdict import TensorDict

from . import envs as EV
from . import envs_mdcpdp as _MD  # noqa: F401  (registers MDCPDP)
from . import envs_sel as _SEL  # noqa: F401  (registers the selection environments)

TOL = 2e-5


def dec(x):
    if isinstance(x, list):
        return [dec(v) for v in x]
    if x == "inf":
        return math.inf
    if x == "-inf":
        return -math.inf
    return x


def td_from_json(spec, batch):
    DT = {"bool": T.bool_, "uint8": T.uint8, "int32": T.int32, "int64": T.int64, "float32": T.float32, "float64": T.float64}
    return TensorDict({k: T.tensor(dec(v["data"]), dtype=DT[v["dtype"]]) for k, v in spec.items()}, batch_size=batch)


def close(a, b, tol=1e-4):
    if isinstance(a, str) or isinstance(b, str):
        return a == b
    if isinstance(a, bool) or isinstance(b, bool):
        return bool(a) == bool(b)
    a, b = float(a), float(b)
    if math.isinf(a) or math.isinf(b):
        return a == b
    return abs(a - b) <= tol * (1 + max(abs(a), abs(b)))


def flat(x):
    if isinstance(x, list):
        for v in x:
            yield from flat(v)
    else:
        yield x


def same(a, b, tol=1e-4):
    fa, fb = list(flat(a)), list(flat(b))
    return len(fa) == len(fb) and all(close(x, y, tol) for x, y in zip(fa, fb))


# ------------------------------------------------------------------------------------------ confirm episodes
def confirm_episode(rep, resp):
    """rep: replay request (with mode); resp: what real torch did.  Returns (confirmed, text)."""
    sp = EV.SPECS[rep["spec"]]
    n, variant, B = rep["n"], rep["variant"], rep["batch"][0]
    mode = rep["mode"]
    if "error" in resp:
        return False, "torch side failed: " + resp["error"]
    steps = resp["steps"]
    acts = rep["actions"]
    # all executed actions were really admitted by the real mask (rows not yet finished must be; padding rows too)
    for t in range(steps):
        for b in range(B):
            if not resp["masks"][t][b][acts[t][b]]:
                return False, f"replay diverges: action {acts[t][b]} of row {b} at step {t} is not admitted by the real mask"
    if "step_error" in resp:
        return True, f"real env raised on a mask-admitted action at step {resp['step_error_at']}: {resp['step_error']}"
    td = td_from_json(rep["td"], [B])
    rows = sp.rows_from_td(td, B, n, variant)
    EV.MARGIN[0] = TOL
    try:
        orcs = [sp.oracle(rows[b], n, variant) for b in range(B)]
        sts = [o.start() for o in orcs]
        for t in range(steps):
            for b in range(B):
                orcs[b].step(sts[b], acts[t][b], not resp["done"][t][b], t)
        alld = all(resp["done"][steps])
        if mode == "C01":
            if not alld:
                return False, "real episode did not finish with these actions (not a C01 witness)"
            for b in range(B):
                if not orcs[b].complete(sts[b]):
                    return True, f"row {b}: environment reports done but the solution is incomplete"
                bad = [k for k, v in sts[b].viol.items() if v and not k.startswith("canonical:")]
                if bad:
                    return True, f"row {b}: mask-admitted episode violates {bad}"
            return False, "oracle finds the real episode feasible"
        if mode == "C02":
            for t in range(steps + 1):
                if not all(resp["done"][t]):
                    for b in range(B):
                        if not any(resp["masks"][t][b]):
                            return True, f"row {b} is offered no action at step {t} while the batch is unfinished"
                if t:
                    for b in range(B):
                        if resp["done"][t - 1][b] and not resp["done"][t][b]:
                            return True, f"row {b} became unfinished again at step {t}"
            if not alld and steps >= rep.get("bound", 10**9):
                return True, f"episode still unfinished after the step bound {rep['bound']}"
            return False, "no dead end / un-finish / bound overrun in the real run"
        if mode == "C03":
            if not alld:
                return False, "real episode did not finish"
            if "reward_error" in resp:
                return True, "reward computation raised: " + resp["reward_error"]
            for b in range(B):
                obj = orcs[b].objective(sts[b])
                r = list(flat(resp["reward"]))[b]
                if not close(r, obj, 1e-4):
                    return True, f"row {b}: reported reward {r} != objective {float(obj):.6f} recomputed from instance and actions"
            return False, "reward equals the recomputed objective in the real run"
    finally:
        EV.MARGIN[0] = 0.0
    return False, "unknown mode"


# ------------------------------------------------------------------------------------------ differential validation
def rollout_requests(pairs, seed, B=2):
    reqs = []
    for k, (spec, variant, n) in enumerate(pairs):
        sp = EV.SPECS[spec]
        reqs.append({"kind": "rollout", "env": {"module": sp.module, "cls": sp.cls, "kwargs": sp.env_kwargs(n, variant)}, "B": B,
                     "seed": seed * 1000 + k, "spec": spec, "variant": variant, "n": n, "record": list(sp.record), "checker": sp.checker,
                     "max_steps": 4 * sp.bound(n, variant) + 4})
    return reqs


def diff_validate(req, resp):
    """float32-emulating concrete run first; a disagreement only counts if the double-precision concrete run
    disagrees with real torch as well (otherwise the instance sits on a rounding boundary: noted, not an error)"""
    from symtorch import scalar as SC

    SC.F32 = True
    bad32 = _diff_validate(req, resp)
    hard = [b for b in bad32 if "oracle" not in b]
    if not hard:
        return bad32
    SC.F32 = False
    try:
        bad64 = _diff_validate(req, resp)
    finally:
        SC.F32 = True
    hard64 = [b for b in bad64 if "oracle" not in b]
    if not hard64 or [b.split(":")[0] for b in hard64] != [b.split(":")[0] for b in hard]:
        return [f"oracle-side note: rounding-sensitive instance (float32 vs float64 concrete runs differ): {hard[0][:200]}"]
    return bad32


def _diff_validate(req, resp):
    """run the same instance + actions through symtorch in concrete mode; compare masks / done / reward.
    Returns list of disagreement strings (empty = agrees)."""
    if "error" in resp:
        return [f"torch rollout failed: {resp['error']}"]
    sp = EV.SPECS[req["spec"]]
    n, variant, B = req["n"], req["variant"], req["B"]
    E = explore.EXP
    E.reset_all()
    E._new_path()
    w = world.make_world()
    env = sp.make_env(w, n, variant)
    td = td_from_json(resp["td"], [B])
    bad = []
    td = env.reset(td)

    def cmp(t):
        m = [[bool(x) for x in row] for row in td["action_mask"].a.reshape(B, -1)]
        if m != [[bool(x) for x in flat(r)] for r in resp["masks"][t]]:
            bad.append(f"{req['spec']}[{variant}] step {t}: mask differs sym={m} torch={resp['masks'][t]}")
        d = [bool(all(row)) for row in td["done"].a.reshape(B, -1)]
        if d != [bool(x) for x in resp["done"][t]]:
            bad.append(f"{req['spec']}[{variant}] step {t}: done differs sym={d} torch={resp['done'][t]}")
        for k, v in resp["extra"][t].items():
            if not same(td[k].a.tolist(), v):
                bad.append(f"{req['spec']}[{variant}] step {t}: state '{k}' differs sym={td[k].a.tolist()} torch={v}")

    cmp(0)
    acts = []
    for t, a in enumerate(resp["actions"]):
        at = T.tensor(a, dtype=T.int64)
        acts.append(at)
        td.set("action", at)
        td = env.step(td)["next"]
        cmp(t + 1)
        if bad:
            return bad
    if acts and "reward" in resp:
        A = T.stack(acts, 1)
        r = env._get_reward(td, A)
        if not same(r.a.tolist(), resp["reward"], 1e-4):
            bad.append(f"{req['spec']}[{variant}]: reward differs sym={r.a.tolist()} torch={resp['reward']}")
        # the oracle must agree with the real run too (validates the oracle on generator instances)
        td0 = td_from_json(resp["td"], [B])
        rows = sp.rows_from_td(td0, B, n, variant)
        EV.MARGIN[0] = TOL
        try:
            for b in range(B):
                o = sp.oracle(rows[b], n, variant)
                st = o.start()
                for t, a in enumerate(resp["actions"]):
                    o.step(st, a[b], not resp["done"][t][b], t)
                if not o.complete(st) or any(v for k, v in st.viol.items() if not k.startswith("canonical:")):
                    bad.append(f"{req['spec']}[{variant}] row {b}: oracle rejects a real mask-confined rollout: complete={o.complete(st)} viol={[k for k, v in st.viol.items() if v]} actions={[x[b] for x in resp['actions']]}")
                obj = o.objective(st)
                rr = list(flat(resp["reward"]))[b]
                if not close(rr, obj, 1e-4):
                    bad.append(f"{req['spec']}[{variant}] row {b}: oracle objective {obj} != real reward {rr}")
        finally:
            EV.MARGIN[0] = 0.0
    elif "reward_error" in resp:
        bad.append(f"{req['spec']}[{variant}]: oracle-side note: real reward computation raised {resp['reward_error']}")
    return bad
