"""real-torch side of scheduling replays (C07 / C02): run the real env on a concrete instance + action sequence and
judge the resulting schedule with a plain-python oracle (no rl4co code in the judgement)."""
import types

import torch
from tensordict import TensorDict


def _judge(S, F, mach, proc, starts, ends, NO, NM, reward):
    bad = []
    for o in range(NO):
        if len(mach[o]) != 1:
            bad.append(f"operation {o} assigned to {len(mach[o])} machines")
            continue
        m = mach[o][0]
        if proc[m][o] <= 0:
            bad.append(f"operation {o} runs on the ineligible machine {m}")
        if abs((F[o] - S[o]) - proc[m][o]) > 1e-4:
            bad.append(f"operation {o} runs for {F[o] - S[o]} instead of {proc[m][o]}")
        if S[o] < -1e-6:
            bad.append(f"operation {o} starts at negative time")
    for s, e in zip(starts, ends):
        for o in range(s + 1, e + 1):
            if S[o] < F[o - 1] - 1e-4:
                bad.append(f"operation {o} starts before its predecessor finished")
    for o1 in range(NO):
        for o2 in range(o1 + 1, NO):
            if len(mach[o1]) == 1 and mach[o1] == mach[o2] and not (F[o1] <= S[o2] + 1e-4 or F[o2] <= S[o1] + 1e-4):
                bad.append(f"machine {mach[o1][0]} processes operations {o1} and {o2} at the same time")
    mk = max(F[:NO])
    if abs(reward + mk) > 1e-4:
        bad.append(f"reward {reward} != -makespan {-mk}")
    return bad


def run_fjsp(p):
    try:
        if p["kind"] == "jssp":
            from rl4co.envs.scheduling.jssp.env import JSSPEnv as Cls
        else:
            from rl4co.envs.scheduling.fjsp.env import FJSPEnv as Cls
        B, NM = p["B"], p["NM"]
        pad_to = p["NJ"] * p["NOPS"]
        gen = types.SimpleNamespace(num_mas=p.get("gen_mas") or NM, num_jobs=p["NJ"], max_ops_per_job=p["NOPS"], n_ops_max=pad_to)
        env = Cls(generator=gen, mask_no_ops=p["mask_no_ops"])
        td = TensorDict({"start_op_per_job": torch.tensor([p["starts"]] * B), "end_op_per_job": torch.tensor([p["ends"]] * B),
                         "proc_times": torch.tensor(p["proc"], dtype=torch.float32), "pad_mask": torch.tensor(p["pad"], dtype=torch.bool)}, batch_size=[B])
        td = env.reset(td)
        out = {"violations": [], "admitted": True}
        solo = None
        if B > 1:
            env1 = Cls(generator=gen, mask_no_ops=p["mask_no_ops"])
            solo = env1.reset(TensorDict({"start_op_per_job": torch.tensor([p["starts"]]), "end_op_per_job": torch.tensor([p["ends"]]),
                                          "proc_times": torch.tensor(p["proc"][:1], dtype=torch.float32), "pad_mask": torch.tensor(p["pad"][:1], dtype=torch.bool)}, batch_size=[1]))
        for t, a in enumerate(p["actions"]):
            at = torch.tensor(a)
            if not bool(td["action_mask"].gather(1, at.view(-1, 1)).all()):
                out["admitted"] = False
                return out
            if solo is not None and not bool(solo["done"].all()):
                if solo["action_mask"][0].tolist() != td["action_mask"][0].tolist():
                    out["violations"].append(f"row 0 sees mask {td['action_mask'][0].int().tolist()} next to its batch-mate but {solo['action_mask'][0].int().tolist()} alone (after {t} steps)")
                    return out
                solo.set("action", at[:1])
                solo = env1.step(solo)["next"]
            td.set("action", at)
            try:
                td = env.step(td)["next"]
            except AssertionError as e:
                out["violations"].append(f"environment assertion on a mask-admitted action at step {t}: {e}")
                return out
            except Exception as e:  # noqa: BLE001
                out["violations"].append(f"step {t} raised {type(e).__name__}: {e}")
                return out
        out["done"] = bool(td["done"].all())
        if not out["done"]:
            if not bool(td["action_mask"].any(-1).all()):
                out["violations"].append("unfinished instance is offered no action")
            return out
        rew = env.get_reward(td, None)
        NO = max(p["ends"]) + 1
        for b in range(B):
            ma = td["ma_assignment"][b]
            mach = [[m for m in range(NM) if ma[m, o] != 0] for o in range(NO)]
            out["violations"] += _judge(td["start_times"][b].tolist(), td["finish_times"][b].tolist(), mach, p["proc"][b], p["starts"], p["ends"], NO, NM, float(rew.reshape(-1)[b]))
        return out
    except Exception as e:  # noqa: BLE001
        import traceback

        return {"error": f"{type(e).__name__}: {e}", "trace": traceback.format_exc()[-1500:]}


def run_ffsp(p):
    try:
        from rl4co.envs.scheduling.ffsp.env import FFSPEnv

        NJ, NS, NMA = p["NJ"], p["NS"], p["NMA"]
        B = p.get("B", 1)
        rts = p.get("run_times") or [p["run_time"]]
        acts = [([a] if not isinstance(a, list) else a) for a in p["actions"]]
        gen = types.SimpleNamespace(num_stage=NS, num_machine=NMA, num_job=NJ, num_machine_total=NS * NMA, flatten_stages=p["flatten"])
        env = FFSPEnv(generator=gen)
        rt = torch.tensor(rts, dtype=torch.int64)
        td = env.reset(TensorDict({"run_time": rt}, batch_size=[B]))
        out = {"violations": [], "admitted": True}
        for t, a in enumerate(acts):
            if not all(bool(td["action_mask"][b, a[b]]) for b in range(B)):
                out["admitted"] = False
                return out
            td.set("action", torch.tensor(a))
            try:
                td = env.step(td)["next"]
            except Exception as e:  # noqa: BLE001
                out["violations"].append(f"step {t} raised {type(e).__name__}: {e}")
                return out
        out["done"] = bool(td["done"].all())
        if not out["done"]:
            if not bool(td["action_mask"].any(-1).all()):
                out["violations"].append("unfinished instance is offered no action")
            return out
        for b in range(B):
            tag = f"row {b}: " if B > 1 else ""
            sch = td["schedule"][b].tolist()
            start, end = {}, {}
            for j in range(NJ):
                for s in range(NS):
                    used = [m for m in range(s * NMA, (s + 1) * NMA) if sch[m][j] >= 0]
                    if len(used) != 1:
                        out["violations"].append(f"{tag}job {j} processed on {len(used)} machines in stage {s}")
                        continue
                    m = used[0]
                    start[j, s] = (sch[m][j], m)
                    end[j, s] = sch[m][j] + rts[b][j][m]
                for s in range(1, NS):
                    if (j, s) in start and (j, s - 1) in end and start[j, s][0] < end[j, s - 1]:
                        out["violations"].append(f"{tag}job {j} starts stage {s} before finishing stage {s - 1}")
            ks = sorted(start)
            for i, k1 in enumerate(ks):
                for k2 in ks[i + 1:]:
                    if start[k1][1] == start[k2][1] and not (end[k1] <= start[k2][0] or end[k2] <= start[k1][0]):
                        out["violations"].append(f"{tag}machine {start[k1][1]} runs jobs {k1[0]} and {k2[0]} at the same time")
            if end:
                mk = max(end.values())
                r = float(td["reward"].reshape(-1)[b])
                if abs(r + mk) > 1e-4:
                    out["violations"].append(f"{tag}reward {r} != -makespan {-mk}")
        return out
    except Exception as e:  # noqa: BLE001
        import traceback

        return {"error": f"{type(e).__name__}: {e}", "trace": traceback.format_exc()[-1500:]}
