"""real-torch side of C11 / C13 replays.  The solver's decoder is an uninterpreted function of the state, so its
counterexamples have no concrete logits: the real ConstructivePolicy is run with concrete state-determined random
decoders (several seeds) and the property is re-checked numerically by an independent re-derivation."""
import math

import torch
import torch.nn as nn
from tensordict import TensorDict


def _table_logits(seed, n, first, cur, mask, tag=0.0):
    # tag: the instance's first coordinate -> different instances of one batch get different logits
    key = ((int(first) * 131 + int(cur)) * 1024 + sum((1 << j) for j, m in enumerate(mask) if m)) * 1009 + int(float(tag) * 1000003) % 1000003
    g = torch.Generator().manual_seed(seed * 7919 + key)
    return torch.randn(n, generator=g)


def _policy(n, seed):
    from rl4co.models.common.constructive.base import ConstructivePolicy

    class Enc(nn.Module):
        def forward(self, td):
            return None, None

    class Dec(nn.Module):
        def pre_decoder_hook(self, td, env, hidden, num_starts):
            return td, env, hidden

        def forward(self, td, hidden, num_starts):
            Bp = td.batch_size[0]
            out = torch.stack([_table_logits(seed, n, td["first_node"].reshape(Bp)[r], td["current_node"].reshape(Bp)[r], td["action_mask"][r].tolist(), tag=td["locs"][r, 0, 0]) for r in range(Bp)])
            return out, td["action_mask"]

    return ConstructivePolicy(Enc(), Dec(), env_name="tsp")


def _entropy(seed, n, seq, forced_first, tag=0.0, temperature=1.0):
    """sum over the non-forced steps of the entropy of the masked-normalised step distribution along seq"""
    avail, first, cur, H = [True] * n, None, None, 0.0
    for t, a in enumerate(seq):
        if t == 0 and forced_first:
            first = cur = a
            avail = [j != a for j in range(n)]
            continue
        lg = _table_logits(seed, n, first if first is not None else 0, cur if cur is not None else 0, avail, tag) / temperature
        lp = torch.log_softmax(lg.masked_fill(~torch.tensor(avail), -math.inf), -1)
        H += float(-(lp.exp() * lp.masked_fill(~torch.tensor(avail), 0.0)).sum())
        if t == 0:
            first = a
            avail = [j != a for j in range(n)]
        else:
            avail[a] = False
        cur = a
    return H


def _rederive(seed, n, seq, forced_first, tag=0.0, temperature=1.0):
    avail, first, cur = [True] * n, None, None
    steps = []
    for t, a in enumerate(seq):
        if t == 0:
            if forced_first:
                steps.append(0.0)
            else:
                lg = _table_logits(seed, n, 0, 0, avail, tag) / temperature
                steps.append(float(torch.log_softmax(lg.masked_fill(~torch.tensor(avail), -math.inf), -1)[a]))
            first = cur = a
            avail = [j != a for j in range(n)]
            continue
        lg = _table_logits(seed, n, first, cur, avail, tag) / temperature
        steps.append(float(torch.log_softmax(lg.masked_fill(~torch.tensor(avail), -math.inf), -1)[a]))
        avail[a] = False
        cur = a
    return steps


def run_ll(p):
    try:
        from rl4co.envs.routing.tsp.env import TSPEnv

        n, B, dt = p["n"], p["B"], p["decode_type"]
        multi = "multistart" in dt
        bad = []
        for seed in range(5):
            torch.manual_seed(seed)
            env = TSPEnv(generator_params={"num_loc": n}, check_solution=False)
            pol = _policy(n, seed)
            td = env.reset(TensorDict({"locs": torch.rand(B, n, 2)}, batch_size=[B]))
            temp, flagged = p.get("temperature", 1.0), p.get("flagged", False)
            flags = torch.rand(B, n) > 0.4
            if flagged:
                td.set("mask", flags)
            kw = {"num_starts": p.get("num_starts") or n} if multi else {}
            if temp != 1.0:
                kw["temperature"] = temp
            out = pol(td.clone(), env, phase="test", decode_type=dt, return_entropy=True, **kw)
            acts, ll = out["actions"], out["log_likelihood"]
            for r in range(acts.shape[0]):
                Href = _entropy(seed, n, acts[r].tolist(), multi, tag=td["locs"][r % B, 0, 0], temperature=temp)
                if abs(float(out["entropy"][r]) - Href) > 1e-4:
                    bad.append(f"seed {seed} row {r}: returned entropy {float(out['entropy'][r]):.5f} != entropy of the step distributions along the returned sequence {Href:.5f}" + (" (forced first move must contribute 0)" if multi else ""))

            def keep(r, st):
                return [x if (not flagged or bool(flags[r % B, t])) else 0.0 for t, x in enumerate(st)]

            for r in range(acts.shape[0]):
                seq = acts[r].tolist()
                if sorted(seq) != list(range(n)):
                    bad.append(f"seed {seed} row {r}: actions {seq} are not a permutation")
                st = keep(r, _rederive(seed, n, seq, multi, tag=td["locs"][r % B, 0, 0], temperature=temp))
                if abs(sum(st) - float(ll[r])) > 1e-4:
                    bad.append(f"seed {seed} row {r}: returned log-likelihood {float(ll[r]):.5f} != sum of step log-probs of the returned actions {sum(st):.5f}")
            if not multi:
                out2 = pol(td.clone(), env, phase="train", actions=acts, return_entropy=True, return_sum_log_likelihood=False, **({"temperature": temp} if temp != 1.0 else {}))
                try:
                    out3 = pol(td.clone(), env, phase="train", actions=acts, decode_type=dt, return_entropy=True, return_sum_log_likelihood=False, **({"temperature": temp} if temp != 1.0 else {}))
                    if out3["log_likelihood"].shape != out2["log_likelihood"].shape or not torch.allclose(out3["log_likelihood"], out2["log_likelihood"], atol=1e-5):
                        bad.append(f"seed {seed}: actions= together with decode_type='{dt}' does not evaluate the given actions (per-step log-probs {out3['log_likelihood'][0].tolist()} vs {out2['log_likelihood'][0].tolist()})")
                except Exception as e:  # noqa: BLE001
                    bad.append(f"seed {seed}: actions= together with decode_type='{dt}' raised {type(e).__name__}: {str(e)[:100]}")
                for r in range(acts.shape[0]):
                    st = keep(r, _rederive(seed, n, acts[r].tolist(), False, tag=td["locs"][r % B, 0, 0], temperature=temp))
                    if any(abs(a - float(b)) > 1e-4 for a, b in zip(st, out2["log_likelihood"][r])):
                        bad.append(f"seed {seed} row {r}: evaluation log-probs {out2['log_likelihood'][r].tolist()} != re-derived {st}")
                    if abs(float(out2["reward"][r]) - float(out["reward"][r])) > 1e-5:
                        bad.append(f"seed {seed} row {r}: evaluation reward differs")
                    if abs(float(out2["log_likelihood"][r].sum()) - float(ll[r])) > 1e-4:
                        bad.append(f"seed {seed} row {r}: PPO ratio would not start at 1")
            if bad:
                break
        return {"violations": bad[:3]}
    except AssertionError as e:
        return {"violations": [f"library assertion: {e}"]}
    except Exception as e:  # noqa: BLE001
        import traceback

        return {"error": f"{type(e).__name__}: {e}", "trace": traceback.format_exc()[-1500:]}


def run_beam(p):
    try:
        from rl4co.envs.routing.tsp.env import TSPEnv

        n, B, W = p["n"], p["B"], p["W"]
        bad = []
        for seed in range(6):
            torch.manual_seed(seed)
            env = TSPEnv(generator_params={"num_loc": n}, check_solution=False)
            pol = _policy(n, seed)
            td = env.reset(TensorDict({"locs": torch.rand(B, n, 2)}, batch_size=[B]))
            out = pol(td.clone(), env, phase="test", decode_type="beam_search", beam_width=W, select_best=p["select_best"])
            acts, ll = out["actions"], out["log_likelihood"]
            rows = acts.shape[0]
            for r in range(rows):
                seq = acts[r].tolist()
                if sorted(seq) != list(range(n)):
                    bad.append(f"seed {seed} beam {r}: {seq} is not a complete tour")
                    continue
                st = _rederive(seed, n, seq, True, tag=td["locs"][(r if p["select_best"] else r % B), 0, 0])
                if abs(sum(st) - float(ll[r])) > 1e-4:
                    bad.append(f"seed {seed} beam {r}: log-likelihood {float(ll[r]):.5f} != what the policy assigns along {seq}: {sum(st):.5f}")
            if not p["select_best"]:
                # independent reference beam search per instance: forced starts 0..W-1, then per step the W best expansions
                for b in range(B):
                    tag = td["locs"][b, 0, 0]
                    beams = [([j % n], 0.0) for j in range(W)]
                    for t in range(1, n):
                        cand = []
                        for seq_, sc in beams:
                            for a in range(n):
                                if a not in seq_:
                                    cand.append((seq_ + [a], sum(_rederive(seed, n, seq_ + [a], True, tag))))
                        cand.sort(key=lambda c: -c[1])
                        beams = cand[:W]
                    want = sorted(tuple(x[0]) for x in beams)
                    got = sorted(tuple(acts[j * B + b].tolist()) for j in range(W))
                    if want != got and len(cand) >= W and (len(cand) == W or cand[W - 1][1] - cand[W][1] > 1e-5 if len(cand) > W else True):
                        bad.append(f"seed {seed} instance {b}: kept beams {got} are not the {W} highest-scoring expansions {want} of a step-by-step reference beam search")
                for r1 in range(rows):
                    for r2 in range(r1 + 1, rows):
                        if r1 % B == r2 % B and acts[r1].tolist() == acts[r2].tolist():
                            bad.append(f"seed {seed}: beams {r1} and {r2} of instance {r1 % B} are identical")
            else:
                allb = pol(td.clone(), env, phase="test", decode_type="beam_search", beam_width=W, select_best=False)
                for b in range(B):
                    own = [float(allb["reward"][j * B + b]) for j in range(W)]
                    if abs(float(out["reward"][b]) - max(own)) > 1e-5:
                        bad.append(f"seed {seed} instance {b}: selected reward {float(out['reward'][b]):.5f} is not the maximum of its beams {own}")
            if bad:
                break
        return {"violations": bad[:3]}
    except AssertionError as e:
        return {"violations": [f"library assertion: {e}"]}
    except Exception as e:  # noqa: BLE001
        import traceback

        return {"error": f"{type(e).__name__}: {e}", "trace": traceback.format_exc()[-1500:]}
