"""real-torch side of C14 replays: the real AttentionModelPolicy (random weights, eval mode unless asked otherwise) decodes
instance X alone and inside several batch compositions; greedy actions / reward / log-likelihood must agree"""
import torch


def run_am(p):
    try:
        from rl4co.envs import get_env
        from rl4co.models.zoo.am.policy import AttentionModelPolicy

        name, n = p["env"], max(p["n"], 4)
        bad = []
        for seed in range(3):
            torch.manual_seed(seed)
            gp = dict(num_loc=n) if name != "mtvrp" else dict(num_loc=n, variant_preset="all")
            env = get_env(name, generator_params=gp)
            pol = AttentionModelPolicy(env_name=name, embed_dim=16, num_heads=2, num_encoder_layers=1, normalization=p["norm"])
            pol = pol.train() if p.get("train_mode") else pol.eval()
            gen = env.generator(batch_size=[2])
            X, Y = gen[0:1], gen[1:2]

            def dec(tds):
                td = env.reset(torch.cat(tds, 0).clone())
                with torch.no_grad():
                    return pol(td, env, decode_type="greedy")

            try:
                solo = dec([X])
            except Exception as e:  # noqa: BLE001
                bad.append(f"decoding a single instance (batch size 1) raises {type(e).__name__}: {str(e)[:120]}")
                break
            for comp, pos in (([X, Y], 0), ([Y, X], 1), ([X, X, Y], 1)):
                out = dec(comp)
                L = min(out["actions"].shape[1], solo["actions"].shape[1])
                if out["actions"][pos, :L].tolist() != solo["actions"][0, :L].tolist() or abs(float(out["reward"][pos]) - float(solo["reward"][0])) > 1e-4 \
                        or abs(float(out["log_likelihood"][pos]) - float(solo["log_likelihood"][0])) > 1e-3:
                    bad.append(f"seed {seed}: instance X decoded at position {pos} of a batch of {len(comp)}: actions {out['actions'][pos].tolist()} reward {float(out['reward'][pos]):.5f} "
                               f"vs alone: actions {solo['actions'][0].tolist()} reward {float(solo['reward'][0]):.5f}")
            if bad:
                break
        return {"violations": bad[:3]}
    except Exception as e:  # noqa: BLE001
        import traceback

        return {"error": f"{type(e).__name__}: {e}", "trace": traceback.format_exc()[-1500:]}
