"""real-torch side of C14 replays: the real AttentionModelPolicy (random weights, eval mode unless asked otherwise) decodes
instance X alone and inside several batch compositions.  Compared: the decoder's logits for X at every step under the same
forced actions (the quantity the symbolic check talks about), and the greedy actions / reward / log-likelihood of the
public forward pass (single-start, or multi-start when num_starts > 1)."""
import torch


def run_am(p):
    try:
        from rl4co.envs import get_env
        from rl4co.models.zoo.am.policy import AttentionModelPolicy

        name, n = p["env"], max(p["n"], 4)
        S = p.get("num_starts", 0) or 0
        bad = []
        for seed in range(6):
            torch.manual_seed(seed)
            gp = dict(num_loc=n)
            if name == "mtvrp":
                gp["variant_preset"] = "all"
            if name == "mtsp":
                gp.update(min_num_agents=1, max_num_agents=n - 1)  # instances of one batch may differ in every field
            env = get_env(name, generator_params=gp)
            pol = AttentionModelPolicy(env_name=name, embed_dim=16, num_heads=2, num_encoder_layers=1, normalization=p["norm"])
            pol = pol.train() if p.get("train_mode") else pol.eval()
            gen = env.generator(batch_size=[3])
            if name == "mtvrp" and (p.get("variant") or "").startswith("mix:"):
                # X and Y of different variants: generate one instance per requested variant preset and stack them
                from rl4co.envs.routing.mtvrp.generator import MTVRPGenerator

                def preset(v):
                    o, tw, l, b = "O" in v, "TW" in v, "L" in v.replace("TW", ""), "B" in v
                    return ("o" if o else "") + "vrp" + ("b" if b else "") + ("l" if l else "") + ("tw" if tw else "") if (o or tw or l or b) else "cvrp"

                vs = p["variant"][4:].split("/")
                rows = [MTVRPGenerator(num_loc=n, variant_preset=preset(vs[r % len(vs)]))(batch_size=[1]) for r in range(3)]
                gen = torch.cat(rows, 0)
            if name == "mtsp":
                gen["num_agents"] = torch.tensor([1, n - 1, 2])[:3].clamp(max=n - 1)
            X, Y = gen[0:1], gen[1:2]

            def trace(tds, pos, forced=None):
                td = env.reset(torch.cat(tds, 0).clone())
                with torch.no_grad():
                    hidden, _ = pol.encoder(td)
                    td, _, cache = pol.decoder.pre_decoder_hook(td, env, hidden, 0)
                    outs, acts = [], []
                    for t in range(4 * n + 4):
                        logits, mask = pol.decoder(td, cache, 0)
                        a = logits.masked_fill(~mask, float("-inf")).argmax(-1)
                        if forced is not None and t < len(forced):
                            a[pos] = forced[t]
                        outs.append(torch.where(mask[pos], logits[pos], torch.zeros(())).clone())
                        acts.append(int(a[pos]))
                        td.set("action", a)
                        td = env.step(td)["next"]
                        if bool(td["done"].all()):
                            break
                return outs, acts

            def dec(tds):
                td = env.reset(torch.cat(tds, 0).clone())
                with torch.no_grad():
                    if S > 1:
                        return pol(td, env, decode_type="multistart_greedy", num_starts=S, select_best=False)
                    return pol(td, env, decode_type="greedy")

            try:
                solo = dec([X])
                solo_lg, solo_acts = trace([X], 0)
            except Exception as e:  # noqa: BLE001
                bad.append(f"decoding a single instance (batch size 1) raises {type(e).__name__}: {str(e)[:120]}")
                break
            for comp, pos in (([X, Y], 0), ([Y, X], 1), ([X, X, Y], 1)):
                Bc = len(comp)
                if S <= 1:
                    lg, _ = trace(comp, pos, forced=solo_acts)
                    for t in range(min(len(lg), len(solo_lg))):
                        if not torch.allclose(lg[t], solo_lg[t], atol=1e-4, rtol=1e-4):
                            bad.append(f"seed {seed}: step {t}: logits of X at position {pos} of a batch of {Bc} differ from its logits alone by {float((lg[t] - solo_lg[t]).abs().max()):.4g} (same forced actions {solo_acts[:t]})")
                            break
                out = dec(comp)
                for s_ in range(max(S, 1)):
                    rb, rs = s_ * Bc + pos, s_
                    L = min(out["actions"].shape[1], solo["actions"].shape[1])
                    if out["actions"][rb, :L].tolist() != solo["actions"][rs, :L].tolist() or abs(float(out["reward"][rb]) - float(solo["reward"][rs])) > 1e-4 \
                            or abs(float(out["log_likelihood"][rb]) - float(solo["log_likelihood"][rs])) > 1e-3:
                        bad.append(f"seed {seed}: instance X{' start ' + str(s_) if S > 1 else ''} decoded at position {pos} of a batch of {Bc}: actions {out['actions'][rb].tolist()} reward {float(out['reward'][rb]):.5f} "
                                   f"vs alone: actions {solo['actions'][rs].tolist()} reward {float(solo['reward'][rs]):.5f}")
                        break
            if bad:
                break
        return {"violations": bad[:3]}
    except Exception as e:  # noqa: BLE001
        import traceback

        return {"error": f"{type(e).__name__}: {e}", "trace": traceback.format_exc()[-1500:]}
