"""real-torch side of C12 replays"""
import types

import torch
from tensordict import TensorDict

from rl4co.utils import ops


def run_layout(p):
    B, shape, trail = p["B"], p["shape"], p["trail"]
    sh = shape[0] if len(shape) == 1 else tuple(shape)
    x = torch.arange(B * max(1, int(torch.tensor(trail).prod()) if trail else 1)).reshape(B, *trail) + 100
    total = 1
    for s in shape:
        total *= s
    y = ops.batchify(x, sh)
    bad = []
    if y.shape[0] != B * total or any(not torch.equal(y[r], x[r % B]) for r in range(y.shape[0])):
        bad.append("batchify layout: row r is not x[r mod B]")
    r = torch.arange(B * total) + 1000
    u = ops.unbatchify(r, sh)
    import itertools

    if tuple(u.shape) != (B, *shape):
        bad.append("unbatchify shape wrong")
    else:
        for b in range(B):
            got = sorted(int(v) for v in u[b].reshape(-1))
            want = sorted(int(r[j * B + b]) for j in range(total))
            if got != want:
                bad.append(f"unbatchify group {b} holds rows {got}, expected the rows of instance {b}: {want}")
    return {"violations": bad[:3]}


def run_starts(p):
    env_name, B, n, k = p["env"], p["B"], p["n"], p["k"]
    mask = torch.tensor(p["mask"], dtype=torch.bool)
    td = TensorDict({"action_mask": mask, "locs": torch.zeros(B, mask.shape[1], 2)}, batch_size=[B])
    gen = types.SimpleNamespace(num_loc=n)
    bad = []
    for seed in range(32):
        torch.manual_seed(seed)
        if env_name == "pdp":
            from rl4co.envs.routing.pdp.env import PDPEnv

            e = object.__new__(PDPEnv)
            sel = PDPEnv.select_start_nodes(e, td, k)
        elif env_name == "mtvrp":
            from rl4co.envs.routing.mtvrp.env import MTVRPEnv

            sel = MTVRPEnv.select_start_nodes(object.__new__(MTVRPEnv), td, k)
        elif env_name == "sampling":
            sel = ops.sample_n_random_actions(td, k)
        elif env_name in ("flp", "mcp"):
            import importlib

            m = importlib.import_module(f"rl4co.envs.graph.{env_name}.env")
            sel = (m.FLPEnv if env_name == "flp" else m.MCPEnv).select_start_nodes(td, k)
        else:
            sel = ops.select_start_nodes(td, types.SimpleNamespace(name=env_name, generator=gen), k)
        has_depot = env_name not in ("tsp", "atsp", "flp", "mcp")
        for b in range(B):
            feas = int(mask[b, 1:].sum()) if has_depot else int(mask[b].sum())
            mine = [int(sel[j * B + b]) for j in range(k)]
            if feas >= 1 and any(not bool(mask[b, a]) for a in mine):
                bad.append(f"instance {b} (mask {mask[b].tolist()}) gets the infeasible forced start(s) {mine} although {feas} feasible start(s) exist (num_starts={k})")
            if feas >= k:
                if len(set(mine)) < k:
                    bad.append(f"instance {b} (mask {mask[b].tolist()}) gets duplicate forced starts {mine} although {feas} >= {k} feasible starts exist")
        if bad:
            break
    return {"violations": bad[:3]}


def run_best(p):
    from rl4co.utils.decoding import Greedy

    B, k, L = p["B"], p["k"], p["L"]
    N = B * k
    rew = torch.tensor(p["rewards"], dtype=torch.float32)
    acts = torch.arange(N * L).reshape(N, L)
    lps = -torch.arange(N * L, dtype=torch.float32).reshape(N, L)
    td = TensorDict({"state": torch.arange(N * 2).reshape(N, 2)}, batch_size=[N])
    strat = Greedy(multistart=True, num_starts=k, select_best=True)
    lp2, a2, td2, _ = strat._select_best(lps, acts, td, types.SimpleNamespace(get_reward=lambda t, a: rew))
    bad = []
    for b in range(B):
        own = [j * B + b for j in range(k)]
        best = max(float(rew[r]) for r in own)
        hit = [r for r in own if float(rew[r]) == best and torch.equal(a2[b], acts[r]) and torch.equal(lp2[b], lps[r]) and torch.equal(td2["state"][b], td["state"][r])]
        if not hit:
            bad.append(f"instance {b}: returned rollout is not one of its own best (rewards {rew.tolist()}, returned actions {a2[b].tolist()})")
    return {"violations": bad}
