"""real-torch side of C15 replays"""
import math

import torch
from tensordict import TensorDict


def run_augment(p):
    try:
        from rl4co.data.transforms import StateAugmentation

        locs = torch.tensor(p["locs"], dtype=torch.float32)
        B = locs.shape[0]
        td = TensorDict({"locs": locs, "demand": torch.arange(B * 2, dtype=torch.float32).reshape(B, 2)}, batch_size=[B])
        bad = []
        for seed in range(6):
            torch.manual_seed(seed)
            out = StateAugmentation(num_augment=p["k"], augment_fn=p["fn"], first_aug_identity=p["first_aug_identity"])(td.clone())
            A = out["locs"]
            if A.shape[0] != p["k"] * B:
                return {"violations": [f"augmented batch has {A.shape[0]} rows, expected {p['k'] * B}"]}
            for a in range(p["k"]):
                for b in range(B):
                    r = a * B + b
                    d0 = math.dist(locs[b, 0].tolist(), locs[b, 1].tolist())
                    d1 = math.dist(A[r, 0].tolist(), A[r, 1].tolist())
                    if abs(d0 - d1) > 1e-4:
                        bad.append(f"copy {a} of instance {b}: distance {d1:.5f} != original {d0:.5f}")
                    if not torch.equal(out["demand"][r], td["demand"][b]):
                        bad.append(f"copy {a} of instance {b}: other features changed")
            for b in range(B):
                if not torch.allclose(A[b], locs[b], atol=1e-6):
                    bad.append(f"first copy of instance {b} differs from the original")
            if bad:
                break
        return {"violations": bad[:3]}
    except Exception as e:  # noqa: BLE001
        return {"error": f"{type(e).__name__}: {e}"}


def run_eval(p):
    try:
        from rl4co.envs.routing.tsp.env import TSPEnv
        from rl4co.tasks import eval as ev

        B, k, S, n = p["B"], p["k"], p["S"], p["n"]
        locs = torch.tensor(p["locs"], dtype=torch.float32)
        acts = torch.tensor(p["actions"], dtype=torch.int64)
        env = TSPEnv(generator_params={"num_loc": n}, check_solution=False)

        class P:
            def __call__(self, td, **kw):
                return {"actions": acts.clone()}

            def parameters(self):
                return iter([torch.zeros(1)])

        td = env.reset(TensorDict({"locs": locs}, batch_size=[B]))
        m = p["method"]
        fn = {"greedy": lambda: ev.GreedyEval(env, progress=False), "augment": lambda: ev.AugmentationEval(env, num_augment=k, progress=False),
              "multistart": lambda: ev.GreedyMultiStartEval(env, num_starts=S, progress=False),
              "multistart_augment": lambda: ev.GreedyMultiStartAugmentEval(env, num_starts=S, num_augment=k, progress=False)}[m]()
        torch.manual_seed(0)
        ra, rr = fn._inner(P(), td)

        def R(b, seq):
            pts = [p["locs"][b][v] for v in seq]
            return -sum(math.dist(pts[t], pts[(t + 1) % n]) for t in range(n))

        bad = []
        rows = acts.shape[0]
        for b in range(B):
            own = [r for r in range(rows) if r % B == b]
            cand = [R(b, acts[r].tolist()) for r in own]
            if abs(float(rr[b]) - R(b, ra[b].tolist())) > 1e-4:
                bad.append(f"instance {b}: reported reward {float(rr[b]):.5f} is not the objective {R(b, ra[b].tolist()):.5f} of the reported actions on the original instance")
            if abs(float(rr[b]) - max(cand)) > 1e-4:
                bad.append(f"instance {b}: reported reward {float(rr[b]):.5f} is not the maximum {max(cand):.5f} over its own candidates")
            if ra[b].tolist() not in [acts[r].tolist() for r in own]:
                bad.append(f"instance {b}: reported actions {ra[b].tolist()} are not one of its own candidates")
        return {"violations": bad[:3]}
    except Exception as e:  # noqa: BLE001
        import traceback

        return {"error": f"{type(e).__name__}: {e}", "trace": traceback.format_exc()[-1200:]}


def run_loader_lengths(p):
    """real EvalBase.__call__ with an inner step that answers loader batch k with sequences of length lengths[k]"""
    try:
        import torch
        from tensordict import TensorDict
        from torch.utils.data import DataLoader

        from rl4co.data.dataset import TensorDictDataset
        from rl4co.envs.routing.tsp.env import TSPEnv
        from rl4co.tasks.eval import GreedyEval

        N, bs, lengths = p["N"], p["batch_size"], p["lengths"]
        env = TSPEnv(generator_params={"num_loc": 3}, check_solution=False)
        ds = TensorDictDataset(TensorDict({"locs": torch.rand(N, 3, 2)}, batch_size=[N]))
        dl = DataLoader(ds, batch_size=bs, shuffle=False, collate_fn=ds.collate_fn)
        nb = -(-N // bs)
        Ls = [lengths[k % len(lengths)] for k in range(nb)]
        seqs = {i: [100 * (i + 1) + t for t in range(Ls[i // bs])] for i in range(N)}
        calls = [0]

        def inner(policy, td, **kw):
            k = calls[0]
            calls[0] += 1
            items = list(range(k * bs, min(N, (k + 1) * bs)))
            return torch.tensor([seqs[i] for i in items]), torch.tensor([float(i) for i in items])

        fn = GreedyEval(env, progress=False)
        fn._inner = inner
        pol = torch.nn.Linear(1, 1)
        res = fn(pol, dl)
        bad = []
        Lmax = max(Ls)
        if tuple(res["actions"].shape) != (N, Lmax):
            bad.append(f"actions have shape {tuple(res['actions'].shape)}, expected {(N, Lmax)} (batch lengths {Ls})")
        else:
            for i in range(N):
                want = seqs[i] + [0] * (Lmax - len(seqs[i]))
                if res["actions"][i].tolist() != want or float(res["rewards"][i]) != float(i):
                    bad.append(f"item {i}: reported actions {res['actions'][i].tolist()} / reward {float(res['rewards'][i])}, the evaluator's answer was {seqs[i]} / {float(i)} (batch lengths {Ls})")
        return {"violations": bad[:3]}
    except Exception as e:  # noqa: BLE001
        import traceback

        return {"violations": [f"EvalBase.__call__ raised on batches of different solution length: {type(e).__name__}: {str(e)[:150]}"], "trace": traceback.format_exc()[-800:]}
