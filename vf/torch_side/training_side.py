"""real-torch side of C16 / C20 replays: run the real loss code with autograd and report value + d/dEPS at 0,
resp. the real running statistics."""
import types
from fractions import Fraction

import torch
from tensordict import TensorDict


def _v(values, name, default=0.0):
    return float(Fraction(values.get(name, str(default))))


def _vec(values, name, shape, eps, tangent=True):
    import itertools

    t = torch.zeros(shape, dtype=torch.float64)
    d = torch.zeros(shape, dtype=torch.float64)
    for pos in itertools.product(*[range(s) for s in shape]):
        nm = name + "_" + "_".join(map(str, pos))
        t[pos] = _v(values, nm)
        d[pos] = _v(values, "d" + nm)
    return t + eps * d if tangent else t


def run(p):
    from rl4co.models.rl.common.utils import RewardScaler
    from rl4co.models.rl.reinforce import baselines as bl
    from rl4co.models.rl.reinforce.reinforce import REINFORCE

    torch.set_default_dtype(torch.float64)
    try:
        case, B, S, vals = p["case"], p["B"], p["S"], p["values"]
        eps = torch.zeros((), dtype=torch.float64, requires_grad=True)
        out = {}

        def mk(cls, **attrs):
            m = object.__new__(cls)
            torch.nn.Module.__init__(m)
            for k, v in attrs.items():
                object.__setattr__(m, k, v)
            object.__setattr__(m, "log_metrics", lambda *a, **k: {})
            return m

        if case in ("no", "mean", "exponential", "critic", "rollout_extra", "warmup", "warmup_done", "scaled_norm", "scaled_int"):
            v = _vec(vals, "v", (B,), eps)

            class Critic(torch.nn.Module):
                def forward(self, x):
                    return v.reshape(B, 1)

            scaler = RewardScaler({"scaled_norm": "norm", "scaled_int": 4}.get(case))
            model = mk(REINFORCE, env=None, advantage_scaler=scaler)
            batch = TensorDict({}, batch_size=[B])
            steps = 1
            if case == "no" or case.startswith("scaled"):
                base = bl.NoBaseline()
            elif case == "mean":
                base = bl.MeanBaseline()
            elif case == "exponential":
                base, steps = bl.ExponentialBaseline(beta=0.8), 3
            elif case == "critic":
                base = bl.CriticBaseline(Critic())
            elif case == "rollout_extra":
                base = bl.NoBaseline()
                batch = TensorDict({"extra": _vec(vals, "extra", (B,), eps, False)}, batch_size=[B])
            elif case in ("warmup", "warmup_done"):
                base = bl.WarmupBaseline(bl.CriticBaseline(Critic()), n_epochs=2, warmup_exp_beta=0.8)
                base.epoch_callback(None, epoch=0)
                if case == "warmup_done":
                    for ep in (1, 2, 3):
                        base.epoch_callback(None, epoch=ep)
            object.__setattr__(model, "baseline", base)
            res = []
            for step in range(steps):
                r = _vec(vals, f"r{step}" if steps > 1 else "r", (B,), eps, False)
                ll = _vec(vals, f"ll{step}" if steps > 1 else "ll", (B,), eps)
                o = model.calculate_loss(TensorDict({}, batch_size=[B]), batch, {"reward": r, "log_likelihood": ll})
                loss = o["loss"]
                g = torch.autograd.grad(loss, eps, retain_graph=True, allow_unused=True)[0]
                blv = o.get("bl_val")
                res.append({"value": float(loss), "grad": float(g) if g is not None else 0.0,
                            "bl_requires_grad": bool(getattr(blv, "requires_grad", False))})
            out["steps"] = res
        elif case in ("pomo", "symnco"):
            A = 2 if case == "symnco" else 1
            N = B * S * A
            rr = _vec(vals, "r", (N,), eps, False)
            lls = _vec(vals, "ll", (N,), eps)
            if case == "pomo":
                from rl4co.models.zoo.pomo.model import POMO

                env = types.SimpleNamespace(reset=lambda b: b, get_num_starts=lambda td: S, name="tsp")
                model = mk(POMO, env=env, policy=lambda td, env, phase=None, num_starts=None, **k: {"reward": rr, "log_likelihood": lls},
                           num_starts=S, num_augment=8, augment=None, baseline=bl.SharedBaseline(), advantage_scaler=RewardScaler(None))
            else:
                from rl4co.models.zoo.symnco import model as sym

                inv = _v(vals, "inv_loss") + eps * _v(vals, "dinv")
                sym.invariance_loss = lambda pe, n: inv
                env = types.SimpleNamespace(reset=lambda b: b, name="tsp")
                model = mk(sym.SymNCO, env=env, policy=lambda td, env, phase=None, num_starts=None, **k: {"reward": rr, "log_likelihood": lls, "proj_embeddings": None},
                           num_starts=S, num_augment=A, augment=lambda td: td, alpha=0.2, beta=1.0)
            res = model.shared_step(TensorDict({}, batch_size=[B]), 0, "train")
            loss = res["loss"]
            g = torch.autograd.grad(loss, eps, allow_unused=True)[0]
            out["steps"] = [{"value": float(loss), "grad": float(g) if g is not None else 0.0, "bl_requires_grad": False}]
        elif case == "ppo":
            from rl4co.data.dataset import TensorDictDataset
            from rl4co.models.rl.ppo.ppo import PPO

            Tn = 2
            old_ll = _vec(vals, "oldll", (B,), eps, False)
            rew = _vec(vals, "r", (B,), eps, False)
            new_ll = _vec(vals, "ll", (B, Tn), eps)
            ent = _vec(vals, "ent", (B,), eps)
            val = _vec(vals, "v", (B, 1), eps)
            acts = torch.zeros(B, Tn, dtype=torch.int64)
            tag = torch.arange(B, dtype=torch.float64)

            def policy(td, env=None, phase=None, actions=None, **k):
                if actions is None:
                    return {"actions": acts, "log_likelihood": old_ll, "reward": rew}
                idx = td["x"].long()  # the loader shuffles: answer per instance
                return {"log_likelihood": new_ll[idx], "entropy": ent[idx], "reward": rew[idx]}

            captured = []
            env = types.SimpleNamespace(reset=lambda b: b, dataset_cls=TensorDictDataset, name="tsp")
            cfg = {"clip_range": 0.2, "ppo_epochs": 1, "mini_batch_size": B, "vf_lambda": 0.5, "entropy_lambda": 0.01, "normalize_adv": False, "max_grad_norm": None}
            opt = types.SimpleNamespace(zero_grad=lambda: None, step=lambda: None)
            model = mk(PPO, env=env, policy=policy, critic=lambda td: val[td["x"].long()], ppo_cfg=cfg, optimizers=lambda: opt,
                       manual_backward=lambda loss: captured.append(loss), clip_gradients=lambda *a, **k: None)
            model.shared_step(TensorDict({"x": tag}, batch_size=[B]), 0, "train")
            loss = captured[-1]
            g = torch.autograd.grad(loss, eps, allow_unused=True)[0]
            out["steps"] = [{"value": float(loss), "grad": float(g) if g is not None else 0.0, "bl_requires_grad": False}]
        else:
            out["unsupported"] = case
        return out
    except Exception as e:  # noqa: BLE001
        import traceback

        return {"error": f"{type(e).__name__}: {e}", "trace": traceback.format_exc()[-1500:]}
    finally:
        torch.set_default_dtype(torch.float32)


def run_stats(p):
    from rl4co.models.rl.common.utils import RewardScaler

    torch.set_default_dtype(torch.float64)
    try:
        vals, m, case = p["values"], p["m"], p["case"]
        cols = p.get("cols", 1)
        xs = torch.tensor([_v(vals, f"x{i}") for i in range(m * cols)], dtype=torch.float64)
        if cols > 1:
            xs = xs.reshape(m, cols)
        out = {}
        if case == "warmup":
            from rl4co.models.rl.reinforce import baselines as bl

            bad = []
            for n_epochs in (1, 2, 3):
                class Inner(bl.REINFORCEBaseline):
                    def eval(self, td, reward, env=None):
                        return torch.tensor(7.0), torch.tensor(3.0)

                wb = bl.WarmupBaseline(Inner(), n_epochs=n_epochs, warmup_exp_beta=0.8)
                r = torch.tensor([1.0, 2.0])
                for epoch in range(-1, n_epochs + 2):
                    if epoch >= 0:
                        wb.epoch_callback(None, epoch=epoch)
                    alpha = 0 if epoch < 0 else min(1.0, (epoch + 1) / n_epochs)
                    if abs(float(wb.alpha) - alpha) > 1e-9:
                        bad.append(f"n_epochs={n_epochs}: weight after epoch {epoch} is {float(wb.alpha)}, expected {alpha}")
                    wb.warmup_baseline.v = None
                    v, l = wb.eval(None, r)
                    ev = alpha * 7.0 + (1 - alpha) * 1.5
                    el = alpha * 3.0
                    if abs(float(v) - ev) > 1e-6 or abs(float(l) - el) > 1e-6:
                        bad.append(f"n_epochs={n_epochs} epoch {epoch}: value {float(v)} / loss {float(l)} is not the convex combination {ev} / {el}")
            return {"violations": bad[:3]}
        if case == "ema":
            from rl4co.models.rl.reinforce import baselines as bl

            beta = _v(vals, "beta", 0.8)
            b = bl.ExponentialBaseline(beta=beta)
            bad, vprev = [], None
            for step in range(3):
                r = torch.tensor([_v(vals, f"r{step}_{i}", float(i + step)) for i in range(m)], dtype=torch.float64, requires_grad=True)
                v, loss = b.eval(None, r)
                ref = float(r.mean()) if vprev is None else beta * vprev + (1 - beta) * float(r.mean())
                if abs(float(v) - ref) > 1e-6:
                    bad.append(f"step {step}: v={float(v)} != beta*v+(1-beta)*mean={ref}")
                if getattr(v, "requires_grad", False):
                    bad.append(f"step {step}: the stored baseline value still requires grad")
                vprev = ref
            return {"violations": bad[:3]}
        if case.startswith("welford") or case.startswith("scale"):
            kind = {"scale_norm": "norm", "scale_scale": "scale", "scale_int": 4, "scale_none": None}.get(case, "norm")
            sc = RewardScaler(kind)
            hist = []
            if case not in ("welford_first", "scale_int", "scale_none"):
                n = int(p["n0"]) if p.get("n0") is not None else int(Fraction(vals.get("n_hist", "1")))
                S1, S2 = _v(vals, "S1"), _v(vals, "S2")
                mu = S1 / n
                if n == 1:
                    hist = [S1]
                else:
                    d = (max(S2 - S1 * S1 / n, 0.0) / 2) ** 0.5
                    hist = [mu + d, mu - d] + [mu] * (n - 2)
            out["history"] = hist
            if hist:
                sc.update(torch.tensor(hist, dtype=torch.float64))
            if case.startswith("welford"):
                sc.update(xs)
            else:
                out["output"] = sc(xs.clone()).tolist()
            if kind not in (None, 4):
                out.update(count=int(sc.count), mean=float(sc.mean), M2=float(sc.M2))
        return out
    except Exception as e:  # noqa: BLE001
        return {"error": f"{type(e).__name__}: {e}"}
    finally:
        torch.set_default_dtype(torch.float32)
