import math

import torch


def _conv(x):
    if isinstance(x, list):
        return [_conv(v) for v in x]
    if isinstance(x, float) and math.isinf(x):
        return "inf" if x > 0 else "-inf"
    if isinstance(x, float) and math.isnan(x):
        return "nan"
    return x


def to_json(td):
    return {k: {"dtype": str(v.dtype).replace("torch.", ""), "data": _conv(v.detach().cpu().tolist())} for k, v in td.items() if isinstance(v, torch.Tensor)}
