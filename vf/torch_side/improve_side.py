"""real-torch side of C09 / C06 (improvement environments) replays; judgement by plain python, no rl4co code"""
import math

import torch
from tensordict import TensorDict


def _env(kind, n, k_max=2):
    if kind == "kopt":
        from rl4co.envs.routing.tsp.env import TSPkoptEnv

        return TSPkoptEnv(generator_params={"num_loc": n}, k_max=k_max, check_solution=False), n
    from rl4co.envs.routing.pdp.env import PDPRuinRepairEnv

    return PDPRuinRepairEnv(generator_params={"num_loc": n}, check_solution=False), n + 1


def valid_tour(rec, pdp):
    gs = len(rec)
    if any(not 0 <= x < gs for x in rec):
        return False, "index out of range"
    order, cur = [0], 0
    for _ in range(gs - 1):
        cur = rec[cur]
        order.append(cur)
    if len(set(order)) != gs or rec[cur] != 0:
        return False, f"following the successors from node 0 gives {order} (not one cycle through all nodes)"
    if pdp:
        h = (gs - 1) // 2
        pos = {v: i for i, v in enumerate(order)}
        for p in range(1, h + 1):
            if pos[p] > pos[p + h]:
                return False, f"delivery {p + h} before pickup {p}"
    return True, "valid"


def _vt(rec):
    gs = len(rec)
    vt = [0] * gs
    pre = 0
    for i in range(gs):
        vt[rec[pre]] = i + 1
        pre = rec[pre]
    return vt


def run_checker(p):
    try:
        env, gs = _env(p["kind"], p["n"])
        td = TensorDict({"rec_best": torch.tensor([p["rec"]])}, batch_size=[1])
        try:
            env.check_solution_validity(td)
            verdict = "accept"
        except AssertionError as e:
            verdict = f"reject: {e}"
        ok, why = valid_tour(p["rec"], p["kind"] == "pdp")
        return {"verdict": verdict, "valid_tour": ok, "why": why}
    except Exception as e:  # noqa: BLE001
        return {"error": f"{type(e).__name__}: {e}"}


def run_sampled(p):
    """draw from the environment's own sampler on the given tour until the solver's move shows up (small instances: a few
    dozen distinct moves exist); report an exception of the sampler, or the invalid tour the move produces"""
    try:
        env, gs = _env(p["kind"], p["n"], p.get("k_max", 2))
        rec = torch.tensor([p["rec"]])
        td = TensorDict({"visited_time": torch.tensor([_vt(p["rec"])]), "rec_current": rec, "rec_best": rec.clone(), "action_record": torch.zeros(1, gs, max(gs // 2, 1))}, batch_size=[1])
        target = tuple(p["action"]) if p.get("action") else None
        seen = set()
        for seed in range(20000):
            torch.manual_seed(seed)
            try:
                a = tuple(int(x) for x in env._random_action(td)[0].tolist())
            except Exception as e:  # noqa: BLE001
                return {"pre_valid": True, "admitted": True, "valid": False, "next": None, "why": f"the environment's move sampler raises at batch size 1: {type(e).__name__}: {str(e)[:120]}"}
            if a not in seen:
                seen.add(a)
                nxt = env._local_operator(rec, torch.tensor([a]))[0].tolist()
                ok, why = valid_tour(nxt, p["kind"] == "pdp")
                if not ok:
                    return {"pre_valid": True, "admitted": True, "valid": False, "next": nxt, "why": f"sampled move {list(a)}: {why}", "action": list(a)}
            if target is not None and target in seen and seed > 200:
                break
        return {"pre_valid": True, "admitted": target in seen if target is not None else True, "valid": True, "next": None, "why": f"{len(seen)} distinct sampled moves, all valid"}
    except Exception as e:  # noqa: BLE001
        return {"error": f"{type(e).__name__}: {e}"}


def run_move(p):
    if p.get("sampled"):
        return run_sampled(p)
    try:
        env, gs = _env(p["kind"], p["n"], p.get("k_max", 2))
        rec = torch.tensor([p["rec"]])
        ok0, why0 = valid_tour(p["rec"], p["kind"] == "pdp")
        td = TensorDict({"visited_time": torch.tensor([_vt(p["rec"])]), "rec_current": rec, "rec_best": rec.clone()}, batch_size=[1])
        a = torch.tensor([p["action"]])
        if p["kind"] == "kopt":
            admitted = bool(env.get_mask(td)[0, a[0, 0], a[0, 1]])
        else:
            admitted = bool(env.get_mask(a[:, :1] + 1, td)[0, a[0, 1], a[0, 2]])
        nxt = env._local_operator(rec, a)[0].tolist()
        ok, why = valid_tour(nxt, p["kind"] == "pdp")
        return {"pre_valid": ok0, "admitted": admitted, "next": nxt, "valid": ok, "why": why}
    except Exception as e:  # noqa: BLE001
        return {"error": f"{type(e).__name__}: {e}"}


def run_steps(p):
    try:
        env, gs = _env(p["kind"], p["n"], p.get("k_max", 2))
        rec = torch.tensor([p["rec"]])
        env.generator._get_initial_solutions = lambda coords: rec.clone()
        locs = torch.tensor([p["locs"]], dtype=torch.float32)
        td_in = TensorDict({"locs": locs}, batch_size=[1]) if p["kind"] == "kopt" else TensorDict({"depot": locs[:, 0], "locs": locs[:, 1:]}, batch_size=[1])
        td = env.reset(td_in)

        def length(r):
            return sum(math.dist(p["locs"][v], p["locs"][r[v]]) for v in range(gs))

        bad = []
        best = length(p["rec"])
        L0 = best
        tot = 0.0
        for t, a in enumerate(p["actions"]):
            td.set("action", torch.tensor([a]))
            prev_best = td["rec_best"][0].tolist()
            try:
                td = env.step(td)["next"]
            except Exception as e:  # noqa: BLE001
                bad.append(f"step {t}: stepping the admitted move {a} at batch size 1 raised {type(e).__name__}: {str(e)[:120]}")
                return {"violations": bad}
            cur, bst = td["rec_current"][0].tolist(), td["rec_best"][0].tolist()
            Lc = length(cur)
            nb = min(best, Lc)
            if abs(float(td["cost_current"][0]) - Lc) > 1e-4:
                bad.append(f"step {t}: cost_current {float(td['cost_current'][0])} != length of current tour {Lc}")
            if abs(float(td["cost_bsf"][0]) - nb) > 1e-4:
                bad.append(f"step {t}: cost_bsf {float(td['cost_bsf'][0])} != min over tours seen {nb}")
            if abs(float(td["cost_bsf"][0]) - length(bst)) > 1e-4:
                bad.append(f"step {t}: cost_bsf {float(td['cost_bsf'][0])} != length of stored best tour {length(bst)}")
            if abs(float(td["reward"][0]) - (best - nb)) > 1e-4:
                bad.append(f"step {t}: reward {float(td['reward'][0])} != decrease of best cost {best - nb}")
            if Lc >= best - 1e-7 and bst != prev_best:
                bad.append(f"step {t}: stored best tour changed although the new tour is not better")
            if not valid_tour(cur, p["kind"] == "pdp")[0]:
                bad.append(f"step {t}: current tour {cur} is not a valid tour")
            if not valid_tour(bst, p["kind"] == "pdp")[0]:
                bad.append(f"step {t}: stored best tour {bst} is not a valid tour")
            tot += float(td["reward"][0])
            best = nb
        if abs(tot - (L0 - best)) > 1e-4:
            bad.append(f"rewards sum to {tot}, initial - best = {L0 - best}")
        return {"violations": bad}
    except Exception as e:  # noqa: BLE001
        import traceback

        return {"error": f"{type(e).__name__}: {e}", "trace": traceback.format_exc()[-1200:]}
