"""real-torch side of C10 replays: run the real process_logits / greedy / sampling on concrete inputs"""
import math

import torch

from rl4co.utils import decoding as D


def _l(t):
    return [[("-inf" if (isinstance(x, float) and math.isinf(x) and x < 0) else ("inf" if isinstance(x, float) and math.isinf(x) else x)) for x in row] for row in t.tolist()]


def run(p):
    """the solver's softmax is a contract stub, so its model fixes the ordering of the logits but not the exact
    probabilities: besides the model's own values a few re-scalings of the same instance are executed (same ordering
    and ties, other temperature / top_p / logit spread); the parent reports the first that shows the violation"""
    outs = [run_one(p)]
    for temp in (0.25, 0.5, 2.0, 4.0):
        for tp in ((0.3, 0.6, 0.85) if 0 < p["top_p"] < 1 else (p["top_p"],)):
            for spread in (1.0, 3.0):
                q = dict(p, temperature=temp, top_p=tp)
                lg = p["logits"] if isinstance(p["logits"][0], list) else [p["logits"]]
                q["logits"] = [[x * spread for x in row] for row in lg]
                q["mask"] = p["mask"] if isinstance(p["mask"][0], list) else [p["mask"]]
                outs.append(dict(run_one(q), params=q))
    outs[0]["variants"] = outs[1:]
    return outs[0]


def run_one(p):
    lg, mk = p["logits"], p["mask"]
    if lg and not isinstance(lg[0], list):
        lg, mk = [lg], [mk]
    logits = torch.tensor(lg, dtype=torch.float32)
    mask = torch.tensor(mk, dtype=torch.bool)
    out = {}
    try:
        kw = dict(temperature=p["temperature"], tanh_clipping=p["tanh_clipping"])
        if p.get("strategy"):  # through DecodingStrategy.step, all log-probabilities stored
            from tensordict import TensorDict

            st = D.Sampling(temperature=p["temperature"], top_p=p["top_p"], top_k=p["top_k"], tanh_clipping=p["tanh_clipping"], mask_logits=True, store_all_logp=True)
            st.step(logits.clone(), mask.clone(), TensorDict({}, batch_size=[logits.shape[0]]))
            lp = st.logprobs[-1]
        else:
            lp = D.process_logits(logits.clone(), mask.clone(), top_p=p["top_p"], top_k=p["top_k"], **kw)
        lp0 = D.process_logits(logits.clone(), mask.clone(), top_p=0.0, top_k=0, **kw)
        out["logprobs"], out["unfiltered"] = _l(lp), _l(lp0)
        if p.get("shift"):
            lps = D.process_logits(logits.clone() + p["shift"], mask.clone(), top_p=p["top_p"], top_k=p["top_k"], **kw)
            out["shifted"] = _l(lps)
        try:
            out["greedy"] = D.DecodingStrategy.greedy(lp, mask).tolist()
        except AssertionError as e:
            out["greedy_assert"] = str(e)
        torch.manual_seed(0)
        samples = []
        for _ in range(64):
            try:
                samples.append(D.DecodingStrategy.sampling(lp, mask).tolist())
            except Exception as e:  # noqa: BLE001
                out["sampling_error"] = f"{type(e).__name__}: {e}"
                break
        out["samples"] = [sorted({smp[b] for smp in samples}) for b in range(logits.shape[0])] if samples else []
    except Exception as e:  # noqa: BLE001
        out["error"] = f"{type(e).__name__}: {e}"
    return out
