"""real-torch side of C10 replays: run the real process_logits / greedy / sampling on concrete inputs"""
import math

import torch

from rl4co.utils import decoding as D


def _l(t):
    return [("-inf" if (isinstance(x, float) and math.isinf(x) and x < 0) else ("inf" if isinstance(x, float) and math.isinf(x) else x)) for x in t.reshape(-1).tolist()]


def run(p):
    logits = torch.tensor([p["logits"]], dtype=torch.float32)
    mask = torch.tensor([p["mask"]], dtype=torch.bool)
    out = {}
    try:
        kw = dict(temperature=p["temperature"], tanh_clipping=p["tanh_clipping"])
        lp = D.process_logits(logits.clone(), mask.clone(), top_p=p["top_p"], top_k=p["top_k"], **kw)
        lp0 = D.process_logits(logits.clone(), mask.clone(), top_p=0.0, top_k=0, **kw)
        out["logprobs"], out["unfiltered"] = _l(lp), _l(lp0)
        if p.get("shift"):
            lps = D.process_logits(logits.clone() + p["shift"], mask.clone(), top_p=p["top_p"], top_k=p["top_k"], **kw)
            out["shifted"] = _l(lps)
        try:
            out["greedy"] = int(D.DecodingStrategy.greedy(lp, mask)[0])
        except AssertionError as e:
            out["greedy_assert"] = str(e)
        torch.manual_seed(0)
        samples = []
        for _ in range(64):
            try:
                samples.append(int(D.DecodingStrategy.sampling(lp, mask)[0]))
            except Exception as e:  # noqa: BLE001
                out["sampling_error"] = f"{type(e).__name__}: {e}"
                break
        out["samples"] = sorted(set(samples))
    except Exception as e:  # noqa: BLE001
        out["error"] = f"{type(e).__name__}: {e}"
    return out
