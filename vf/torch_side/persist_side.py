"""real-torch side of C19 replays"""
import os
import shutil
import tempfile
import types

import torch
from tensordict import TensorDict


def run_text(p):
    from rl4co.envs.scheduling.fjsp import parser
    from rl4co.envs.scheduling.fjsp.env import FJSPEnv
    from rl4co.envs.scheduling.fjsp.generator import FJSPFileGenerator

    shapes, NM = p["shapes"], p["NM"]
    B, NJ = len(shapes), len(shapes[0])
    totals = [sum(s) for s in shapes]
    pad_to = max(totals)
    proc = torch.tensor(p["proc"], dtype=torch.float32)
    ends = [[sum(s[: j + 1]) - 1 for j in range(NJ)] for s in shapes]
    starts = [[sum(s[:j]) for j in range(NJ)] for s in shapes]
    td = TensorDict({"start_op_per_job": torch.tensor(starts), "end_op_per_job": torch.tensor(ends), "proc_times": proc,
                     "pad_mask": torch.tensor([[o >= totals[b] for o in range(pad_to)] for b in range(B)])}, batch_size=[B])
    gen = types.SimpleNamespace(num_mas=NM, num_jobs=NJ, max_ops_per_job=max(max(s) for s in shapes), n_ops_max=pad_to)
    env = FJSPEnv(generator=gen, mask_no_ops=True)
    tmp = tempfile.mkdtemp(prefix="verif_c19_")
    real_listdir = os.listdir
    bad = []
    try:
        tdr = env.reset(td.clone())
        try:
            parser.write(tmp, tdr)
        except AssertionError as e:
            return {"violations": [f"the writer rejects a well-formed instance: {e}"]}
        files = sorted(real_listdir(tmp))
        if len(files) != B:
            return {"violations": [f"{len(files)} files written for {B} instances"]}
        order = p.get("order") or list(range(B))
        os.listdir = lambda q: [files[i] for i in order] if os.path.abspath(q) == os.path.abspath(tmp) else real_listdir(q)
        try:
            g = FJSPFileGenerator(tmp)
            back = g(batch_size=[B])
            again = g(batch_size=[B])
            if tuple(again["proc_times"].shape) != tuple(back["proc_times"].shape) or not torch.equal(again["proc_times"], back["proc_times"]):
                bad.append(f"a second request for {B} instance(s) from the {B} written file(s) returns a batch of shape {tuple(again['proc_times'].shape)} instead of the same instances again (first: {tuple(back['proc_times'].shape)})")
        except Exception as e:  # noqa: BLE001
            return {"violations": [f"reading the written files back raised {type(e).__name__}: {str(e)[:150]}"]}
        finally:
            os.listdir = real_listdir
        if g.num_jobs != NJ or g.num_mas != NM:
            bad.append(f"file generator reports {g.num_jobs} jobs / {g.num_mas} machines, written {NJ} / {NM}")
        if tuple(back["proc_times"].shape) != (B, NM, pad_to):
            bad.append(f"read-back proc_times has shape {tuple(back['proc_times'].shape)}, written {(B, NM, pad_to)}")
        else:
            for k, i in enumerate(order):
                if not torch.equal(back["proc_times"][k].float(), proc[i]):
                    bad.append(f"instance {i}: processing times differ after the round trip: wrote {proc[i].tolist()}, read {back['proc_times'][k].tolist()}")
                if back["start_op_per_job"][k].long().tolist() != starts[i] or back["end_op_per_job"][k].long().tolist() != ends[i]:
                    bad.append(f"instance {i}: job structure differs: wrote starts {starts[i]} ends {ends[i]}, read {back['start_op_per_job'][k].tolist()} / {back['end_op_per_job'][k].tolist()}")
                if back["pad_mask"][k].tolist() != [o >= totals[i] for o in range(pad_to)]:
                    bad.append(f"instance {i}: padding mask {back['pad_mask'][k].tolist()} does not mark the operations beyond {totals[i]}")
    finally:
        os.listdir = real_listdir
        shutil.rmtree(tmp, ignore_errors=True)
    return {"violations": bad[:3]}


def run_jssp_read(p):
    from rl4co.envs.scheduling.jssp import parser

    NJ, NM, ma, dur = p["NJ"], p["NM"], p["ma"], p["dur"]
    tmp = tempfile.mkdtemp(prefix="verif_c19_")
    bad = []
    try:
        path = os.path.join(tmp, "inst.txt")
        with open(path, "w") as fh:
            fh.write("\n".join([f"{NJ} {NM}"] + [" ".join(f"{ma[j][o]} {dur[j][o]}" for o in range(NM)) for j in range(NJ)]) + "\n")
        try:
            td, nj, nm, mo = parser.read(path, max_ops=p.get("max_ops"))
        except Exception as e:  # noqa: BLE001
            return {"violations": [f"reading a well-formed file raised {type(e).__name__}: {str(e)[:150]}"]}
        width = p.get("max_ops") or NJ * NM
        if (nj, nm, mo) != (NJ, NM, NM):
            bad.append(f"reader reports jobs/machines/max-ops {(nj, nm, mo)}, file says {(NJ, NM, NM)}")
        want = torch.zeros(1, NM, width)
        for j in range(NJ):
            for o in range(NM):
                want[0, ma[j][o] - 1, j * NM + o] = dur[j][o]
        if tuple(td["proc_times"].shape) != tuple(want.shape) or not torch.equal(td["proc_times"].float(), want):
            bad.append(f"proc_times {td['proc_times'].tolist()} differ from the file content {want.tolist()}")
        if td["pad_mask"][0].tolist() != [op >= NJ * NM for op in range(width)]:
            bad.append("padding mask does not follow the file")
        if td["start_op_per_job"][0].long().tolist() != [j * NM for j in range(NJ)] or td["end_op_per_job"][0].long().tolist() != [j * NM + NM - 1 for j in range(NJ)]:
            bad.append("job structure does not follow the file")
    finally:
        shutil.rmtree(tmp, ignore_errors=True)
    return {"violations": bad[:3]}


def run_npz(p):
    from rl4co.data.utils import load_npz_to_tensordict, save_tensordict_to_npz

    case, B, n = p["case"], p["B"], p["n"]
    tmp = tempfile.mkdtemp(prefix="verif_c19_")
    bad = []
    try:
        torch.manual_seed(0)
        f = os.path.join(tmp, "d.npz")
        if case == "generic":
            td = TensorDict({"locs": torch.rand(B, n, 2), "demand": torch.rand(B, n), "num_agents": torch.randint(1, 5, (B,)), "flag": torch.rand(B, 1) > 0.5}, batch_size=[B])
            for compress in (False, True):
                save_tensordict_to_npz(td, f, compress=compress)
                back = load_npz_to_tensordict(f)
                if set(back.keys()) != set(td.keys()):
                    bad.append(f"keys differ: {sorted(back.keys())} vs {sorted(td.keys())}")
                    continue
                if list(back.batch_size) != [B]:
                    bad.append(f"batch size {list(back.batch_size)} != {[B]}")
                for k in td.keys():
                    if back[k].dtype != td[k].dtype or back[k].shape != td[k].shape or not torch.equal(back[k], td[k]):
                        bad.append(f"'{k}' differs after the round trip (dtype {back[k].dtype} vs {td[k].dtype}, shape {tuple(back[k].shape)} vs {tuple(td[k].shape)})")
        elif case == "cvrp":
            import numpy as np

            from rl4co.envs.routing.cvrp.env import CVRPEnv

            dem, cap = torch.randint(1, 10, (B, n)).float(), torch.tensor([20.0 + 10 * b for b in range(B)])
            np.savez(f, locs=torch.rand(B, n, 2).numpy(), depot=torch.rand(B, 2).numpy(), demand=dem.numpy(), capacity=cap.numpy())
            back = CVRPEnv.load_data(f)
            again = CVRPEnv.load_data(f)
            if tuple(again["demand"].shape) != (B, n) or not torch.allclose(again["demand"], dem / cap[:, None]):
                bad.append(f"loading the same file a second time gives different demands {again['demand'].tolist()} (expected stored demand / capacity {(dem / cap[:, None]).tolist()})")
            if tuple(back["demand"].shape) != (B, n):
                bad.append(f"demand has shape {tuple(back['demand'].shape)} after load_data, stored {(B, n)}")
            elif not torch.allclose(back["demand"], dem / cap[:, None]):
                bad.append(f"loaded demand {back['demand'].tolist()} != stored demand / capacity {(dem / cap[:, None]).tolist()}")
        elif case == "mtvrp":
            import numpy as np

            from rl4co.envs.routing.mtvrp.env import MTVRPEnv

            dl, db, cap = torch.randint(1, 10, (B, n)).float(), torch.randint(1, 10, (B, n)).float(), torch.tensor([[20.0 + 10 * b] for b in range(B)])
            np.savez(f, demand_linehaul=dl.numpy(), demand_backhaul=db.numpy(), capacity_original=cap.numpy())
            env = object.__new__(MTVRPEnv)
            for scale in (False, True):
                back = MTVRPEnv.load_data(env, f, scale=scale)
                wl, wb = (dl / cap, db / cap) if scale else (dl, db)
                if not torch.allclose(back["demand_linehaul"], wl) or not torch.allclose(back["demand_backhaul"], wb):
                    bad.append(f"scale={scale}: loaded demands are not the stored ones {'divided by the original capacity' if scale else ''}")
    finally:
        shutil.rmtree(tmp, ignore_errors=True)
    return {"violations": bad[:3]}


def run_cvrp_bits(p):
    import numpy as np

    from rl4co.envs.routing.cvrp.env import CVRPEnv

    d, caps = p["d"], p["caps"]
    tmp = tempfile.mkdtemp(prefix="verif_c19_")
    bad = []
    try:
        f = os.path.join(tmp, "d.npz")
        nb, n = len(caps), len(d)
        dem = torch.tensor([d] * nb, dtype=torch.float32)
        cap = torch.tensor(caps, dtype=torch.float32)
        np.savez(f, locs=torch.zeros(nb, n, 2).numpy(), depot=torch.zeros(nb, 2).numpy(), demand=dem.numpy(), capacity=cap.numpy())
        back = CVRPEnv.load_data(f)
        ref = dem / cap[:, None]  # what the generator computes in memory: demand / capacity
        for b in range(nb):
            for j in range(n):
                if back["demand"][b, j].item() != ref[b, j].item():
                    bad.append(f"capacity {caps[b]:g}, demand {d[j]}: loaded {back['demand'][b, j].item()!r} != in-memory normalisation {ref[b, j].item()!r}")
    finally:
        shutil.rmtree(tmp, ignore_errors=True)
    return {"violations": bad[:3]}


def run_check_extension(p):
    from rl4co.data.utils import check_extension

    fn = p["filename"]
    out = check_extension(fn)
    ok = out == fn + ".npz" or (out == fn and fn.endswith(".npz") and len(fn) >= 4)
    return {"violations": [] if ok else [f"check_extension({fn!r}) returns {out!r}: characters of the name are lost (a dataset written under this name is not found again / collides with siblings)"]}
