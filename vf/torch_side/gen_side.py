"""real-torch side of C18 replays: run the REAL generator while every sampler call returns, in call order, the values
the solver chose for the corresponding symbolic draw; return the generated instance (or the exception raised)."""
import importlib
from fractions import Fraction

import torch

GENERATORS = {
    "tsp": ("rl4co.envs.routing.tsp.generator", "TSPGenerator"), "cvrp": ("rl4co.envs.routing.cvrp.generator", "CVRPGenerator"),
    "op": ("rl4co.envs.routing.op.generator", "OPGenerator"), "pctsp": ("rl4co.envs.routing.pctsp.generator", "PCTSPGenerator"),
    "pdp": ("rl4co.envs.routing.pdp.generator", "PDPGenerator"), "mtsp": ("rl4co.envs.routing.mtsp.generator", "MTSPGenerator"),
    "svrp": ("rl4co.envs.routing.svrp.generator", "SVRPGenerator"), "atsp": ("rl4co.envs.routing.atsp.generator", "ATSPGenerator"),
    "smtwtp": ("rl4co.envs.scheduling.smtwtp.generator", "SMTWTPGenerator"), "ffsp": ("rl4co.envs.scheduling.ffsp.generator", "FFSPGenerator"),
    "flp": ("rl4co.envs.graph.flp.generator", "FLPGenerator"), "mcp": ("rl4co.envs.graph.mcp.generator", "MCPGenerator"),
    "cvrptw": ("rl4co.envs.routing.cvrptw.generator", "CVRPTWGenerator"), "mtvrp": ("rl4co.envs.routing.mtvrp.generator", "MTVRPGenerator"),
    "fjsp": ("rl4co.envs.scheduling.fjsp.generator", "FJSPGenerator"), "jssp": ("rl4co.envs.scheduling.jssp.generator", "JSSPGenerator"),
    "mdcpdp": ("rl4co.envs.routing.mdcpdp.generator", "MDCPDPGenerator"),
    "dpp": ("rl4co.envs.eda.dpp.generator", "DPPGenerator"), "mdpp": ("rl4co.envs.eda.mdpp.generator", "MDPPGenerator"),
}


class Mismatch(Exception):
    pass


class Feed:
    def __init__(self, draws):
        self.q = list(draws)
        self.used = 0

    def take(self, kind, shape, dtype):
        if not self.q:
            raise Mismatch(f"real run draws more samples than the symbolic run (extra {kind}{list(shape)})")
        d = self.q.pop(0)
        if d["kind"] != kind or list(d["shape"]) != list(shape):
            raise Mismatch(f"sampler call order differs: real {kind}{list(shape)} vs symbolic {d['kind']}{d['shape']}")
        self.used += 1
        if dtype.is_floating_point:
            vals = [float(Fraction(v)) for v in d["values"]]
        else:
            vals = [int(Fraction(v)) for v in d["values"]]
        return torch.tensor(vals, dtype=dtype).reshape(tuple(shape))


def _shape(args, kw):
    if "size" in kw:
        s = kw["size"]
    elif len(args) == 1 and isinstance(args[0], (tuple, list, torch.Size)):
        s = args[0]
    else:
        s = args
    return tuple(int(x) for x in s)


def run_gen(p):
    feed = Feed(p["draws"])
    saved = {}

    def patch(obj, name, fn):
        saved[(obj, name)] = getattr(obj, name)
        setattr(obj, name, fn)

    def rand(*a, **k):
        return feed.take("rand", _shape(a, k), torch.float32)

    def rand_like(t, **k):
        return feed.take("rand", tuple(t.shape), torch.float32)

    def randn(*a, **k):
        return feed.take("randn", _shape(a, k), torch.float32)

    def randint(*a, **k):
        a = list(a)
        size = k.get("size")
        if size is None:
            size = a.pop()
        lo, hi = (0, a[0]) if len(a) == 1 else (a[0], a[1])
        t = feed.take("randint", tuple(int(x) for x in size), k.get("dtype") or torch.int64)
        if bool((t < lo).any()) or bool((t >= hi).any()):
            raise Mismatch(f"fed randint values {t.flatten().tolist()} lie outside the sampler's support [{lo}, {hi})")
        return t

    def randperm(n, **k):
        return feed.take("randperm", (int(n),), torch.int64)

    def multinomial(w, num_samples, replacement=False, **k):
        rows = w.shape[0] if w.dim() == 2 else 1
        out = feed.take("multinomial", (rows, int(num_samples)), torch.int64)
        return out if w.dim() == 2 else out[0]

    def uniform_(self, a=0.0, b=1.0):
        r = feed.take("rand", tuple(self.shape), torch.float32)
        self.copy_(r * (b - a) + a)
        return self

    def usample(self, sample_shape=torch.Size()):
        shp = tuple(sample_shape) + tuple(self.batch_shape)
        return feed.take("uniform", shp, torch.float32)

    def normal(mean, std=1.0, size=None, **k):
        shp = tuple(size) if size is not None else tuple(torch.broadcast_shapes(getattr(mean, "shape", ()), getattr(std, "shape", ())))
        return feed.take("normal", shp, torch.float32)

    patch(torch, "rand", rand), patch(torch, "rand_like", rand_like), patch(torch, "randn", randn), patch(torch, "randint", randint)
    patch(torch, "randperm", randperm), patch(torch, "multinomial", multinomial), patch(torch.Tensor, "multinomial", multinomial)
    patch(torch.Tensor, "uniform_", uniform_), patch(torch.distributions.Uniform, "sample", usample), patch(torch, "normal", normal)
    out = {}
    try:
        mod, cls = GENERATORS[p["name"]]
        if p["name"] in ("dpp", "mdpp"):  # constructors need downloaded chip data that _generate does not use
            g = object.__new__(getattr(importlib.import_module(mod), cls))
            g.__dict__.update(p["params"])
        else:
            g = getattr(importlib.import_module(mod), cls)(**p["params"])
        try:
            td = g(p["B"]) if p["name"] == "mcp" else g([p["B"]])
        except Mismatch as e:
            return {"error": f"replay mismatch: {e}"}
        except Exception as e:  # noqa: BLE001
            import traceback

            return {"raised": f"{type(e).__name__}: {str(e)[:200]}", "trace": traceback.format_exc()[-800:], "unused_draws": len(feed.q)}
        from vf_json import to_json

        out = {"td": to_json(td), "unused_draws": len(feed.q)}
    finally:
        for (obj, name), fn in saved.items():
            setattr(obj, name, fn)
    return out
