"""real-torch side of C17 replays: real dataset classes through the real DataLoader with a fixed index order"""
import torch
from tensordict import TensorDict
from torch.utils.data import DataLoader, Sampler


class _Order(Sampler):
    def __init__(self, order):
        self.order = order

    def __iter__(self):
        return iter(self.order)

    def __len__(self):
        return len(self.order)


def run_dataset(p):
    try:
        from rl4co.data import dataset as ds

        N, bs, perm = p["N"], p["bs"], p["perm"]
        locs = torch.arange(N * 4, dtype=torch.float32).reshape(N, 2, 2) / 7
        dem = torch.arange(N * 2).reshape(N, 2) + 50
        flag = torch.tensor([i % 2 == 0 for i in range(N)])
        ex = torch.arange(N, dtype=torch.float32) + 0.5
        td = TensorDict({"locs": locs, "demand": dem, "flag": flag}, batch_size=[N])
        dataset = getattr(ds, p["cls"])(td.clone())
        if p.get("rewrap"):
            first = dataset.add_key("extra", ex.clone())
            list(DataLoader(first, batch_size=bs, collate_fn=first.collate_fn))  # the first wrapper is read (an epoch of training)
            ex = ex + 100.0  # the baseline is re-evaluated: new values, same key, same base dataset
            dataset = dataset.add_key("extra", ex.clone())
        elif p["extra"]:
            dataset = dataset.add_key("extra", ex.clone())
        dl = DataLoader(dataset, batch_size=bs, sampler=_Order(perm), collate_fn=dataset.collate_fn)
        bad, pos = [], 0
        for b in dl:
            for r in range(b.batch_size[0]):
                i = perm[pos]
                for key, src in (("locs", locs), ("demand", dem), ("flag", flag)) + ((("extra", ex),) if p["extra"] else ()):
                    if key not in b.keys():
                        bad.append(f"key {key} missing")
                    elif b[key].dtype != src.dtype or not torch.equal(b[key][r], src[i]):
                        bad.append(f"item at loader position {pos} (dataset index {i}): key {key} = {b[key][r].tolist()} (dtype {b[key].dtype}), expected {src[i].tolist()} ({src.dtype})")
                pos += 1
        if pos != N:
            bad.append(f"{pos} items read back, dataset has {N}")
        return {"violations": bad[:3]}
    except Exception as e:  # noqa: BLE001
        import traceback

        return {"error": f"{type(e).__name__}: {e}", "trace": traceback.format_exc()[-1200:]}


def run_rollout(p):
    try:
        import types

        from rl4co.data import dataset as ds
        from rl4co.models.rl.reinforce.baselines import RolloutBaseline

        N, eval_bs = p["N"], p["eval_bs"]
        locs = torch.rand(N, 2, 2)
        td = TensorDict({"locs": locs}, batch_size=[N])

        class Pol(torch.nn.Module):
            """mode-sensitive like a real policy with batch norm: in training mode a row's value depends on its batch-mates"""

            def __init__(self):
                super().__init__()
                self.bn = torch.nn.BatchNorm1d(1)
                self.w = torch.nn.Parameter(torch.zeros(()))

            def forward(self, batch, env=None, decode_type=None, **k):
                x = batch["locs"][:, 0, 0]
                if self.training:
                    return {"reward": x * 3 + 1 + x.sum() + self.w}
                return {"reward": x * 3 + 1 + self.w}

        env = types.SimpleNamespace(reset=lambda b: b, name="tsp", dataset=lambda batch_size=None, **k: ds.TensorDictDataset(td.clone()))
        rb = RolloutBaseline()
        actor = Pol().train()
        rb.setup(actor, env, batch_size=eval_bs, device="cpu", dataset_size=N)
        bad = []
        if len(rb.bl_vals) != N or any(abs(float(rb.bl_vals[i]) - float(locs[i, 0, 0] * 3 + 1)) > 1e-5 for i in range(N)):
            bad.append("setup: stored baseline values are not the copied policy's inference-mode rewards")
        with torch.no_grad():
            actor.w.add_(5.0)  # the actor keeps training: an optimizer updates its parameters in place; the baseline is a frozen snapshot
        rb.train()  # the trainer puts the whole module tree (baseline policy included) into train mode at every epoch start
        for cls_name in ("TensorDictDataset", "FastTdDataset", "TensorDictDatasetFastGeneration"):
            wrapped = rb.wrap_dataset(getattr(ds, cls_name)(td.clone()), env, batch_size=eval_bs, device="cpu")
            for perm in (list(range(N)), list(range(N))[::-1]):
                dl = DataLoader(wrapped, batch_size=2, sampler=_Order(perm), collate_fn=wrapped.collate_fn)
                pos = 0
                for b in dl:
                    for r in range(b.batch_size[0]):
                        i = perm[pos]
                        if "extra" not in b.keys() or not torch.equal(b["locs"][r], locs[i]) or abs(float(b["extra"][r]) - float(locs[i, 0, 0] * 3 + 1)) > 1e-6:
                            bad.append(f"{cls_name}: loader position {pos} (dataset index {i}) carries the baseline value {float(b['extra'][r]) if 'extra' in b.keys() else None:.5f}, the baseline policy's inference-mode reward on that instance is {float(locs[i, 0, 0] * 3 + 1):.5f}")
                        pos += 1
        return {"violations": bad[:3]}
    except Exception as e:  # noqa: BLE001
        import traceback

        return {"error": f"{type(e).__name__}: {e}", "trace": traceback.format_exc()[-1200:]}
