"""Per-environment specifications: how to build the real env, a symbolic instance under the generator contract,
and the independent ground-truth oracle (DESIGN.md Appendix A).  Routing environments."""
from __future__ import annotations

import math
from fractions import Fraction

import numpy as np
import z3

from symtorch import tensor as T
from symtorch.tdict import TensorDict

from . import oracle as O
from .oracle import OState, all_, any_, pick, pick2, s_add, s_and, s_eq, s_ge, s_gt, s_le, s_lt, s_max, s_min, s_mul, s_ne, s_not, s_or, s_sub, s_where, ssum

MARGIN = [0.0]  # tolerance added to oracle inequalities; the symbolic driver installs a solver constant here


def margin():
    return MARGIN[0]


class Inst:
    """symbolic (or concrete) instance: the input TensorDict + per-row python views for the oracle"""

    def __init__(self, td, rows, real_vars=(), ycoords=(), notes=()):
        self.td, self.rows, self.real_vars, self.ycoords, self.notes = td, rows, list(real_vars), list(ycoords), list(notes)
        self.inputs = dict(td.d)  # references to the input tensors (reset() merges state into td)


class Src:
    """source of symbolic instance data: fresh solver variables + generator-contract assumptions"""

    def __init__(self, E, ctx, tag=""):
        self.E, self.ctx, self.tag = E, ctx, tag
        self.reals, self.ys = [], []

    def real(self, name, lo=None, hi=None, lo_strict=False, hi_strict=False):
        v = z3.Real(f"{self.tag}{name}")
        if lo is not None:
            self.E.assume(v > lo if lo_strict else v >= lo)
        if hi is not None:
            self.E.assume(v < hi if hi_strict else v <= hi)
        self.reals.append(v)
        return v

    def int(self, name, lo, hi):
        v = z3.Int(f"{self.tag}{name}")
        self.E.assume(z3.And(v >= lo, v <= hi))
        return v

    def coords(self, name, count, lo=0, hi=1):
        X = [self.real(f"{name}x{j}", lo, hi) for j in range(count)]
        Y = [self.real(f"{name}y{j}", lo, hi) for j in range(count)]
        self.ys.extend(Y)
        return X, Y

    def assume(self, c, text=None):
        self.E.assume(c)
        if text:
            self.ctx.assumptions.add(text)


def ftensor(rows):
    return T.Tensor(np.array(rows, dtype=object), T.float32)


class Spec:
    name = module = cls = None
    variants = (None,)
    metric = "l2"
    checker = True
    has_reward = True  # False: reward needs external data (DPP/MDPP impedance simulation), excluded by C03
    record = ()

    def env_kwargs(self, n, variant):
        return {"generator_params": {"num_loc": n}, "check_solution": False}

    def make_env(self, world, n, variant):
        mod = world.load(self.module)
        return getattr(mod, self.cls)(**self.env_kwargs(n, variant))

    def n_actions(self, n, variant):
        return n + 1

    def bound(self, n, variant):
        return 2 * n + 1

    def instance(self, src, B, n, variant):
        raise NotImplementedError

    def rows_from_td(self, td, B, n, variant):
        """python views of a concrete / symbolic input td (used for replays and differential validation)"""
        raise NotImplementedError

    def oracle(self, row, n, variant):
        raise NotImplementedError

    def size_of(self, td_json):
        """n from a generated instance (differential validation)"""
        raise NotImplementedError


def _arr(t):
    return t.a


# =========================================================================================== TSP
class TSPOracle:
    def __init__(self, row, n, asym=False):
        self.n, self.asym = n, asym
        self.D = row["C"] if asym else O.dist_matrix(row["X"], row["Y"])

    def start(self):
        return OState(visited=[False] * self.n, first=0, cur=0, length=0.0, count=0)

    def step(self, st, a, active, t):
        st.flag(active, "visit_once", pick(a, st["visited"]))
        leg = pick2(st["cur"], a, self.D)
        st.upd(active, visited=[s_or(v, s_eq(a, k)) for k, v in enumerate(st["visited"])],
               length=s_where(s_eq(st["count"], 0), 0.0, s_add(st["length"], leg)),
               first=s_where(s_eq(st["count"], 0), a, st["first"]), cur=a, count=s_add(st["count"], 1))

    def complete(self, st):
        return all_(st["visited"])

    def objective(self, st):
        return O.s_neg(s_add(st["length"], pick2(st["cur"], st["first"], self.D)))


class TSPSpec(Spec):
    name, module, cls = "tsp", "rl4co.envs.routing.tsp.env", "TSPEnv"

    def n_actions(self, n, variant):
        return n

    def bound(self, n, variant):
        return n

    def instance(self, src, B, n, variant):
        rows, data = [], []
        for b in range(B):
            X, Y = src.coords(f"r{b}_", n)
            rows.append({"X": X, "Y": Y})
            data.append([[x, y] for x, y in zip(X, Y)])
        td = TensorDict({"locs": ftensor(data)}, batch_size=[B])
        return Inst(td, rows, src.reals, src.ys)

    def rows_from_td(self, td, B, n, variant):
        L = td["locs"].a
        return [{"X": list(L[b, :, 0]), "Y": list(L[b, :, 1])} for b in range(B)]

    def oracle(self, row, n, variant):
        return TSPOracle(row, n)


class ATSPSpec(Spec):
    name, module, cls = "atsp", "rl4co.envs.routing.atsp.env", "ATSPEnv"

    def n_actions(self, n, variant):
        return n

    def bound(self, n, variant):
        return n

    def instance(self, src, B, n, variant):
        rows, data = [], []
        for b in range(B):
            C = [[(src.real(f"r{b}_c{i}_{j}", 0, None) if i != j else 0.0) for j in range(n)] for i in range(n)]
            rows.append({"C": C})
            data.append(C)
        src.ctx.assumptions.add("ATSP: cost matrix entries >= 0, zero diagonal (generator contract)")
        td = TensorDict({"cost_matrix": ftensor(data)}, batch_size=[B])
        return Inst(td, rows, src.reals, [])

    def rows_from_td(self, td, B, n, variant):
        C = td["cost_matrix"].a
        return [{"C": [list(C[b, i]) for i in range(n)]} for b in range(B)]

    def oracle(self, row, n, variant):
        return TSPOracle(row, n, asym=True)


# =========================================================================================== CVRP family
class CVRPOracle:
    """each customer exactly once; load of every route <= 1; reward = -(closed length incl. final return)"""

    split = False

    def __init__(self, row, n):
        self.n, self.row = n, row
        self.D = O.dist_matrix(row["X"], row["Y"])
        self.dem = [0.0] + list(row["demand"])

    def start(self):
        return OState(visited=[False] * (self.n + 1), cur=0, length=0.0, load=0.0)

    def step(self, st, a, active, t):
        cust = s_ne(a, 0)
        st.flag(s_and(active, cust), "visit_once", pick(a, st["visited"]))
        st.flag(s_and(active, s_not(cust)), "canonical:no_idle_depot", s_and(s_eq(st["cur"], 0), s_not(all_(st["visited"][1:]))))
        newload = s_where(cust, s_add(st["load"], pick(a, self.dem)), 0.0)
        st.flag(active, "capacity", s_gt(newload, s_add(1.0, margin())))
        st.upd(active, visited=[s_or(v, s_and(cust, s_eq(a, k))) for k, v in enumerate(st["visited"])],
               length=s_add(st["length"], pick2(st["cur"], a, self.D)), cur=a, load=newload)

    def complete(self, st):
        return all_(st["visited"][1:])

    def objective(self, st):
        return O.s_neg(s_add(st["length"], pick(st["cur"], [r[0] for r in self.D])))


class CVRPSpec(Spec):
    name, module, cls = "cvrp", "rl4co.envs.routing.cvrp.env", "CVRPEnv"

    def instance(self, src, B, n, variant):
        rows, locs, depots, dems = [], [], [], []
        for b in range(B):
            X, Y = src.coords(f"r{b}_", n + 1)
            dem = [src.real(f"r{b}_d{j}", 0, 1, lo_strict=True) for j in range(1, n + 1)]
            rows.append({"X": X, "Y": Y, "demand": dem})
            depots.append([X[0], Y[0]])
            locs.append([[x, y] for x, y in zip(X[1:], Y[1:])])
            dems.append(dem)
        src.ctx.assumptions.add("CVRP-family: 0 < demand_j <= vehicle capacity (=1) (generator: integer demand / capacity)")
        td = TensorDict({"locs": ftensor(locs), "depot": ftensor(depots), "demand": ftensor(dems)}, batch_size=[B])
        return Inst(td, rows, src.reals, src.ys)

    def rows_from_td(self, td, B, n, variant):
        L, Dp, dm = td["locs"].a, td["depot"].a, td["demand"].a
        return [{"X": [Dp[b, 0]] + list(L[b, :, 0]), "Y": [Dp[b, 1]] + list(L[b, :, 1]), "demand": list(dm[b])} for b in range(B)]

    def oracle(self, row, n, variant):
        return CVRPOracle(row, n)


class SDVRPOracle(CVRPOracle):
    """split delivery: a visit delivers min(remaining, free capacity); all demand must be served"""

    def start(self):
        return OState(rem=list(self.dem), cur=0, length=0.0, load=0.0)

    def step(self, st, a, active, t):
        cust = s_ne(a, 0)
        want = pick(a, st["rem"])
        st.flag(s_and(active, s_and(s_not(cust), s_eq(st["cur"], 0))), "canonical:no_idle_depot", any_([s_gt(r, 0) for r in st["rem"][1:]]))
        delivered = s_where(cust, s_min(want, s_sub(1.0, st["load"])), 0.0)
        newload = s_where(cust, s_add(st["load"], delivered), 0.0)
        st.flag(active, "capacity", s_gt(newload, s_add(1.0, margin())))
        st.flag(s_and(active, cust), "canonical:no_zero_delivery", s_le(delivered, 0.0))
        st.upd(active, rem=[s_where(s_and(cust, s_eq(a, k)), s_sub(r, delivered), r) for k, r in enumerate(st["rem"])],
               length=s_add(st["length"], pick2(st["cur"], a, self.D)), cur=a, load=newload)

    def complete(self, st):
        return all_([s_le(r, margin()) for r in st["rem"][1:]])


class SDVRPSpec(CVRPSpec):
    name, module, cls = "sdvrp", "rl4co.envs.routing.sdvrp.env", "SDVRPEnv"

    def bound(self, n, variant):
        return 3 * n + 1

    def oracle(self, row, n, variant):
        return SDVRPOracle(row, n)


# =========================================================================================== OP
class OPOracle:
    """nodes at most once; the tour ends at the first return to the depot; total length incl. return <= max_length"""

    lenient_last = None

    def __init__(self, row, n):
        self.n, self.row = n, row
        self.D = O.dist_matrix(row["X"], row["Y"])
        self.prize = [0.0] + list(row["prize"])

    def start(self):
        return OState(visited=[False] * (self.n + 1), cur=0, length=0.0, prize=0.0, returned=False, lead0=False)

    def step(self, st, a, active, t):
        cust = s_ne(a, 0)
        st.flag(s_and(active, cust), "visit_at_most_once", pick(a, st["visited"]))
        st.flag(s_and(active, cust), "canonical:leading_depot_means_empty_tour", st["lead0"])
        if t == 0:
            st.upd(active, lead0=s_not(cust))
        newlen = s_add(st["length"], pick2(st["cur"], a, self.D))
        ret = s_and(s_not(cust), t > 0)  # a leading depot action is the (explicit) start, not a return
        chk = ret if self.lenient_last is None else s_and(ret, t == self.lenient_last)
        st.flag(s_and(active, chk), "tour_length", s_gt(newlen, s_add(self.row["max_length"], margin())))
        st.upd(active, visited=[s_or(v, s_and(cust, s_eq(a, k))) for k, v in enumerate(st["visited"])],
               length=newlen, cur=a, prize=s_add(st["prize"], pick(a, self.prize)), returned=s_or(st["returned"], ret))

    def complete(self, st):
        return st["returned"]

    def objective(self, st):
        return st["prize"]


class OPSpec(Spec):
    name, module, cls = "op", "rl4co.envs.routing.op.env", "OPEnv"

    def bound(self, n, variant):
        return n + 2

    def instance(self, src, B, n, variant):
        rows, locs, depots, prizes, maxl = [], [], [], [], []
        for b in range(B):
            X, Y = src.coords(f"r{b}_", n + 1)
            prize = [src.real(f"r{b}_p{j}", 0, 1) for j in range(1, n + 1)]
            ml = src.real(f"r{b}_maxlen", 0, None)
            rows.append({"X": X, "Y": Y, "prize": prize, "max_length": ml})
            depots.append([X[0], Y[0]])
            locs.append([[x, y] for x, y in zip(X[1:], Y[1:])])
            prizes.append(prize)
            maxl.append(ml)
        src.ctx.assumptions.add("OP: prize_j >= 0, max_length >= 0")
        td = TensorDict({"locs": ftensor(locs), "depot": ftensor(depots), "prize": ftensor(prizes), "max_length": ftensor(maxl)}, batch_size=[B])
        return Inst(td, rows, src.reals, src.ys)

    def rows_from_td(self, td, B, n, variant):
        L, Dp = td["locs"].a, td["depot"].a
        return [{"X": [Dp[b, 0]] + list(L[b, :, 0]), "Y": [Dp[b, 1]] + list(L[b, :, 1]), "prize": list(td["prize"].a[b]),
                 "max_length": td["max_length"].a[b]} for b in range(B)]

    def oracle(self, row, n, variant):
        return OPOracle(row, n)


# =========================================================================================== PCTSP / SPCTSP
class PCTSPOracle:
    """nodes at most once; ends at the first return to the depot; collected REAL prize >= 1 unless every node was
    visited; objective = -(closed length + penalties of unvisited nodes)"""

    lenient_last = None

    def __init__(self, row, n, stochastic):
        self.n, self.row = n, row
        self.D = O.dist_matrix(row["X"], row["Y"])
        self.prize = [0.0] + list(row["stoch"] if stochastic else row["det"])
        self.pen = [0.0] + list(row["penalty"])

    def start(self):
        return OState(visited=[False] * (self.n + 1), cur=0, length=0.0, prize=0.0, returned=False)

    def step(self, st, a, active, t):
        cust = s_ne(a, 0)
        st.flag(s_and(active, cust), "visit_at_most_once", pick(a, st["visited"]))
        ret = s_and(s_not(cust), t > 0)
        if t == 0:
            st.flag(active, "canonical:no_leading_depot", s_not(cust))
        allv = all_(st["visited"][1:])
        chk = ret if self.lenient_last is None else s_and(ret, t == self.lenient_last)
        st.flag(s_and(active, chk), "min_prize", s_and(s_lt(st["prize"], s_sub(1.0, margin())), s_not(allv)))
        st.upd(active, visited=[s_or(v, s_and(cust, s_eq(a, k))) for k, v in enumerate(st["visited"])],
               length=s_add(st["length"], pick2(st["cur"], a, self.D)), cur=a, prize=s_add(st["prize"], pick(a, self.prize)),
               returned=s_or(st["returned"], ret))

    def complete(self, st):
        return st["returned"]

    def objective(self, st):
        unv = ssum([s_where(v, 0.0, p) for v, p in zip(st["visited"][1:], self.pen[1:])])
        return O.s_neg(s_add(st["length"], unv))


class PCTSPSpec(Spec):
    name, module, cls = "pctsp", "rl4co.envs.routing.pctsp.env", "PCTSPEnv"
    stochastic = False

    def bound(self, n, variant):
        return n + 1

    def instance(self, src, B, n, variant):
        rows, locs, depots, det, sto, pen = [], [], [], [], [], []
        for b in range(B):
            X, Y = src.coords(f"r{b}_", n + 1)
            d = [src.real(f"r{b}_dp{j}", 0, None) for j in range(1, n + 1)]
            s_ = [src.real(f"r{b}_sp{j}", 0, None) for j in range(1, n + 1)]
            pe = [src.real(f"r{b}_pen{j}", 0, None) for j in range(1, n + 1)]
            rows.append({"X": X, "Y": Y, "det": d, "stoch": s_, "penalty": pe})
            depots.append([X[0], Y[0]])
            locs.append([[x, y] for x, y in zip(X[1:], Y[1:])])
            det.append(d), sto.append(s_), pen.append(pe)
        src.ctx.assumptions.add("PCTSP/SPCTSP: prizes and penalties >= 0 (generator: uniform on non-negative ranges)")
        td = TensorDict({"locs": ftensor(locs), "depot": ftensor(depots), "penalty": ftensor(pen), "deterministic_prize": ftensor(det),
                         "stochastic_prize": ftensor(sto)}, batch_size=[B])
        return Inst(td, rows, src.reals, src.ys)

    def rows_from_td(self, td, B, n, variant):
        L, Dp = td["locs"].a, td["depot"].a
        return [{"X": [Dp[b, 0]] + list(L[b, :, 0]), "Y": [Dp[b, 1]] + list(L[b, :, 1]), "det": list(td["deterministic_prize"].a[b]),
                 "stoch": list(td["stochastic_prize"].a[b]), "penalty": list(td["penalty"].a[b])} for b in range(B)]

    def oracle(self, row, n, variant):
        return PCTSPOracle(row, n, self.stochastic)


class SPCTSPSpec(PCTSPSpec):
    name, module, cls = "spctsp", "rl4co.envs.routing.spctsp.env", "SPCTSPEnv"
    stochastic = True


# =========================================================================================== PDP
class PDPOracle:
    """all nodes 1..n exactly once starting from the depot, pickup j before its delivery j+n/2; closed tour from depot"""

    def __init__(self, row, n, force_depot):
        self.n, self.h, self.force = n, n // 2, force_depot
        self.D = O.dist_matrix(row["X"], row["Y"])

    def start(self):
        return OState(visited=[False] * (self.n + 1), cur=0, length=0.0)

    def step(self, st, a, active, t):
        isdep = s_eq(a, 0)
        if self.force:
            st.flag(active, "canonical:depot_exactly_at_start", s_ne(isdep, t == 0))
        else:
            st.flag(active, "canonical:no_depot_in_tour", isdep)
        act = s_and(active, s_not(isdep))
        st.flag(act, "visit_once", pick(a, st["visited"]))
        # delivery k (k > h) requires its pickup k-h to be visited already
        need = [True] * (self.h + 1) + [st["visited"][k - self.h] for k in range(self.h + 1, self.n + 1)]
        st.flag(act, "precedence", s_not(pick(a, need)))
        st.upd(active, visited=[s_or(v, s_and(s_not(isdep), s_eq(a, k))) for k, v in enumerate(st["visited"])],
               length=s_add(st["length"], pick2(st["cur"], a, self.D)), cur=a)

    def complete(self, st):
        return all_(st["visited"][1:])

    def objective(self, st):
        return O.s_neg(s_add(st["length"], pick(st["cur"], [r[0] for r in self.D])))


class PDPSpec(Spec):
    name, module, cls = "pdp", "rl4co.envs.routing.pdp.env", "PDPEnv"
    variants = ("free", "depot")

    def env_kwargs(self, n, variant):
        return {"generator_params": {"num_loc": n}, "check_solution": False, "force_start_at_depot": variant == "depot"}

    def bound(self, n, variant):
        return n + (1 if variant == "depot" else 0)

    def instance(self, src, B, n, variant):
        rows, locs, depots = [], [], []
        for b in range(B):
            X, Y = src.coords(f"r{b}_", n + 1)
            rows.append({"X": X, "Y": Y})
            depots.append([X[0], Y[0]])
            locs.append([[x, y] for x, y in zip(X[1:], Y[1:])])
        td = TensorDict({"locs": ftensor(locs), "depot": ftensor(depots)}, batch_size=[B])
        return Inst(td, rows, src.reals, src.ys)

    def rows_from_td(self, td, B, n, variant):
        L, Dp = td["locs"].a, td["depot"].a
        return [{"X": [Dp[b, 0]] + list(L[b, :, 0]), "Y": [Dp[b, 1]] + list(L[b, :, 1])} for b in range(B)]

    def oracle(self, row, n, variant):
        return PDPOracle(row, n, variant == "depot")


# =========================================================================================== mTSP
class MTSPOracle:
    """cities 1..n-1 exactly once, at most m sub-tours (each depot -> cities -> depot), no empty sub-tour;
    minmax: -(longest closed sub-tour); sum: -(total closed length)"""

    def __init__(self, row, n, cost):
        self.n, self.m, self.cost = n, row["m"], cost
        self.D = O.dist_matrix(row["X"], row["Y"])

    def start(self):
        return OState(visited=[False] * self.n, cur=0, sub=0.0, longest=0.0, total=0.0, returns=0)

    def step(self, st, a, active, t):
        city = s_ne(a, 0)
        st.flag(s_and(active, city), "visit_once", pick(a, st["visited"]))
        st.flag(s_and(active, s_not(city)), "canonical:no_empty_subtour", s_eq(st["cur"], 0))
        leg = pick2(st["cur"], a, self.D)
        sub = s_add(st["sub"], leg)
        st.flag(s_and(active, s_not(city)), "agents", s_ge(s_add(st["returns"], 1), self.m))  # a return opens one more sub-tour
        st.upd(active, visited=[s_or(v, s_and(city, s_eq(a, k))) for k, v in enumerate(st["visited"])], cur=a,
               sub=s_where(city, sub, 0.0), longest=s_where(city, st["longest"], s_max(st["longest"], sub)),
               total=s_add(st["total"], leg), returns=s_add(st["returns"], s_where(city, 0, 1)))

    def complete(self, st):
        return all_(st["visited"][1:])

    def objective(self, st):
        back = pick(st["cur"], [r[0] for r in self.D])
        if self.cost == "minmax":
            return O.s_neg(s_max(st["longest"], s_add(st["sub"], back)))
        return O.s_neg(s_add(st["total"], back))


class MTSPSpec(Spec):
    name, module, cls = "mtsp", "rl4co.envs.routing.mtsp.env", "MTSPEnv"
    variants = ("minmax", "sum")
    checker = False

    def env_kwargs(self, n, variant):
        return {"generator_params": {"num_loc": n, "min_num_agents": 1, "max_num_agents": max(1, n - 1)}, "check_solution": False, "cost_type": variant}

    def n_actions(self, n, variant):
        return n

    def bound(self, n, variant):
        return 2 * (n - 1)

    def instance(self, src, B, n, variant):
        rows, locs, ms = [], [], []
        for b in range(B):
            X, Y = src.coords(f"r{b}_", n)
            m = src.int(f"r{b}_agents", 1, max(1, n - 1))
            rows.append({"X": X, "Y": Y, "m": m})
            locs.append([[x, y] for x, y in zip(X, Y)])
            ms.append(m)
        src.ctx.assumptions.add("mTSP: 1 <= num_agents <= n-1; node 0 is the depot")
        td = TensorDict({"locs": ftensor(locs), "num_agents": T.Tensor(np.array(ms, dtype=object), T.int64)}, batch_size=[B])
        return Inst(td, rows, src.reals, src.ys)

    def rows_from_td(self, td, B, n, variant):
        L = td["locs"].a
        return [{"X": list(L[b, :, 0]), "Y": list(L[b, :, 1]), "m": td["num_agents"].a[b]} for b in range(B)]

    def oracle(self, row, n, variant):
        return MTSPOracle(row, n, variant)


# =========================================================================================== SVRP
class SVRPOracle:
    """each customer once; route r (0-based count of depot visits so far) is driven by technician r, whose skill
    must cover every customer of the route; at most |techs| routes; cost = sum leg * cost[tech of the leg]"""

    def __init__(self, row, n, costs):
        self.n, self.row, self.costs = n, row, [float(c) for c in costs]
        self.D = O.dist_matrix(row["X"], row["Y"])
        self.skill = [0.0] + list(row["skills"])
        self.techs = list(row["techs"])

    def start(self):
        return OState(visited=[False] * (self.n + 1), cur=0, tech=0, cost=0.0)

    def step(self, st, a, active, t):
        cust = s_ne(a, 0)
        K = len(self.techs)
        st.flag(s_and(active, cust), "visit_once", pick(a, st["visited"]))
        st.flag(s_and(active, cust), "technicians", s_ge(st["tech"], K))
        tsk = pick(s_min(st["tech"], K - 1), self.techs)
        st.flag(s_and(active, cust), "skill", s_lt(tsk, s_sub(pick(a, self.skill), margin())))
        can_serve = any_([s_and(s_not(st["visited"][j]), s_le(self.skill[j], tsk)) for j in range(1, self.n + 1)])
        st.flag(s_and(active, s_not(cust)), "canonical:no_idle_depot", s_and(s_eq(st["cur"], 0), can_serve))
        leg = pick2(st["cur"], a, self.D)
        wleg = pick(s_min(st["tech"], K - 1), [s_mul(c, leg) for c in self.costs])  # keeps the term linear
        st.upd(active, visited=[s_or(v, s_and(cust, s_eq(a, k))) for k, v in enumerate(st["visited"])], cur=a,
               cost=s_add(st["cost"], wleg), tech=s_add(st["tech"], s_where(cust, 0, 1)))

    def complete(self, st):
        return all_(st["visited"][1:])

    def objective(self, st):
        K = len(self.techs)
        back = pick(st["cur"], [r[0] for r in self.D])
        return O.s_neg(s_add(st["cost"], pick(s_min(st["tech"], K - 1), [s_mul(c, back) for c in self.costs])))


class SVRPSpec(Spec):
    name, module, cls = "svrp", "rl4co.envs.routing.svrp.env", "SVRPEnv"
    costs = (1, 2)

    def env_kwargs(self, n, variant):
        return {"generator_params": {"num_loc": n, "tech_costs": list(self.costs)}, "check_solution": False}

    def instance(self, src, B, n, variant):
        rows, locs, depots, techs, skills = [], [], [], [], []
        K = len(self.costs)
        for b in range(B):
            X, Y = src.coords(f"r{b}_", n + 1)
            tk = [src.real(f"r{b}_tech{k}", 1, 10) for k in range(K)]
            for k in range(K - 1):
                src.assume(tk[k] <= tk[k + 1])
            sk = [src.real(f"r{b}_skill{j}", 0, None) for j in range(1, n + 1)]
            for x in sk:
                src.assume(x <= tk[-1])
            rows.append({"X": X, "Y": Y, "techs": tk, "skills": sk})
            depots.append([X[0], Y[0]])
            locs.append([[x, y] for x, y in zip(X[1:], Y[1:])])
            techs.append([[x] for x in tk]), skills.append([[x] for x in sk])
        src.ctx.assumptions.add("SVRP: technician skills ascending in [1,10]; 0 <= customer skill <= highest technician skill (generator contract)")
        td = TensorDict({"locs": ftensor(locs), "depot": ftensor(depots), "techs": ftensor(techs), "skills": ftensor(skills)}, batch_size=[B])
        return Inst(td, rows, src.reals, src.ys)

    def rows_from_td(self, td, B, n, variant):
        L, Dp = td["locs"].a, td["depot"].a
        return [{"X": [Dp[b, 0]] + list(L[b, :, 0]), "Y": [Dp[b, 1]] + list(L[b, :, 1]), "techs": list(td["techs"].a[b, :, 0]),
                 "skills": list(td["skills"].a[b, :, 0])} for b in range(B)]

    def oracle(self, row, n, variant):
        return SVRPOracle(row, n, self.costs)


# =========================================================================================== CVRPTW
class CVRPTWOracle(CVRPOracle):
    """CVRP + service must start within [e_j, l_j] (waiting allowed), clock restarts at the depot, the vehicle is
    back at the depot by the depot's closing time"""

    def start(self):
        return OState(visited=[False] * (self.n + 1), cur=0, length=0.0, load=0.0, time=0.0)

    def step(self, st, a, active, t):
        cust = s_ne(a, 0)
        arr = s_add(st["time"], pick2(st["cur"], a, self.D))
        late = pick(a, self.row["late"])
        st.flag(s_and(active, cust), "time_window", s_gt(arr, s_add(late, margin())))
        st.flag(s_and(active, s_not(cust)), "return_in_time", s_gt(arr, s_add(late, margin())))
        newt = s_where(cust, s_add(s_max(arr, pick(a, self.row["early"])), pick(a, self.row["service"])), 0.0)
        CVRPOracle.step(self, st, a, active, t)
        st.upd(active, time=newt)
        last = s_and(s_and(active, cust), all_(st["visited"][1:]))
        st.flag(last, "return_in_time", s_gt(s_add(st["time"], pick(a, [r_[0] for r_ in self.D])), s_add(self.row["late"][0], margin())))


class CVRPTWSpec(CVRPSpec):
    name, module, cls = "cvrptw", "rl4co.envs.routing.cvrptw.env", "CVRPTWEnv"
    MAXT, MAXLOC = 480.0, 150.0

    def instance(self, src, B, n, variant):
        rows, locs, depots, dems, durs, tws = [], [], [], [], [], []
        from symtorch import dist as DS

        for b in range(B):
            X, Y = src.coords(f"r{b}_", n + 1, 0, self.MAXLOC)
            dem = [src.real(f"r{b}_d{j}", 0, 1, lo_strict=True) for j in range(1, n + 1)]
            e = [0.0] + [src.real(f"r{b}_e{j}", 0, None) for j in range(1, n + 1)]
            l = [self.MAXT] + [src.real(f"r{b}_l{j}", 0, None) for j in range(1, n + 1)]
            sv = [0.0] + [src.real(f"r{b}_s{j}", 0, None) for j in range(1, n + 1)]
            for j in range(1, n + 1):
                d0 = DS.norm2(X[0] - X[j], Y[0] - Y[j])
                src.assume(z3.And(e[j] < l[j], d0 <= l[j], l[j] + sv[j] + d0 <= self.MAXT))
            rows.append({"X": X, "Y": Y, "demand": dem, "early": e, "late": l, "service": sv})
            depots.append([X[0], Y[0]])
            locs.append([[x, y] for x, y in zip(X[1:], Y[1:])])
            dems.append(dem), durs.append(sv), tws.append([[a_, b_] for a_, b_ in zip(e, l)])
        src.ctx.assumptions.add("CVRPTW (generator contract): coords in [0,150], depot window [0,480]; per customer 0<=e<l, d(depot,j)<=l, l+service+d(depot,j)<=480, service>=0")
        td = TensorDict({"locs": ftensor(locs), "depot": ftensor(depots), "demand": ftensor(dems), "durations": ftensor(durs),
                         "time_windows": ftensor(tws)}, batch_size=[B])
        return Inst(td, rows, src.reals, src.ys)

    def rows_from_td(self, td, B, n, variant):
        rows = CVRPSpec.rows_from_td(self, td, B, n, variant)
        for b in range(B):
            rows[b].update(early=list(td["time_windows"].a[b, :, 0]), late=list(td["time_windows"].a[b, :, 1]), service=list(td["durations"].a[b]))
        return rows

    def oracle(self, row, n, variant):
        return CVRPTWOracle(row, n)


# =========================================================================================== MTVRP (16 variants)
class MTVRPOracle:
    """visit once; linehaul load <= 1 and backhaul load <= 1 per route; no linehaul after a backhaul within a route;
    route length (open routes: without the return leg) <= L; service starts by l_j (waiting allowed); closed routes
    are back at the depot by the depot's closing time; cost = sum of legs, open routes not charged for the return"""

    def __init__(self, row, n, flags):
        self.n, self.row = n, row
        self.O, self.TW, self.L, self.B = flags
        self.D = O.dist_matrix(row["X"], row["Y"])

    def start(self):
        return OState(visited=[False] * (self.n + 1), cur=0, cost=0.0, ll=0.0, lb=0.0, time=0.0, rlen=0.0, hadb=False)

    def step(self, st, a, active, t):
        r = self.row
        cust = s_ne(a, 0)
        leg = pick2(st["cur"], a, self.D)
        st.flag(s_and(active, cust), "visit_once", pick(a, st["visited"]))
        st.flag(s_and(active, s_not(cust)), "canonical:no_idle_depot", s_and(s_eq(st["cur"], 0), s_not(all_(st["visited"][1:]))))
        isb = pick(a, r["isback"])
        st.flag(s_and(active, cust), "linehaul_before_backhaul", s_and(s_not(isb), st["hadb"]))
        ll = s_where(cust, s_add(st["ll"], pick(a, r["dl"])), 0.0)
        lb = s_where(cust, s_add(st["lb"], pick(a, r["db"])), 0.0)
        st.flag(active, "capacity", s_or(s_gt(ll, s_add(1.0, margin())), s_gt(lb, s_add(1.0, margin()))))
        charged = leg if not self.O else s_where(cust, leg, 0.0)
        if self.L:
            st.flag(active, "route_length", s_gt(s_add(st["rlen"], charged), s_add(r["limit"], margin())))
        spd = r.get("speed", 1.0)
        if self.TW:
            arr = s_add(st["time"], T.s_div(leg, spd))
            late = pick(a, r["late"])
            if self.O:
                st.flag(s_and(active, cust), "time_window", s_gt(arr, s_add(late, margin())))
            else:
                st.flag(s_and(active, cust), "time_window", s_gt(arr, s_add(late, margin())))
                st.flag(s_and(active, s_not(cust)), "return_in_time", s_gt(arr, s_add(late, margin())))
            newt = s_where(cust, s_add(s_max(arr, pick(a, r["early"])), pick(a, r["service"])), 0.0)
        else:
            newt = 0.0
        st.upd(active, visited=[s_or(v, s_and(cust, s_eq(a, k))) for k, v in enumerate(st["visited"])], cur=a,
               cost=s_add(st["cost"], charged), ll=ll, lb=lb, time=newt, rlen=s_where(cust, s_add(st["rlen"], leg), 0.0),
               hadb=s_where(cust, s_or(st["hadb"], isb), False))
        if not self.O and (self.L or self.TW):
            # the customer that completes the solution is followed by the (implied) final return of a closed route
            last = s_and(s_and(active, cust), all_(st["visited"][1:]))
            back = pick(a, [r_[0] for r_ in self.D])
            if self.L:
                st.flag(last, "route_length", s_gt(s_add(st["rlen"], back), s_add(r["limit"], margin())))
            if self.TW:
                st.flag(last, "return_in_time", s_gt(s_add(st["time"], T.s_div(back, spd)), s_add(r["late"][0], margin())))

    def complete(self, st):
        return all_(st["visited"][1:])

    def objective(self, st):
        back = pick(st["cur"], [r_[0] for r_ in self.D])
        return O.s_neg(s_add(st["cost"], 0.0 if self.O else back))


def mtvrp_speed(variant):
    """'TW@2' = time-window variant generated with speed 2 (MTVRPGenerator(speed=...)); default 1"""
    v = variant or ""
    return float(v.split("@")[1]) if "@" in v and not v.startswith("mix:") else 1.0


def mtvrp_flags(variant):
    v = (variant or "").split("@")[0]
    return ("O" in v, "TW" in v, "L" in v.replace("TW", ""), "B" in v)


def mtvrp_preset(variant):
    if (variant or "").startswith("mix:"):
        return "all"
    o, tw, l, b = mtvrp_flags(variant)
    if not (o or tw or l or b):
        return "cvrp"
    return ("o" if o else "") + "vrp" + ("b" if b else "") + ("l" if l else "") + ("tw" if tw else "")


class MTVRPSpec(Spec):
    name, module, cls = "mtvrp", "rl4co.envs.routing.mtvrp.env", "MTVRPEnv"
    variants = ("", "O", "B", "L", "TW", "OTW", "OB", "OL", "BL", "BTW", "LTW", "OBL", "OBTW", "OLTW", "BLTW", "OBLTW")
    MAXT, LIMIT = 4.6, 3.0

    def env_kwargs(self, n, variant):
        gp = {"num_loc": n, "variant_preset": mtvrp_preset(variant)}
        if mtvrp_speed(variant) != 1.0:
            gp["speed"] = mtvrp_speed(variant)
        return {"generator_params": gp, "check_solution": False}

    def instance(self, src, B, n, variant):
        from symtorch import dist as DS

        speed = mtvrp_speed(variant)
        spd = z3.RealVal(str(Fraction(repr(speed))))

        # "mix:TW/L": the rows of the batch cycle through several variants (what the 'all' preset of the generator produces)
        row_variants = variant[4:].split("/") if (variant or "").startswith("mix:") else [variant]
        rows, cols = [], {k: [] for k in ("locs", "dl", "db", "limit", "tw", "svc", "open", "cap", "cap0", "speed")}
        inf = math.inf
        for b in range(B):
            vb = row_variants[b % len(row_variants)]
            Of, TWf, Lf, Bf = mtvrp_flags(vb)
            X, Y = src.coords(f"r{b}_", n + 1)
            dem = [0.0] + [src.real(f"r{b}_d{j}", 0, 1, lo_strict=True) for j in range(1, n + 1)]
            isb = [False] + [(z3.Bool(f"r{b}_isback{j}") if Bf else False) for j in range(1, n + 1)]
            dl = [s_where(isb[j], 0.0, dem[j]) for j in range(n + 1)]
            db = [s_where(isb[j], dem[j], 0.0) for j in range(n + 1)]
            # distance limit: a generator parameter (default 3.0); symbolic, constrained as the generator asserts
            limit = src.real(f"r{b}_limit", 0, None, lo_strict=True) if Lf else inf
            if TWf:
                e = [0.0] + [src.real(f"r{b}_e{j}", 0, None) for j in range(1, n + 1)]
                l = [self.MAXT] + [src.real(f"r{b}_l{j}", 0, None) for j in range(1, n + 1)]
                sv = [0.0] + [src.real(f"r{b}_s{j}", 0, None) for j in range(1, n + 1)]
                for j in range(1, n + 1):
                    d0 = DS.norm2(X[j] - X[0], Y[j] - Y[0])
                    ln = l[j] - e[j]
                    src.assume(z3.And(sv[j] >= z3.RealVal("0.15"), sv[j] <= z3.RealVal("0.18"), ln >= z3.RealVal("0.18"), ln <= z3.RealVal("0.2"),
                                      e[j] >= d0 / spd, e[j] <= self.MAXT - sv[j] - ln - d0 / spd))
            else:
                e, l, sv = [0.0] * (n + 1), [inf] * (n + 1), [0.0] * (n + 1)
            if Lf:
                for j in range(1, n + 1):
                    src.assume(2 * DS.norm2(X[j] - X[0], Y[j] - Y[0]) < limit)

            rows.append({"X": X, "Y": Y, "dl": dl, "db": db, "isback": isb, "early": e, "late": l, "service": sv, "limit": limit, "variant": vb, "speed": speed})
            cols["locs"].append([[x, y] for x, y in zip(X, Y)])
            cols["dl"].append(dl), cols["db"].append(db), cols["limit"].append([limit])
            cols["tw"].append([[a_, b_] for a_, b_ in zip(e, l)]), cols["svc"].append(sv)
            cols["open"].append([Of]), cols["cap"].append([1.0]), cols["cap0"].append([30.0]), cols["speed"].append([speed])
        src.ctx.assumptions.add("MTVRP (generator contract): coords in [0,1]; 0<demand<=1 (scaled); speed = generator parameter (1, or the value after '@' in the variant name); travel time = distance / speed; distance limit any positive value; TW: service in [0.15,0.18], window length l-e in [0.18,0.2], d(0,j)/speed <= e_j <= 4.6 - service - length - d(0,j)/speed; depot window [0,4.6]; L: 2*d(0,j) < limit (asserted by the generator); backhaul pattern arbitrary")
        td = TensorDict({"locs": ftensor(cols["locs"]), "demand_linehaul": ftensor(cols["dl"]), "demand_backhaul": ftensor(cols["db"]),
                         "distance_limit": ftensor(cols["limit"]), "time_windows": ftensor(cols["tw"]), "service_time": ftensor(cols["svc"]),
                         "open_route": T.Tensor(np.array(cols["open"], dtype=object), T.bool_), "vehicle_capacity": ftensor(cols["cap"]),
                         "capacity_original": ftensor(cols["cap0"]), "speed": ftensor(cols["speed"])}, batch_size=[B])
        return Inst(td, rows, src.reals, src.ys)

    def rows_from_td(self, td, B, n, variant):
        rows = []
        for b in range(B):
            L = td["locs"].a[b]
            dl, db = list(td["demand_linehaul"].a[b]), list(td["demand_backhaul"].a[b])
            row = {"X": list(L[:, 0]), "Y": list(L[:, 1]), "dl": dl, "db": db, "isback": [x > 0 for x in db],
                   "early": list(td["time_windows"].a[b, :, 0]), "late": list(td["time_windows"].a[b, :, 1]),
                   "service": list(td["service_time"].a[b]), "limit": td["distance_limit"].a[b, 0], "speed": td["speed"].a[b, 0] if "speed" in td.keys() else 1.0}
            if (variant or "").startswith("mix:"):  # mixed batch: read the row's features off its data
                o_ = bool(td["open_route"].a[b, 0])
                tw_ = not (isinstance(row["late"][1], float) and math.isinf(row["late"][1]))
                l_ = not (isinstance(row["limit"], float) and math.isinf(row["limit"]))
                row["variant"] = ("O" if o_ else "") + ("B" if any(x > 0 for x in db) else "") + ("L" if l_ else "") + ("TW" if tw_ else "")
            rows.append(row)
        return rows

    def oracle(self, row, n, variant):
        return MTVRPOracle(row, n, mtvrp_flags(row.get("variant", variant) if (variant or "").startswith("mix:") else variant))


SPECS = {s.name: s for s in (TSPSpec(), ATSPSpec(), CVRPSpec(), SDVRPSpec(), OPSpec(), PCTSPSpec(), SPCTSPSpec(), PDPSpec(), MTSPSpec(),
                             SVRPSpec(), CVRPTWSpec(), MTVRPSpec())}
