"""Per-environment specifications: how to build the real env, a symbolic instance under the generator contract,
and the independent ground-truth oracle (DESIGN.md Appendix A).  Routing environments."""
from __future__ import annotations

import math

import numpy as np
import z3

from symtorch import tensor as T
from symtorch.tdict import TensorDict

from . import oracle as O
from .oracle import OState, all_, any_, pick, pick2, s_add, s_and, s_eq, s_ge, s_gt, s_le, s_lt, s_max, s_min, s_mul, s_ne, s_not, s_or, s_sub, s_where, ssum

MARGIN = [0.0]  # tolerance added to oracle inequalities; the symbolic driver installs a solver constant here


def margin():
    return MARGIN[0]


class Inst:
    """symbolic (or concrete) instance: the input TensorDict + per-row python views for the oracle"""

    def __init__(self, td, rows, real_vars=(), ycoords=(), notes=()):
        self.td, self.rows, self.real_vars, self.ycoords, self.notes = td, rows, list(real_vars), list(ycoords), list(notes)
        self.inputs = dict(td.d)  # references to the input tensors (reset() merges state into td)


class Src:
    """source of symbolic instance data: fresh solver variables + generator-contract assumptions"""

    def __init__(self, E, ctx, tag=""):
        self.E, self.ctx, self.tag = E, ctx, tag
        self.reals, self.ys = [], []

    def real(self, name, lo=None, hi=None, lo_strict=False, hi_strict=False):
        v = z3.Real(f"{self.tag}{name}")
        if lo is not None:
            self.E.assume(v > lo if lo_strict else v >= lo)
        if hi is not None:
            self.E.assume(v < hi if hi_strict else v <= hi)
        self.reals.append(v)
        return v

    def int(self, name, lo, hi):
        v = z3.Int(f"{self.tag}{name}")
        self.E.assume(z3.And(v >= lo, v <= hi))
        return v

    def coords(self, name, count, lo=0, hi=1):
        X = [self.real(f"{name}x{j}", lo, hi) for j in range(count)]
        Y = [self.real(f"{name}y{j}", lo, hi) for j in range(count)]
        self.ys.extend(Y)
        return X, Y

    def assume(self, c, text=None):
        self.E.assume(c)
        if text:
            self.ctx.assumptions.add(text)


def ftensor(rows):
    return T.Tensor(np.array(rows, dtype=object), T.float32)


class Spec:
    name = module = cls = None
    variants = (None,)
    metric = "l2"
    checker = True
    record = ()

    def env_kwargs(self, n, variant):
        return {"generator_params": {"num_loc": n}, "check_solution": False}

    def make_env(self, world, n, variant):
        mod = world.load(self.module)
        return getattr(mod, self.cls)(**self.env_kwargs(n, variant))

    def n_actions(self, n, variant):
        return n + 1

    def bound(self, n, variant):
        return 2 * n + 1

    def instance(self, src, B, n, variant):
        raise NotImplementedError

    def rows_from_td(self, td, B, n, variant):
        """python views of a concrete / symbolic input td (used for replays and differential validation)"""
        raise NotImplementedError

    def oracle(self, row, n, variant):
        raise NotImplementedError

    def size_of(self, td_json):
        """n from a generated instance (differential validation)"""
        raise NotImplementedError


def _arr(t):
    return t.a


# =========================================================================================== TSP
class TSPOracle:
    def __init__(self, row, n, asym=False):
        self.n, self.asym = n, asym
        self.D = row["C"] if asym else O.dist_matrix(row["X"], row["Y"])

    def start(self):
        return OState(visited=[False] * self.n, first=0, cur=0, length=0.0, count=0)

    def step(self, st, a, active, t):
        st.flag(active, "visit_once", pick(a, st["visited"]))
        leg = pick2(st["cur"], a, self.D)
        st.upd(active, visited=[s_or(v, s_eq(a, k)) for k, v in enumerate(st["visited"])],
               length=s_where(s_eq(st["count"], 0), 0.0, s_add(st["length"], leg)),
               first=s_where(s_eq(st["count"], 0), a, st["first"]), cur=a, count=s_add(st["count"], 1))

    def complete(self, st):
        return all_(st["visited"])

    def objective(self, st):
        return O.s_neg(s_add(st["length"], pick2(st["cur"], st["first"], self.D)))


class TSPSpec(Spec):
    name, module, cls = "tsp", "rl4co.envs.routing.tsp.env", "TSPEnv"

    def n_actions(self, n, variant):
        return n

    def bound(self, n, variant):
        return n

    def instance(self, src, B, n, variant):
        rows, data = [], []
        for b in range(B):
            X, Y = src.coords(f"r{b}_", n)
            rows.append({"X": X, "Y": Y})
            data.append([[x, y] for x, y in zip(X, Y)])
        td = TensorDict({"locs": ftensor(data)}, batch_size=[B])
        return Inst(td, rows, src.reals, src.ys)

    def rows_from_td(self, td, B, n, variant):
        L = td["locs"].a
        return [{"X": list(L[b, :, 0]), "Y": list(L[b, :, 1])} for b in range(B)]

    def oracle(self, row, n, variant):
        return TSPOracle(row, n)


class ATSPSpec(Spec):
    name, module, cls = "atsp", "rl4co.envs.routing.atsp.env", "ATSPEnv"

    def n_actions(self, n, variant):
        return n

    def bound(self, n, variant):
        return n

    def instance(self, src, B, n, variant):
        rows, data = [], []
        for b in range(B):
            C = [[(src.real(f"r{b}_c{i}_{j}", 0, None) if i != j else 0.0) for j in range(n)] for i in range(n)]
            rows.append({"C": C})
            data.append(C)
        src.ctx.assumptions.add("ATSP: cost matrix entries >= 0, zero diagonal (generator contract)")
        td = TensorDict({"cost_matrix": ftensor(data)}, batch_size=[B])
        return Inst(td, rows, src.reals, [])

    def rows_from_td(self, td, B, n, variant):
        C = td["cost_matrix"].a
        return [{"C": [list(C[b, i]) for i in range(n)]} for b in range(B)]

    def oracle(self, row, n, variant):
        return TSPOracle(row, n, asym=True)


# =========================================================================================== CVRP family
class CVRPOracle:
    """each customer exactly once; load of every route <= 1; reward = -(closed length incl. final return)"""

    split = False

    def __init__(self, row, n):
        self.n, self.row = n, row
        self.D = O.dist_matrix(row["X"], row["Y"])
        self.dem = [0.0] + list(row["demand"])

    def start(self):
        return OState(visited=[False] * (self.n + 1), cur=0, length=0.0, load=0.0)

    def step(self, st, a, active, t):
        cust = s_ne(a, 0)
        st.flag(s_and(active, cust), "visit_once", pick(a, st["visited"]))
        newload = s_where(cust, s_add(st["load"], pick(a, self.dem)), 0.0)
        st.flag(active, "capacity", s_gt(newload, s_add(1.0, margin())))
        st.upd(active, visited=[s_or(v, s_and(cust, s_eq(a, k))) for k, v in enumerate(st["visited"])],
               length=s_add(st["length"], pick2(st["cur"], a, self.D)), cur=a, load=newload)

    def complete(self, st):
        return all_(st["visited"][1:])

    def objective(self, st):
        return O.s_neg(s_add(st["length"], pick(st["cur"], [r[0] for r in self.D])))


class CVRPSpec(Spec):
    name, module, cls = "cvrp", "rl4co.envs.routing.cvrp.env", "CVRPEnv"

    def instance(self, src, B, n, variant):
        rows, locs, depots, dems = [], [], [], []
        for b in range(B):
            X, Y = src.coords(f"r{b}_", n + 1)
            dem = [src.real(f"r{b}_d{j}", 0, 1, lo_strict=True) for j in range(1, n + 1)]
            rows.append({"X": X, "Y": Y, "demand": dem})
            depots.append([X[0], Y[0]])
            locs.append([[x, y] for x, y in zip(X[1:], Y[1:])])
            dems.append(dem)
        src.ctx.assumptions.add("CVRP-family: 0 < demand_j <= vehicle capacity (=1) (generator: integer demand / capacity)")
        td = TensorDict({"locs": ftensor(locs), "depot": ftensor(depots), "demand": ftensor(dems)}, batch_size=[B])
        return Inst(td, rows, src.reals, src.ys)

    def rows_from_td(self, td, B, n, variant):
        L, Dp, dm = td["locs"].a, td["depot"].a, td["demand"].a
        return [{"X": [Dp[b, 0]] + list(L[b, :, 0]), "Y": [Dp[b, 1]] + list(L[b, :, 1]), "demand": list(dm[b])} for b in range(B)]

    def oracle(self, row, n, variant):
        return CVRPOracle(row, n)


class SDVRPOracle(CVRPOracle):
    """split delivery: a visit delivers min(remaining, free capacity); all demand must be served"""

    def start(self):
        return OState(rem=list(self.dem), cur=0, length=0.0, load=0.0)

    def step(self, st, a, active, t):
        cust = s_ne(a, 0)
        want = pick(a, st["rem"])
        delivered = s_where(cust, s_min(want, s_sub(1.0, st["load"])), 0.0)
        newload = s_where(cust, s_add(st["load"], delivered), 0.0)
        st.flag(active, "capacity", s_gt(newload, s_add(1.0, margin())))
        st.upd(active, rem=[s_where(s_and(cust, s_eq(a, k)), s_sub(r, delivered), r) for k, r in enumerate(st["rem"])],
               length=s_add(st["length"], pick2(st["cur"], a, self.D)), cur=a, load=newload)

    def complete(self, st):
        return all_([s_le(r, margin()) for r in st["rem"][1:]])


class SDVRPSpec(CVRPSpec):
    name, module, cls = "sdvrp", "rl4co.envs.routing.sdvrp.env", "SDVRPEnv"

    def bound(self, n, variant):
        return 3 * n + 1

    def oracle(self, row, n, variant):
        return SDVRPOracle(row, n)


# =========================================================================================== OP
class OPOracle:
    """nodes at most once; the tour ends at the first return to the depot; total length incl. return <= max_length"""

    def __init__(self, row, n):
        self.n, self.row = n, row
        self.D = O.dist_matrix(row["X"], row["Y"])
        self.prize = [0.0] + list(row["prize"])

    def start(self):
        return OState(visited=[False] * (self.n + 1), cur=0, length=0.0, prize=0.0, returned=False, moved=False)

    def step(self, st, a, active, t):
        cust = s_ne(a, 0)
        st.flag(s_and(active, cust), "visit_at_most_once", pick(a, st["visited"]))
        newlen = s_add(st["length"], pick2(st["cur"], a, self.D))
        ret = s_and(s_not(cust), t > 0)  # a leading depot action is the (explicit) start, not a return
        st.flag(s_and(active, ret), "tour_length", s_gt(newlen, s_add(self.row["max_length"], margin())))
        st.upd(active, visited=[s_or(v, s_and(cust, s_eq(a, k))) for k, v in enumerate(st["visited"])],
               length=newlen, cur=a, prize=s_add(st["prize"], pick(a, self.prize)), returned=s_or(st["returned"], ret))

    def complete(self, st):
        return st["returned"]

    def objective(self, st):
        return st["prize"]


class OPSpec(Spec):
    name, module, cls = "op", "rl4co.envs.routing.op.env", "OPEnv"

    def bound(self, n, variant):
        return n + 2

    def instance(self, src, B, n, variant):
        rows, locs, depots, prizes, maxl = [], [], [], [], []
        for b in range(B):
            X, Y = src.coords(f"r{b}_", n + 1)
            prize = [src.real(f"r{b}_p{j}", 0, 1) for j in range(1, n + 1)]
            ml = src.real(f"r{b}_maxlen", 0, None)
            rows.append({"X": X, "Y": Y, "prize": prize, "max_length": ml})
            depots.append([X[0], Y[0]])
            locs.append([[x, y] for x, y in zip(X[1:], Y[1:])])
            prizes.append(prize)
            maxl.append(ml)
        src.ctx.assumptions.add("OP: prize_j >= 0, max_length >= 0")
        td = TensorDict({"locs": ftensor(locs), "depot": ftensor(depots), "prize": ftensor(prizes), "max_length": ftensor(maxl)}, batch_size=[B])
        return Inst(td, rows, src.reals, src.ys)

    def rows_from_td(self, td, B, n, variant):
        L, Dp = td["locs"].a, td["depot"].a
        return [{"X": [Dp[b, 0]] + list(L[b, :, 0]), "Y": [Dp[b, 1]] + list(L[b, :, 1]), "prize": list(td["prize"].a[b]),
                 "max_length": td["max_length"].a[b]} for b in range(B)]

    def oracle(self, row, n, variant):
        return OPOracle(row, n)


SPECS = {s.name: s for s in (TSPSpec(), ATSPSpec(), CVRPSpec(), SDVRPSpec(), OPSpec())}
