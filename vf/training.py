"""C16 (losses and their gradients) and C20 (running statistics, stateful baselines).

The real `REINFORCE.calculate_loss`, baselines, `RewardScaler`, POMO / SymNCO `shared_step`, `losses.py` and the
PPO loss kernel run on symbolic rollouts.  Gradient flow is modelled by one shared infinitesimal EPS: every
differentiable input is `x + EPS*x'`, `detach()` substitutes EPS:=0; the repo's loss must be the *same function of
EPS* as the reference surrogate (equal values and equal gradients w.r.t. every differentiable input)."""
from __future__ import annotations

import itertools
import os
import types

import numpy as np
import z3

from symtorch import datastub, explore, nnmod, world
from symtorch import tensor as T
from symtorch.scalar import is_sym
from symtorch.tdict import TensorDict

from . import core

EPS = z3.Real("eps!")


def strip(x):
    return z3.substitute(x, (EPS, z3.RealVal(0))) if is_sym(x) else x


def detach_hook(t):
    return T.Tensor(np.frompyfunc(strip, 1, 1)(t.a), t.dtype)


def dvec(name, shape, tangent=True):
    a = np.empty(shape, dtype=object)
    for pos in np.ndindex(*shape):
        nm = name + "_" + "_".join(map(str, pos))
        a[pos] = z3.Real(nm) + (EPS * z3.Real("d" + nm) if tangent else 0)
    return T.Tensor(a, T.float32)


def scalar(t):
    return t.a.reshape(-1)[0] if isinstance(t, T.Tensor) else t


class _Mod:
    pass


def make_model(cls, **attrs):
    m = object.__new__(cls)
    m.__dict__.update(attrs)
    m.__dict__.setdefault("log_metrics", lambda *a, **k: {})
    return m


def same(ctx, E, name, a, b, cex, tag=None):
    a, b = scalar(a), scalar(b)
    if not is_sym(a) and not is_sym(b):
        return ctx.prove(E, name, abs(float(a) - float(b)) < 1e-12, cex)

    def cex2(E_, neg):
        reps = cex(E_, neg)
        if reps:
            m = E_.model()  # the model cex() just found
            h = z3.RealVal("1/1000000")
            pin0 = [(EPS, z3.RealVal(0))]
            try:
                def ev(x, e):
                    return float(core.model_value(m, z3.substitute(T._real(x), (EPS, e))))

                reps[0]["ref_value"], reps[0]["ref_grad"] = ev(b, z3.RealVal(0)), (ev(b, h) - ev(b, -h)) / 2e-6
                reps[0]["enc_value"], reps[0]["enc_grad"] = ev(a, z3.RealVal(0)), (ev(a, h) - ev(a, -h)) / 2e-6
                reps[0]["tag"] = tag
            except Exception as e:  # noqa: BLE001
                reps[0]["ref_error"] = repr(e)
        return reps

    return ctx.prove(E, name, T._real(a) == T._real(b), cex2)


def _mean(xs):
    return sum(xs[1:], xs[0]) / len(xs)


# =============================================================================================== C16
def loss_job(job_id, case, B=3, S=2, source_filter=None):
    E = explore.EXP
    ctx = core.Ctx(job_id)
    w = world.make_world(source_filter=source_filter, inert=())
    ctx.bounds = {"case": case, "B": B, "S": S}
    ctx.assumptions.add("gradient = derivative along one shared infinitesimal EPS attached to every differentiable input; detach() = EPS:=0")
    ctx.stubs.update(["policy / critic networks: arbitrary symbolic outputs with tangents", "Lightning trainer plumbing inert", "exp: uninterpreted function"])
    old = T.DETACH_HOOK
    T.DETACH_HOOK = detach_hook
    Fm = w.load("torch.nn.functional")
    bl = w.load("rl4co.models.rl.reinforce.baselines")
    rf = w.load("rl4co.models.rl.reinforce.reinforce")
    utils = w.load("rl4co.models.rl.common.utils")

    def cexb(E_, neg):
        m = core.find_model(E_, neg)
        if m is not None:
            return [{"kind": "script", "path": core.ROOT + "/vf/torch_side", "module": "training_side", "func": "run", "model_kind": "plain", "mode": "C16",
                     "params": {"case": case, "B": B, "S": S, "values": {str(d): str(m[d]) for d in m.decls() if d.arity() == 0 and str(d) != "eps!"}}}]
        return []

    def harness():
        r = dvec("r", (B,), tangent=False)
        ll = dvec("ll", (B,))
        td = TensorDict({}, batch_size=[B])
        name = f"[{case} B={B}]"
        R, LLv = list(r.a), list(ll.a)
        if case in ("no", "mean", "exponential", "critic", "rollout_extra", "warmup", "warmup_done", "scaled_norm", "scaled_int"):
            v = dvec("v", (B,))

            class Critic(nnmod.Module):
                def forward(self, x):
                    return T.Tensor(v.a.reshape(B, 1).copy(), T.float32)

            scaler = utils.RewardScaler({"scaled_norm": "norm", "scaled_int": 4}.get(case))
            model = make_model(rf.REINFORCE, env=None, advantage_scaler=scaler)
            batch = TensorDict({}, batch_size=[B])
            steps = 1
            if case == "no" or case.startswith("scaled"):
                model.baseline = bl.NoBaseline()
            elif case == "mean":
                model.baseline = bl.MeanBaseline()
            elif case == "exponential":
                model.baseline = bl.ExponentialBaseline(beta=0.8)
                steps = 3
            elif case == "critic":
                model.baseline = bl.CriticBaseline(Critic())
            elif case == "rollout_extra":
                model.baseline = bl.NoBaseline()
                extra = dvec("extra", (B,), tangent=False)
                batch = TensorDict({"extra": extra}, batch_size=[B])
            elif case in ("warmup", "warmup_done"):
                inner = bl.CriticBaseline(Critic())
                model.baseline = bl.WarmupBaseline(inner, n_epochs=2, warmup_exp_beta=0.8)
                model.baseline.epoch_callback(None, epoch=0)  # alpha = 1/2
                if case == "warmup_done":  # training continues past the warm-up: the weight must stay at one (pure inner baseline)
                    for ep in (1, 2, 3):
                        model.baseline.epoch_callback(None, epoch=ep)
            vprev = None
            for step in range(steps):
                rs = dvec(f"r{step}", (B,), tangent=False) if steps > 1 else r
                lls = dvec(f"ll{step}", (B,)) if steps > 1 else ll
                Rs, Ls = list(rs.a), list(lls.a)
                out = model.calculate_loss(td, batch, {"reward": rs, "log_likelihood": lls})
                ctx.transitions += 1
                # ---------------- reference surrogate
                if case in ("no", "scaled_int", "scaled_norm"):
                    b0 = [0] * B
                    blloss = 0
                elif case == "mean":
                    b0 = [_mean(Rs)] * B
                    blloss = 0
                elif case == "exponential":
                    cur = _mean(Rs) if vprev is None else T._real(0.8) * vprev + T._real(1.0 - 0.8) * _mean(Rs)
                    vprev = cur
                    b0 = [cur] * B
                    blloss = 0
                elif case == "critic":
                    b0 = [strip(x) for x in v.a]
                    blloss = _mean([(v.a[i] - Rs[i]) * (v.a[i] - Rs[i]) for i in range(B)])
                elif case == "rollout_extra":
                    b0 = list(batch["extra"].a)
                    blloss = 0
                elif case in ("warmup", "warmup_done"):
                    half = z3.RealVal("1/2") if case == "warmup" else z3.RealVal(1)
                    wb = _mean(Rs)
                    b0 = [half * strip(v.a[i]) + (1 - half) * wb for i in range(B)]
                    blloss = half * _mean([(v.a[i] - Rs[i]) * (v.a[i] - Rs[i]) for i in range(B)]) + 0
                adv = [Rs[i] - b0[i] for i in range(B)]
                if case == "scaled_int":
                    adv = [a / 4 for a in adv]
                if case == "scaled_norm":
                    mean = _mean(adv)
                    m2 = sum((a - mean) * (a - mean) for a in adv)
                    std = T._default_math_sym("sqrt", m2 / (B - 1))
                    adv = [(a - mean) / (std + z3.RealVal(str(1.1920928955078125e-07))) for a in adv]
                ref = -_mean([adv[i] * Ls[i] for i in range(B)]) + blloss
                same(ctx, E, f"{name} step {step}: loss is the REINFORCE surrogate -(mean((r-b)*ll)) + baseline loss, as a function of EPS (value and gradient)", out["loss"], ref, cexb, tag=step)
                blv = out["bl_val"]
                if isinstance(blv, T.Tensor):
                    ctx.prove(E, f"{name} step {step}: baseline value carries no gradient", z3.And(*[T._real(x) == T._real(strip(x)) for x in blv.a.reshape(-1)]),
                              lambda E_, neg, _s=step: [dict(r_, tag=_s, nograd=True) for r_ in cexb(E_, neg)])
            ctx.states += steps
        elif case == "pomo":
            pomo = w.load("rl4co.models.zoo.pomo.model")
            rr, lls = dvec("r", (B * S,), tangent=False), dvec("ll", (B * S,))
            env = types.SimpleNamespace(reset=lambda b: b, get_num_starts=lambda td: S, name="tsp")
            model = make_model(pomo.POMO, env=env, policy=lambda td, env, phase=None, num_starts=None, **k: {"reward": rr, "log_likelihood": lls},
                               num_starts=S, num_augment=8, augment=None, baseline=bl.SharedBaseline(), advantage_scaler=utils.RewardScaler(None))
            res = model.shared_step(TensorDict({}, batch_size=[B]), 0, "train")
            Rm = [[rr.a[s * B + b] for s in range(S)] for b in range(B)]  # row r belongs to instance r mod B
            Lm = [[lls.a[s * B + b] for s in range(S)] for b in range(B)]
            ref = -_mean([(Rm[b][s] - _mean(Rm[b])) * Lm[b][s] for b in range(B) for s in range(S)])
            same(ctx, E, f"{name} POMO loss = shared-baseline surrogate with per-instance mean over its own starts (value and gradient)", res["loss"], ref, cexb)
            ctx.states += 1
            ctx.transitions += 1
        elif case == "symnco":
            sym = w.load("rl4co.models.zoo.symnco.model")
            A = 2
            N = B * S * A
            rr, lls = dvec("r", (N,), tangent=False), dvec("ll", (N,))
            inv = z3.Real("inv_loss")
            sym.invariance_loss = lambda pe, n: T.Tensor(np.array(inv + EPS * z3.Real("dinv"), dtype=object), T.float32)
            env = types.SimpleNamespace(reset=lambda b: b, name="tsp")
            model = make_model(sym.SymNCO, env=env, policy=lambda td, env, phase=None, num_starts=None, **k: {"reward": rr, "log_likelihood": lls, "proj_embeddings": None},
                               num_starts=S, num_augment=A, augment=lambda td: td, alpha=0.2, beta=1.0)
            res = model.shared_step(TensorDict({}, batch_size=[B]), 0, "train")
            # unbatchify(x, (n_start, n_aug)): [B, n_start, n_aug]; flat row = (a * S + s) * B + b  (row mod B = instance)
            Rm = [[[rr.a[(a * S + s) * B + b] for a in range(A)] for s in range(S)] for b in range(B)]
            Lm = [[[lls.a[(a * S + s) * B + b] for a in range(A)] for s in range(S)] for b in range(B)]
            ps = -_mean([(Rm[b][s][a] - _mean([Rm[b][s2][a] for s2 in range(S)])) * Lm[b][s][a] for b in range(B) for s in range(S) for a in range(A)])
            ss = -_mean([(Rm[b][s][a] - _mean(Rm[b][s])) * Lm[b][s][a] for b in range(B) for s in range(S) for a in range(A)])
            ref = ps + 1.0 * ss + z3.RealVal("0.2") * (inv + EPS * z3.Real("dinv"))
            same(ctx, E, f"{name} SymNCO loss = L_ps + beta*L_ss + alpha*L_inv with per-instance shared baselines (value and gradient)", res["loss"], ref, cexb)
            ctx.states += 1
            ctx.transitions += 1
        elif case.startswith("ppo"):
            from symtorch import scalar as SC

            SC.OPAQUE_MUL[0] = True  # products of two symbolic reals are opaque (commutative UF) on both sides of the identity
            _x, _y = z3.Reals("x!c y!c")
            E.assume(z3.ForAll([_x, _y], SC._MULC(_x, _y) == SC._MULC(_y, _x)))
            mulc = lambda a_, b_: SC.s_mul(a_, b_)  # noqa: E731
            ppo = w.load("rl4co.models.rl.ppo.ppo")
            Tn = 2
            old_ll = dvec("oldll", (B,), tangent=False)
            rew = dvec("r", (B,), tangent=False)
            new_ll = dvec("ll", (B, Tn))
            ent = dvec("ent", (B,))
            val = dvec("v", (B, 1))
            acts = T.Tensor(np.zeros((B, Tn), dtype=object), T.int64)
            calls = []

            def policy(td, env=None, phase=None, actions=None, **k):
                calls.append(actions is not None)
                if actions is None:
                    return {"actions": acts, "log_likelihood": old_ll, "reward": rew}
                return {"log_likelihood": new_ll, "entropy": ent, "reward": rew}

            captured = []
            datastub.SHUFFLE_ORDER = lambda n: list(range(n))
            ds = w.load("rl4co.data.dataset")
            env = types.SimpleNamespace(reset=lambda b: b, dataset_cls=ds.TensorDictDataset, name="tsp")
            cfg = {"clip_range": 0.2, "ppo_epochs": 1, "mini_batch_size": B, "vf_lambda": 0.5, "entropy_lambda": 0.01, "normalize_adv": case == "ppo_norm", "max_grad_norm": None}
            opt = types.SimpleNamespace(zero_grad=lambda: None, step=lambda: None)
            model = make_model(ppo.PPO, env=env, policy=policy, critic=lambda td: val, ppo_cfg=cfg, optimizers=lambda: opt,
                               manual_backward=lambda loss: captured.append(loss), clip_gradients=lambda *a, **k: None)
            model.shared_step(TensorDict({"x": dvec("x", (B,), tangent=False)}, batch_size=[B]), 0, "train")
            assert captured, "PPO never called manual_backward"
            ratio = [T._default_math_sym("exp", sum(list(new_ll.a[i])[1:], new_ll.a[i][0]) - old_ll.a[i]) for i in range(B)]
            adv = [rew.a[i] - strip(val.a[i, 0]) for i in range(B)]
            if case == "ppo_norm":
                mean = _mean(adv)
                m2 = sum((a - mean) * (a - mean) for a in adv)
                std = T._default_math_sym("sqrt", m2 / (B - 1))
                adv = [(a - mean) / (std + z3.RealVal("1/100000000")) for a in adv]
            lo, hi = z3.RealVal("0.8"), z3.RealVal("1.2")
            terms = []
            for i in range(B):
                cl = z3.If(ratio[i] < lo, lo, z3.If(ratio[i] > hi, hi, ratio[i]))
                a1, a2 = mulc(ratio[i], adv[i]), mulc(cl, adv[i])
                terms.append(z3.If(a1 <= a2, a1, a2))
            surr = -_mean(terms)

            def huber(d):
                ad = z3.If(d >= 0, d, -d)
                return z3.If(ad <= 1, mulc(ad, ad) * z3.RealVal("1/2"), (ad - z3.RealVal("1/2")))

            vloss = _mean([huber(val.a[i, 0] - rew.a[i]) for i in range(B)])
            ref = surr + z3.RealVal("0.5") * vloss - z3.RealVal("0.01") * _mean(list(ent.a))
            if os.environ.get("VF_DEBUG"):
                print("REPO:", z3.simplify(scalar(captured[-1])))
                print("REF :", z3.simplify(ref))
            same(ctx, E, f"{name} PPO loss handed to backward = clipped surrogate + vf_lambda*huber - entropy_lambda*entropy (value and gradient)", captured[-1], ref, cexb)
            ctx.prove(E, f"{name} PPO: first policy call samples, second evaluates the stored actions", calls == [False, True], cexb)
            ctx.states += 1
            ctx.transitions += 1
        if E.check() == z3.sat and not ctx.witness:
            ctx.witness.append({"note": "satisfiable"})

    try:
        E.run(harness)
    except explore.Inconclusive as e:
        return ctx.result(E, w, status="inconclusive", error=str(e))
    finally:
        T.DETACH_HOOK = old
        datastub.SHUFFLE_ORDER = None
        from symtorch import scalar as SC2

        SC2.OPAQUE_MUL[0] = False
    ctx.witness = []
    if not ctx.obligations:
        return ctx.result(E, w, status="error", error="vacuous")
    return ctx.result(E, w)


# =============================================================================================== C20
def stats_job(job_id, case, m=2, n0=None, cols=1, source_filter=None):
    """case: 'welford' (inductive step from arbitrary sufficient statistics), 'welford_first' (from the initial
    state), 'scale_norm' / 'scale_scale' / 'scale_int' / 'scale_none' (output transformation), 'ema', 'warmup'"""
    E = explore.EXP
    ctx = core.Ctx(job_id)
    w = world.make_world(source_filter=source_filter, inert=())
    ctx.bounds = {"case": case, "batch": m, "n0": n0 if n0 is not None else "symbolic"}
    old = T.DETACH_HOOK
    T.DETACH_HOOK = detach_hook
    utils = w.load("rl4co.models.rl.common.utils")
    bl = w.load("rl4co.models.rl.reinforce.baselines")

    realisable = []

    def cexb(E_, neg):
        if E_.check(neg, *realisable) == z3.sat or E_.check(neg) == z3.sat:
            mm = E_.model()
            return [{"kind": "script", "path": core.ROOT + "/vf/torch_side", "module": "training_side", "func": "run_stats", "model_kind": "plain", "mode": "C20",
                     "params": {"case": case, "m": m, "cols": cols, "n0": n0, "values": {str(d): str(mm[d]) for d in mm.decls() if d.arity() == 0 and str(d) != "eps!"}}}]
        return []

    def harness():
        name = f"[{case} m={m}x{cols}]"
        xs = [z3.Real(f"x{i}") for i in range(m * cols)]
        X = T.Tensor(np.array(list(xs), dtype=object).reshape((m, cols) if cols > 1 else (m,)), T.float32)  # cols > 1: [batch, n_start] advantages
        if case.startswith("welford") or case.startswith("scale"):
            kind = {"scale_norm": "norm", "scale_scale": "scale", "scale_int": 4, "scale_none": None}.get(case, "norm")
            sc = utils.RewardScaler(kind)
            if case == "welford_first" or case in ("scale_int", "scale_none"):
                n, S1, S2 = 0, 0, 0
            else:
                # arbitrary history summarised by its sufficient statistics (n >= 1 observations, sum S1, sum of squares S2)
                if n0 is None:
                    n = z3.Int("n_hist")
                    E.assume(n >= 1)
                else:
                    n = n0
                S1, S2 = z3.Real("S1"), z3.Real("S2")
                nr = z3.ToReal(n) if is_sym(n) else n
                realisable.append(z3.If(nr == 1, S2 == S1 * S1, S2 * nr >= S1 * S1))  # Cauchy-Schwarz: used when extracting replayable models
                sc.count = n
                sc.mean = T.Tensor(np.array(S1 / nr, dtype=object), T.float32)
                sc.M2 = T.Tensor(np.array(S2 - S1 * S1 / nr, dtype=object), T.float32)
                ctx.assumptions.add("pre-state: count=n>=1, mean=S1/n, M2=S2-S1^2/n for arbitrary n, S1, S2 (representation invariant of the Welford accumulator)")
            if case in ("scale_int", "scale_none"):
                out = sc(X.clone())
                ref = [x / 4 for x in xs] if case == "scale_int" else xs
                ctx.prove(E, f"{name} output is the stated transformation of the input", z3.And(*[T._real(a) == T._real(b) for a, b in zip(out.a.reshape(-1), ref)]), cexb)
                ctx.states += 1
                ctx.transitions += 1
                return
            nr = z3.ToReal(n) if is_sym(n) else n
            if case.startswith("welford"):
                sc.update(X)
                E.obligations = []
            else:
                if not is_sym(n) and n + len(xs) < 2:
                    raise explore.PathAbort()
                out = sc(X.clone())
                if E.obligations:
                    obs, E.obligations = E.obligations, []
                    ctx.prove(E, f"{name} no division by zero / sqrt of a negative number ({obs[0][0]}, ...)", z3.And(*[T._bool(c) for _, c in obs]), cexb)
            N = nr + len(xs)
            T1 = S1 + sum(xs)
            T2 = S2 + sum(x * x for x in xs)
            ctx.prove(E, f"{name} count equals the number of values observed", (sc.count == n + len(xs)) if is_sym(sc.count) or is_sym(n) else sc.count == n + len(xs), cexb)
            same(ctx, E, f"{name} running mean equals the mean of all values observed so far", sc.mean, T1 / N, cexb)
            same(ctx, E, f"{name} running M2 equals the sum of squared deviations of all values observed so far", sc.M2, T2 - T1 * T1 / N, cexb)
            if case.startswith("scale_"):
                var = (T2 - T1 * T1 / N) / (N - 1)
                std = T._default_math_sym("sqrt", var)
                eps32 = z3.RealVal(str(1.1920928955078125e-07))
                if case == "scale_norm":
                    ref = [(x - T1 / N) / (std + eps32) for x in xs]
                else:
                    ref = [x / (std + eps32) for x in xs]
                ctx.prove(E, f"{name} output = stated transformation with the sample standard deviation sqrt(M2/(n-1))", z3.And(*[T._real(a) == b for a, b in zip(out.a.reshape(-1), ref)]), cexb)
            ctx.states += 1
            ctx.transitions += 1
        elif case == "ema":
            beta = z3.Real("beta")
            E.assume(z3.And(beta >= 0, beta <= 1))
            b = bl.ExponentialBaseline(beta=T.Tensor(np.array(beta, dtype=object), T.float32))
            vprev = None
            for step in range(3):
                rs = dvec(f"r{step}", (m,), tangent=True)  # even a reward with a gradient must not leak through v
                v, loss = b.eval(None, rs)
                mean = _mean(list(rs.a))
                ref = strip(mean) if vprev is None else beta * vprev + (1 - beta) * strip(mean)
                same(ctx, E, f"{name} step {step}: v follows v' = beta*v + (1-beta)*mean(reward) (first step: mean), detached", v, ref, cexb)
                ctx.prove(E, f"{name} step {step}: no baseline loss", scalar(loss) == 0 if not is_sym(scalar(loss)) else scalar(loss) == 0, cexb)
                vprev = ref
                ctx.transitions += 1
            mb = bl.MeanBaseline()
            rs = dvec("rm", (m,), tangent=False)
            mb.eval(None, dvec("rm0", (m,), tangent=False))
            v, _ = mb.eval(None, rs)
            same(ctx, E, f"{name} MeanBaseline returns the mean of the current batch (no memory)", v, _mean(list(rs.a)), cexb)
            ctx.states += 4
        elif case == "warmup":
            for n_epochs in (1, 2, 3):
                inner_v, inner_l = z3.Real("inner_v"), z3.Real("inner_l")

                class Inner(bl.REINFORCEBaseline):
                    def eval(self, td, reward, env=None):
                        return T.Tensor(np.array(inner_v, dtype=object), T.float32), T.Tensor(np.array(inner_l, dtype=object), T.float32)

                wb = bl.WarmupBaseline(Inner(), n_epochs=n_epochs, warmup_exp_beta=0.8)
                rs = dvec("rw", (m,), tangent=False)
                for epoch in range(-1, n_epochs + 2):
                    if epoch >= 0:
                        wb.epoch_callback(None, epoch=epoch)
                    alpha = 0 if epoch < 0 else min(1.0, (epoch + 1) / n_epochs)
                    ctx.prove(E, f"{name} n_epochs={n_epochs}: weight after epoch {epoch} is min(1,(epoch+1)/n_epochs)", abs(float(wb.alpha) - alpha) < 1e-12, cexb)
                    wb.warmup_baseline.v = None
                    v, l = wb.eval(None, rs)
                    ew = _mean(list(rs.a))
                    a = T._real((epoch + 1) / float(n_epochs)) if 0 < alpha < 1 else alpha  # the float the code itself computes
                    one_minus = T._real(1 - (epoch + 1) / float(n_epochs)) if 0 < alpha < 1 else None
                    refv = inner_v if alpha == 1 else (ew if alpha == 0 else a * inner_v + one_minus * ew)
                    refl = inner_l if alpha == 1 else (0 if alpha == 0 else a * inner_l)
                    same(ctx, E, f"{name} n_epochs={n_epochs} epoch {epoch}: value is the convex combination alpha*baseline + (1-alpha)*warmup", v, refv, cexb)
                    same(ctx, E, f"{name} n_epochs={n_epochs} epoch {epoch}: loss is the same combination of the losses", l, refl, cexb)
                    ctx.transitions += 1
                ctx.states += 1
        if not ctx.witness and E.check() == z3.sat:
            ctx.witness.append({"note": "satisfiable"})

    try:
        E.run(harness)
    except explore.Inconclusive as e:
        return ctx.result(E, w, status="inconclusive", error=str(e))
    finally:
        T.DETACH_HOOK = old
    ctx.witness = []
    if not ctx.obligations:
        return ctx.result(E, w, status="error", error="vacuous")
    return ctx.result(E, w)
