"""Runs under /venv/bin/python with the real torch + the real rl4co from /repo: executes replay / differential
requests and reports what the real code did.  Deliberately dumb: no oracle logic lives here."""
from __future__ import annotations

import importlib
import json
import os
import math
import sys
import traceback
import warnings

warnings.filterwarnings("ignore")
import torch  # noqa: E402
from tensordict import TensorDict  # noqa: E402

DT = {"bool": torch.bool, "uint8": torch.uint8, "int32": torch.int32, "int64": torch.int64, "float32": torch.float32, "float64": torch.float64}


def conv_in(x):
    if isinstance(x, list):
        return [conv_in(v) for v in x]
    if x == "inf":
        return math.inf
    if x == "-inf":
        return -math.inf
    return x


def to_tensor(spec):
    return torch.tensor(conv_in(spec["data"]), dtype=DT[spec["dtype"]])


def from_tensor(t):
    if isinstance(t, torch.Tensor):
        def f(x):
            if isinstance(x, list):
                return [f(v) for v in x]
            if isinstance(x, float) and math.isinf(x):
                return "inf" if x > 0 else "-inf"
            if isinstance(x, float) and math.isnan(x):
                return "nan"
            return x

        return f(t.detach().cpu().tolist())
    return t


def make_td(spec, batch):
    return TensorDict({k: to_tensor(v) for k, v in spec.items()}, batch_size=batch)


def make_env(e):
    import types

    mod = importlib.import_module(e["module"])
    cls = getattr(mod, e["cls"])
    kw = dict(e.get("kwargs", {}))
    if "fake_generator" in kw:  # environments whose constructors download chip data (DPP / MDPP): build around them
        from rl4co.envs.common.base import RL4COEnvBase

        g = types.SimpleNamespace(**kw.pop("fake_generator"))
        env = object.__new__(cls)
        RL4COEnvBase.__init__(env, **kw)
        env.__dict__.update(generator=g, max_decaps=g.max_decaps, size=g.size, reward_type="minmax")
        env._make_spec(g)
        return env
    return cls(**kw)


def do_episode(req):
    env = make_env(req["env"])
    td = make_td(req["td"], req["batch"])
    out = {"masks": [], "done": [], "extra": []}
    td = env.reset(td)
    actions = []
    keys = req.get("record", [])

    def rec():
        out["masks"].append(from_tensor(td["action_mask"]))
        out["done"].append(from_tensor(td["done"].reshape(td.batch_size[0], -1).all(-1)))
        out["extra"].append({k: from_tensor(td[k]) for k in keys if k in td.keys()})

    rec()
    steps = 0
    try:
        for a in req["actions"]:
            if req.get("stop_when_all_done", True) and bool(td["done"].all()):
                break
            at = torch.tensor(a, dtype=torch.int64)
            ok = td["action_mask"].gather(1, at.view(-1, 1)).squeeze(1) if td["action_mask"].dim() == 2 else None
            out.setdefault("admitted", []).append(from_tensor(ok) if ok is not None else None)
            td.set("action", at)
            td = env.step(td)["next"]
            actions.append(at)
            steps += 1
            rec()
    except Exception as e:  # noqa: BLE001
        out["step_error"] = f"{type(e).__name__}: {e}"
        out["step_error_at"] = steps
    out["steps"] = steps
    if actions and "step_error" not in out:
        A = torch.stack(actions, 1)
        out["actions"] = from_tensor(A)
        try:
            out["reward"] = from_tensor(env._get_reward(td, A))
        except Exception as e:  # noqa: BLE001
            out["reward_error"] = f"{type(e).__name__}: {e}"
        if req.get("checker", False):
            try:
                env.check_solution_validity(td, A)
                out["checker"] = "accept"
            except AssertionError as e:
                out["checker"] = f"reject: {e}"
            except Exception as e:  # noqa: BLE001
                out["checker"] = f"error: {type(e).__name__}: {e}"
    return out


def do_rollout(req):
    """generate instances with the real generator, run a seeded random mask-admitted rollout, record everything"""
    torch.manual_seed(req["seed"])
    env = make_env(req["env"])
    B = req["B"]
    if req.get("td") is not None:
        td0 = make_td(req["td"], [B])
    else:
        td0 = env.generator(batch_size=[B])
    out = {"td": {k: {"dtype": str(v.dtype).replace("torch.", ""), "data": from_tensor(v)} for k, v in td0.items()}, "masks": [], "done": [], "actions": [], "extra": []}
    keys = req.get("record", [])
    td = env.reset(td0.clone())

    def rec():
        out["masks"].append(from_tensor(td["action_mask"]))
        out["done"].append(from_tensor(td["done"].reshape(B, -1).all(-1)))
        out["extra"].append({k: from_tensor(td[k]) for k in keys if k in td.keys()})

    rec()
    acts = []
    for _ in range(req.get("max_steps", 200)):
        if bool(td["done"].all()):
            break
        m = td["action_mask"].reshape(B, -1).float()
        if (m.sum(-1) == 0).any():
            out["dead_end"] = True
            break
        a = torch.multinomial(m, 1).squeeze(-1)
        out["actions"].append(from_tensor(a))
        acts.append(a)
        td.set("action", a)
        td = env.step(td)["next"]
        rec()
    if acts:
        A = torch.stack(acts, 1)
        try:
            out["reward"] = from_tensor(env._get_reward(td, A))
        except Exception as e:  # noqa: BLE001
            out["reward_error"] = f"{type(e).__name__}: {e}"
        if req.get("checker", False):
            try:
                env.check_solution_validity(td, A)
                out["checker"] = "accept"
            except AssertionError as e:
                out["checker"] = f"reject: {e}"
            except Exception as e:  # noqa: BLE001
                out["checker"] = f"error: {type(e).__name__}: {e}"
    return out


def do_checker(req):
    """call check_solution_validity on a given final td + action matrix"""
    env = make_env(req["env"])
    td = make_td(req["td"], req["batch"])
    if req.get("reset", True):
        td = env.reset(td)
    A = torch.tensor(req["actions"], dtype=torch.int64)
    try:
        env.check_solution_validity(td, A)
        return {"checker": "accept"}
    except AssertionError as e:
        return {"checker": f"reject: {e}"}
    except Exception as e:  # noqa: BLE001
        return {"checker": f"error: {type(e).__name__}: {e}"}


def do_call(req):
    """generic: call module.func(*args) with tensor arguments decoded from the request"""
    mod = importlib.import_module(req["module"])
    fn = mod
    for part in req["func"].split("."):
        fn = getattr(fn, part)

    def dec(x):
        if isinstance(x, dict) and "dtype" in x and "data" in x:
            return to_tensor(x)
        if isinstance(x, dict) and "__td__" in x:
            return make_td(x["__td__"], x["batch"])
        if isinstance(x, dict):
            return {k: dec(v) for k, v in x.items()}
        if isinstance(x, list):
            return [dec(v) for v in x]
        return x

    def enc(x):
        if isinstance(x, torch.Tensor):
            return {"dtype": str(x.dtype).replace("torch.", ""), "data": from_tensor(x), "shape": list(x.shape)}
        if isinstance(x, (tuple, list)):
            return [enc(v) for v in x]
        if isinstance(x, dict):
            return {k: enc(v) for k, v in x.items()}
        if hasattr(x, "keys") and hasattr(x, "batch_size"):
            return {"__td__": {k: enc(x[k]) for k in x.keys()}, "batch": list(x.batch_size)}
        if isinstance(x, (int, float, bool, str)) or x is None:
            return x
        return repr(x)

    try:
        if req.get("seed") is not None:
            torch.manual_seed(req["seed"])
        r = fn(*[dec(a) for a in req.get("args", [])], **{k: dec(v) for k, v in req.get("kwargs", {}).items()})
        return {"result": enc(r)}
    except AssertionError as e:
        return {"assertion": str(e)}
    except Exception as e:  # noqa: BLE001
        return {"error": f"{type(e).__name__}: {e}", "trace": traceback.format_exc()[-1500:]}


def do_script(req):
    """run a named function of a replay-side helper module shipped in /verif/vf/torch_side/"""
    sys.path.insert(0, req["path"])
    mod = importlib.import_module(req["module"])
    return getattr(mod, req["func"])(req.get("params", {}))


def do_pair_search(req):
    """fallback confirmation for batch-independence counterexamples whose model relies on the distance abstraction: real
    generator instances in the same batch composition, random mask-admitted rollouts, row `pos` re-run alone with its own
    actions; returns the first real discrepancy (mask / finishing step / reward)"""
    B, pos = req["B"], req["pos"]
    for seed in range(req.get("tries", 300)):
        torch.manual_seed(seed)
        env = make_env(req["env"])
        if req.get("row_envs"):
            td0 = torch.cat([make_env(e).generator(batch_size=[1]) for e in req["row_envs"]], 0)
        else:
            td0 = env.generator(batch_size=[B])
        td = env.reset(td0.clone())
        masks, dones, acts = [td["action_mask"].clone()], [td["done"].reshape(B, -1).all(-1).clone()], []
        ok = True
        for _ in range(req.get("max_steps", 60)):
            if bool(td["done"].all()):
                break
            m = td["action_mask"].reshape(B, -1).float()
            if (m.sum(-1) == 0).any():
                ok = False
                break
            a = torch.multinomial(m, 1).squeeze(-1)
            acts.append(a)
            td.set("action", a)
            td = env.step(td)["next"]
            masks.append(td["action_mask"].clone())
            dones.append(td["done"].reshape(B, -1).all(-1).clone())
        if not ok or not acts:
            continue
        A = torch.stack(acts, 1)
        try:
            rb = env._get_reward(td, A)
        except Exception as e:  # noqa: BLE001
            rb = None
        ts = env.reset(td0[pos : pos + 1].clone())
        info = {"seed": seed, "td": {k: {"dtype": str(v.dtype).replace("torch.", ""), "data": from_tensor(v)} for k, v in td0.items()}, "actions": from_tensor(A)}
        sa = []
        for t in range(len(acts) + 1):
            ds = bool(ts["done"].reshape(1, -1).all())
            if ds != bool(dones[t][pos]):
                return dict(info, violation=f"row {pos} finishes at a different step alone than in the batch (step {t})")
            if ds:
                break
            if not torch.equal(ts["action_mask"][0], masks[t][pos]):
                return dict(info, violation=f"mask of row {pos} at step {t} differs alone {ts['action_mask'][0].int().tolist()} vs in batch {masks[t][pos].int().tolist()}")
            if t == len(acts):
                break
            ts.set("action", acts[t][pos : pos + 1])
            sa.append(acts[t][pos : pos + 1])
            ts = env.step(ts)["next"]
        if rb is not None and sa:
            try:
                rs = env._get_reward(ts, torch.stack(sa, 1))
                if abs(float(rs.reshape(-1)[0]) - float(rb.reshape(-1)[pos])) > 1e-4 * (1 + abs(float(rs.reshape(-1)[0]))):
                    return dict(info, violation=f"reward of row {pos}: alone {float(rs.reshape(-1)[0]):.6f} vs in batch (with padding / batch-mates) {float(rb.reshape(-1)[pos]):.6f}")
            except Exception:  # noqa: BLE001
                pass
    return {"violation": None}


def do_pair(req):
    return {"batched": do_episode(req["batched"]), "solo": do_episode(req["solo"])}


KINDS = {"episode": do_episode, "pair": do_pair, "pair_search": do_pair_search, "rollout": do_rollout, "checker": do_checker, "call": do_call, "script": do_script}


def main():
    inp, outp = sys.argv[1], sys.argv[2]
    with open(inp) as f:
        reqs = json.load(f)
    import signal

    class _Timeout(Exception):
        pass

    def _alarm(signum, frame):
        raise _Timeout()

    signal.signal(signal.SIGALRM, _alarm)
    per_request = int(os.environ.get("VERIF_TORCH_REQUEST_TIMEOUT_S", "240"))
    res = []
    for r in reqs:
        try:
            signal.alarm(per_request)
            res.append(KINDS[r["kind"]](r))
        except _Timeout:
            # e.g. a resampling loop of the real library that never ends on this input: reported as unconfirmed, never as success
            res.append({"error": f"the real run did not finish within {per_request} s", "timeout": True})
        except Exception as e:  # noqa: BLE001
            res.append({"error": f"{type(e).__name__}: {e}", "trace": traceback.format_exc()[-3000:]})
        finally:
            signal.alarm(0)
    with open(outp, "w") as f:
        json.dump(res, f)


if __name__ == "__main__":
    main()
