"""C05, exact-fill clause in float32: the real reset / step / mask code of the CVRP family runs with its float tensors as
IEEE float32 terms (z3 FloatingPoint theory, round-to-nearest-even), on instances as the generator makes them: integer
demands d_j in [1, 9] divided by an integer capacity c in float32.  The ground truth is integer arithmetic: customer j may
be appended to the current route iff load + d_j <= c.  Obligation: every such customer is offered by the mask, in
particular when the load then fills the vehicle exactly."""
from __future__ import annotations

import numpy as np
import z3

from symtorch import explore, world
from symtorch import scalar as SC
from symtorch import tensor as T
from symtorch.scalar import _bool, s_and, s_eq, s_not, s_or
from symtorch.tdict import TensorDict

from . import core
from . import envs as EV
from .oracle import all_, any_


def exact_fill_job(job_id, env_name="cvrp", n=3, capacities=(17,), steps=None, source_filter=None):
    E = explore.EXP
    ctx = core.Ctx(job_id)
    w = world.make_world(source_filter=source_filter)
    sp = EV.SPECS[env_name]
    steps = steps or n
    ctx.bounds = {"env": env_name, "customers": n, "capacities": list(capacities), "demands": "integers 1..9", "steps": steps, "arithmetic": "IEEE float32, RNE (bit-precise)"}
    ctx.stubs.add("demand = float32(d) / float32(c) folded to a float32 constant per (d, c) pair (what the generator computes); coordinates concrete (the capacity mask does not read them)")
    ctx.assumptions.add("single route segment between depot visits is tracked with integer load; depot visits reset it")
    hold = {}

    def cexb(E_, neg):
        if E_.check(neg) != z3.sat:
            return []
        m = E_.model()
        c = hold["c"]
        d = [m.eval(x, model_completion=True).as_long() for x in hold["d"]]
        acts = [[int(a)] for a in hold["acts"]]
        dem = [float(np.float32(k) / np.float32(c)) for k in d]
        td_json = {"locs": {"dtype": "float32", "data": [[[0.1 * (j + 1), 0.2] for j in range(n)]]}, "depot": {"dtype": "float32", "data": [[0.0, 0.0]]}, "demand": {"dtype": "float32", "data": [dem]}}
        return [{"kind": "episode", "env": {"module": sp.module, "cls": sp.cls, "kwargs": sp.env_kwargs(n, None)}, "td": td_json, "batch": [1], "actions": acts, "checker": False,
                 "spec": sp.name, "n": n, "variant": None, "record": [], "mode": "fp", "model_kind": "plain", "int_demands": d, "capacity": c, "stop_when_all_done": True}]

    def harness():
        ci = E.choose(len(capacities))
        c = capacities[ci]
        hold["c"] = c
        env = sp.make_env(w, n, None)
        d = [z3.BitVec(f"d{j}", 8) for j in range(n)]  # integer demands as bit-vectors: the whole query stays in QF_FPBV
        hold["d"] = d
        SC.FPMODE[0] = True
        E.logic = "QF_FPBV"
        try:
            dem = []
            for j in range(n):
                E.assume(z3.And(z3.UGE(d[j], 1), z3.ULE(d[j], 9)))
                v = z3.FPVal(float(np.float32(9) / np.float32(c)), SC.FSORT)
                for k in range(8, 0, -1):
                    v = z3.If(d[j] == k, z3.FPVal(float(np.float32(k) / np.float32(c)), SC.FSORT), v)
                dem.append(v)
            td = TensorDict({"locs": T.tensor([[[0.1 * (j + 1), 0.2] for j in range(n)]], dtype=T.float32), "depot": T.tensor([[0.0, 0.0]], dtype=T.float32),
                             "demand": T.Tensor(np.array([dem], dtype=object), T.float32)}, batch_size=[1])
            td = env.reset(td)
            load = z3.BitVecVal(0, 8)
            visited = [False] * n
            acts = []
            hold["acts"] = acts
            for t in range(steps):
                mask = td["action_mask"].a[0]
                for j in range(n):
                    if visited[j]:
                        continue
                    fits = z3.ULE(load + d[j], c)
                    ctx.prove(E, f"[{env_name} c={c} float32] after the route {acts}: customer {j + 1} is offered whenever load + d <= capacity in integer arithmetic (incl. exact fill)",
                              s_or(s_not(fits), mask[j + 1]), cexb)
                if t == steps - 1:
                    break
                a = E.choose(n + 1)  # the route so far is enumerated (path forking); demands stay symbolic
                if a and visited[a - 1]:
                    raise explore.PathAbort()
                if a == 0 and (not acts or acts[-1] == 0):
                    raise explore.PathAbort()
                acts.append(a)
                E.assume(_bool(mask[a]))
                if a:
                    # follow only integer-feasible routes (ground truth), so that the load bookkeeping below is the true one
                    E.assume(z3.ULE(load + d[a - 1], c))
                    load = load + d[a - 1]
                    visited[a - 1] = True
                else:
                    load = z3.BitVecVal(0, 8)
                td.set("action", T.tensor([a], dtype=T.int64))
                td = env.step(td)["next"]
                E.obligations = []
            ctx.states += steps
            ctx.transitions += steps - 1
        finally:
            SC.FPMODE[0] = False
            E.logic = None

    try:
        E.run(harness)
    except explore.Inconclusive as e:
        return ctx.result(E, w, status="inconclusive", error=str(e))
    finally:
        SC.FPMODE[0] = False
        E.logic = None
    if not ctx.obligations:
        return ctx.result(E, w, status="error", error="vacuous")
    return ctx.result(E, w)
