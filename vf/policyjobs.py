"""C11 (log-likelihood = sum of the step log-probabilities of the actions taken; evaluate round trip) and
C13 (beam search).  The real `ConstructivePolicy.forward`, `DecodingStrategy.*`, `BeamSearch.*`, `process_logits`,
`get_log_likelihood`, `calculate_entropy` and the real TSP environment run end to end; the decoder is abstract:
its logits are an uninterpreted function of the state it is shown, so a wrongly re-indexed / stale state yields
different symbols."""
from __future__ import annotations

import numpy as np
import z3

from symtorch import explore, nnmod, world
from symtorch import tensor as T
from symtorch.scalar import XR, PathAbort, _bool, _real, _xr, is_sym, s_and, s_eq, s_not, s_or, s_where
from symtorch.tdict import TensorDict

from . import core
from .oracle import all_, any_, pick

R = z3.RealSort()


_LSM_OUT = set()


def lsm_stub(t, dim, log):
    """log_softmax / softmax as a FUNCTION of the (flagged) row: same inputs -> same outputs; -inf stays -inf / 0;
    finite log-probabilities lie in (-1000, 0] (bounded logits, true under the policies' tanh clipping)"""
    E = explore.EXP
    moved = np.moveaxis(t.a, dim, -1)
    out = np.empty(moved.shape, dtype=object)
    for pos in np.ndindex(*moved.shape[:-1]):
        row = [_xr(x) for x in moved[pos]]
        # library fact: log_softmax is idempotent -- a row that IS the output of an earlier log_softmax call comes back unchanged
        key = tuple((x.v.get_id() if is_sym(x.v) else repr(x.v), x.ninf.get_id() if is_sym(x.ninf) else repr(x.ninf)) for x in row)
        if log and key in _LSM_OUT:
            for j, x in enumerate(row):
                out[pos + (j,)] = x
            continue
        args = []
        for x in row:
            args += [_real(s_where(x.ninf, 0.0, x.v)), _real(_bool(x.ninf))]  # the payload under a -inf flag is irrelevant
        for j, x in enumerate(row):
            v = nnmod.UF(f"{'lsm' if log else 'sm'}{len(row)}_{j}", len(args))(*args)
            if log:
                E.assume(z3.And(v > -1000, v <= 0))
                out[pos + (j,)] = XR(False, v, x.ninf)
            else:
                E.assume(z3.And(v >= 0, v <= 1))
                out[pos + (j,)] = s_where(x.ninf, 0.0, v)
        if log:
            o = [out[pos + (j,)] for j in range(len(row))]
            _LSM_OUT.add(tuple((x.v.get_id() if is_sym(x.v) else repr(x.v), x.ninf.get_id() if is_sym(x.ninf) else repr(x.ninf)) for x in o))
    return T.Tensor(np.moveaxis(out, -1, dim), T.float32)


def state_logits(n, first, cur, avail, tag=0.0):
    """tag: something only this instance has (its first coordinate), so that different instances of a batch get different logits"""
    args = [_real(tag), _real(first), _real(cur)] + [_real(_bool(a)) for a in avail]
    return [nnmod.UF(f"L_{j}", len(args))(*args) for j in range(n)]


def make_policy(w, n):
    base = w.load("rl4co.models.common.constructive.base")

    class Enc(nnmod.Module):
        def forward(self, td):
            return None, None

    class Dec(nnmod.Module):
        def pre_decoder_hook(self, td, env, hidden, num_starts):
            return td, env, hidden

        def forward(self, td, hidden, num_starts):
            Bp = td.batch_size[0]
            out = np.empty((Bp, n), dtype=object)
            for r in range(Bp):
                out[r] = state_logits(n, td["first_node"].a.reshape(Bp)[r], td["current_node"].a.reshape(Bp)[r], td["action_mask"].a[r], tag=td["locs"].a[r, 0, 0])
            return T.Tensor(out, T.float32), td["action_mask"]

    return base.ConstructivePolicy(Enc(), Dec(), env_name="tsp")


def rederive(n, seq, forced_first, tag=0.0, temperature=1.0, rows_out=None):
    """independent re-derivation for TSP: per-step log-probability of each action of `seq` under the masked,
    normalised distribution of the state reached by the preceding actions (first move forced => contributes 0)"""
    avail, first, cur = [True] * n, None, None
    steps, total = [], 0.0
    for t, a in enumerate(seq):
        if t == 0:
            if forced_first:
                steps.append(0.0)
                if rows_out is not None:
                    rows_out.append(None)
            else:
                lg = [T.s_div(x, temperature) for x in state_logits(n, 0, 0, avail, tag=tag)]
                rowx = [XR(False, l, s_not(av)) for l, av in zip(lg, avail)]
                lsm = lsm_stub(T.Tensor(np.array([rowx], dtype=object), T.float32), -1, True).a[0]
                if rows_out is not None:
                    rows_out.append(list(lsm))
                p = pick(a, [x.v for x in lsm])
                steps.append(p)
                total = T.s_add(total, p)
            first = cur = a
            avail = [s_not(s_eq(a, j)) for j in range(n)]
            continue
        lg = [T.s_div(x, temperature) for x in state_logits(n, first, cur, avail, tag=tag)]
        rowx = [XR(False, l, s_not(av)) for l, av in zip(lg, avail)]
        lsm = lsm_stub(T.Tensor(np.array([rowx], dtype=object), T.float32), -1, True).a[0]
        if rows_out is not None:
            rows_out.append(list(lsm))
        p = pick(a, [x.v for x in lsm])
        steps.append(p)
        total = T.s_add(total, p)
        avail = [s_and(av, s_not(s_eq(a, j))) for j, av in enumerate(avail)]
        cur = a
    return total, steps


def _val(x):
    return x.v if isinstance(x, XR) else x


def ll_job(job_id, decode_type="greedy", n=3, B=2, num_starts=None, temperature=1.0, flagged=False, source_filter=None):
    """temperature: softmax temperature handed to the policy; flagged: the state carries `mask` [B, steps] (steps flagged False are
    irrelevant to the objective and must contribute zero log-likelihood, in the rollout AND when the actions are re-evaluated)"""
    E = explore.EXP
    ctx = core.Ctx(job_id)
    w = world.make_world(source_filter=source_filter)
    tsp = w.load("rl4co.envs.routing.tsp.env")
    env = tsp.TSPEnv(generator_params={"num_loc": n}, check_solution=False)
    policy = make_policy(w, n)
    old = T.SOFTMAX_HOOK
    T.SOFTMAX_HOOK = lsm_stub
    ctx.bounds = {"env": "tsp", "n": n, "B": B, "decode_type": decode_type, "num_starts": num_starts}
    ctx.stubs.update(["decoder: logits are an uninterpreted function of (first node, current node, availability)", "log_softmax: uninterpreted function of the flagged row, finite outputs in (-1000,0]",
                      "multinomial: an index of positive weight", "exp: uninterpreted positive function"])
    multi = "multistart" in decode_type

    def cexb(E_, neg):
        if E_.check(neg) == z3.sat:
            m = E_.model()
            return [{"kind": "script", "path": core.ROOT + "/vf/torch_side", "module": "policy_side", "func": "run_ll", "model_kind": "plain", "mode": "C11",
                     "params": {"decode_type": decode_type, "n": n, "B": B, "num_starts": num_starts, "temperature": temperature, "flagged": flagged}}]
        return []

    from symtorch import scalar as SC

    def harness():
        SC.OPAQUE_MUL[0] = True  # entropy = -sum(exp(lp) * lp): products of two symbolic reals are an opaque commutative function
        _x, _y = z3.Reals("x!c y!c")
        E.assume(z3.ForAll([_x, _y], SC._MULC(_x, _y) == SC._MULC(_y, _x)))
        locs = T.sym_tensor("loc", (B, n, 2), T.float32)
        td = env.reset(TensorDict({"locs": locs}, batch_size=[B]))
        flags = T.sym_tensor("relevant", (B, n), T.bool_) if flagged else None
        if flagged:
            td.set("mask", flags)
        kw = dict(decode_type=decode_type, return_entropy=True)
        if temperature != 1.0:
            kw["temperature"] = temperature
        if multi:
            kw["num_starts"] = num_starts or n

        def flag(r, t):
            return flags.a[r % B, t] if flagged else True
        try:
            out = policy(td.clone(), env, phase="test", **kw)
        except AssertionError as e:
            ctx.prove(E, f"[{decode_type}] the library's own assertion '{str(e)[:60]}' is unreachable", False, cexb)
            return
        E.obligations = []
        acts, ll = out["actions"], out["log_likelihood"]
        rows = acts.shape[0]
        nm = f"{decode_type} n={n} B={B}" + (f" T={temperature}" if temperature != 1.0 else "") + (" flagged-steps" if flagged else "")
        k = (num_starts or n) if multi else 1
        ctx.prove(E, f"[{nm}] one row per (instance, start)", rows == B * k and tuple(ll.shape) == (rows,), cexb)
        for r in range(rows):
            seq = list(acts.a[r])
            rows_ = []
            _, steps0 = rederive(n, seq, forced_first=multi, tag=locs.a[r % B, 0, 0], temperature=temperature, rows_out=rows_)  # row r belongs to instance r mod B
            total = _sum([T.s_where(flag(r, t), steps0[t], 0.0) for t in range(n)])
            if "entropy" in out.keys():
                # entropy of the step distributions the policy produced along this very sequence: -sum p log p per step (masked entries
                # through the library's nan_to_num convention), a forced first move contributes 0
                H = 0.0
                for row_ in rows_:
                    if row_ is None:
                        continue
                    z = T.nan_to_num(T.Tensor(np.array(row_, dtype=object), T.float32), nan=0.0)
                    H = T.s_add(H, T.s_neg((z.exp() * z).sum().a[()]))
                ctx.prove(E, f"[{nm}] row {r}: returned entropy == sum over the non-forced steps of the entropy of the masked-normalised step distribution", s_eq(_val(out["entropy"].a[r]), H), cexb)
            ctx.prove(E, f"[{nm}] row {r}: returned actions form a permutation", z3.Distinct(*[T._int(x) for x in seq]) if n > 1 else True, cexb)
            ctx.prove(E, f"[{nm}] row {r}: log-likelihood == sum over steps of the masked-normalised log-probability of the action taken{' (forced first move contributes 0)' if multi else ''}",
                      s_eq(_val(ll.a[r]), total), cexb)
        if multi:
            for b in range(B):
                firsts = [acts.a[j * B + b, 0] for j in range(k)]
                ctx.prove(E, f"[{nm}] instance {b}: forced first moves are the distinct start nodes 0..k-1", all_([s_eq(firsts[j], j % n) for j in range(k)]), cexb)
        if not multi:
            # evaluate round trip (PPO): feeding the returned actions back reproduces per-step log-probs, reward and entropy
            out_a = policy(td.clone(), env, phase="test", decode_type=decode_type, return_entropy=True, return_sum_log_likelihood=False, **({"temperature": temperature} if temperature != 1.0 else {})) if decode_type == "greedy" else None
            out2 = policy(td.clone(), env, phase="train", actions=acts, return_entropy=True, return_sum_log_likelihood=False, **({"temperature": temperature} if temperature != 1.0 else {}))
            E.obligations = []
            ll2 = out2["log_likelihood"]
            # the same evaluation with an explicit decode_type next to actions= (as DeepACO's training step passes it): the given actions win
            out3 = policy(td.clone(), env, phase="train", actions=acts, decode_type=decode_type, return_entropy=True, return_sum_log_likelihood=False, **({"temperature": temperature} if temperature != 1.0 else {}))
            E.obligations = []
            for r in range(rows):
                ctx.prove(E, f"[{nm}] row {r}: actions= together with an explicit decode_type still evaluates the GIVEN actions (same per-step log-probabilities as the plain evaluation)",
                          all_([s_eq(_val(out3["log_likelihood"].a[r, t]), _val(ll2.a[r, t])) for t in range(n)]) if tuple(out3["log_likelihood"].shape) == tuple(ll2.shape) else False, cexb)
            for r in range(rows):
                _, steps = rederive(n, list(acts.a[r]), forced_first=False, tag=locs.a[r % B, 0, 0], temperature=temperature)
                ctx.prove(E, f"[{nm}] row {r}: evaluating the returned actions reproduces the same per-step log-probabilities (flagged steps: zero)",
                          all_([s_eq(_val(ll2.a[r, t]), T.s_where(flag(r, t), steps[t], 0.0)) for t in range(n)]), cexb)
                ctx.prove(E, f"[{nm}] row {r}: evaluation returns the same reward", s_eq(out2["reward"].a[r], out["reward"].a[r]), cexb)
                ctx.prove(E, f"[{nm}] row {r}: the summed evaluation log-likelihood equals the rollout's (PPO ratio starts at 1)",
                          s_eq(_sum([_val(x) for x in ll2.a[r]]), _val(ll.a[r])), cexb)
            if out_a is not None:
                for r in range(rows):
                    ctx.prove(E, f"[{nm}] row {r}: entropy of the evaluation pass equals the entropy of the decoding pass", s_eq(_val(out2["entropy"].a[r]), _val(out_a["entropy"].a[r])), cexb)
        ctx.states += 1
        ctx.transitions += n

    try:
        E.run(harness)
    except explore.Inconclusive as e:
        return ctx.result(E, w, status="inconclusive", error=str(e))
    finally:
        T.SOFTMAX_HOOK = old
        SC.OPAQUE_MUL[0] = False
    if not ctx.obligations:
        return ctx.result(E, w, status="error", error="vacuous")
    return ctx.result(E, w)


def _sum(xs):
    acc = 0.0
    for x in xs:
        acc = T.s_add(acc, x)
    return acc


def beam_job(job_id, n=3, W=2, B=2, select_best=False, source_filter=None):
    E = explore.EXP
    ctx = core.Ctx(job_id)
    w = world.make_world(source_filter=source_filter)
    tsp = w.load("rl4co.envs.routing.tsp.env")
    env = tsp.TSPEnv(generator_params={"num_loc": n}, check_solution=False)
    policy = make_policy(w, n)
    old = T.SOFTMAX_HOOK
    T.SOFTMAX_HOOK = lsm_stub
    ctx.bounds = {"env": "tsp", "n": n, "beam_width": W, "B": B, "select_best": select_best}
    ctx.stubs.update(["decoder: logits are an uninterpreted function of (first node, current node, availability)", "log_softmax: uninterpreted function of the flagged row, finite outputs in (-1000,0]",
                      "topk: rank encoding, index order among ties"])

    def cexb(E_, neg):
        return [{"kind": "script", "path": core.ROOT + "/vf/torch_side", "module": "policy_side", "func": "run_beam", "model_kind": "plain", "mode": "C13",
                 "params": {"n": n, "W": W, "B": B, "select_best": select_best}}]

    base = w.load("rl4co.models.common.constructive.base")
    orig_gds = base.get_decoding_strategy
    captured = {}

    def capture(*a, **k):
        captured["strategy"] = orig_gds(*a, **k)
        return captured["strategy"]

    base.get_decoding_strategy = capture

    if select_best:
        # best-selection is about WHICH row is picked, not about tour lengths: the reward is an uninterpreted function of
        # (instance, returned sequence), so that different beams can differ in reward already at small n
        def abstract_reward(td_, actions):
            rows_ = actions.shape[0]
            out_ = np.empty((rows_,), dtype=object)
            for r_ in range(rows_):
                args_ = [_real(td_["locs"].a[r_, 0, 0])] + [_real(x) for x in actions.a[r_]]
                out_[r_] = nnmod.UF("R", len(args_))(*args_)
            return T.Tensor(out_, T.float32)

        env.get_reward = abstract_reward
        ctx.stubs.add("reward: uninterpreted function of (instance, action sequence) in the best-selection jobs")

    def harness():
        locs = T.sym_tensor("loc", (B, n, 2), T.float32)
        td = env.reset(TensorDict({"locs": locs}, batch_size=[B]))
        captured.clear()
        try:
            out = policy(td.clone(), env, phase="test", decode_type="beam_search", beam_width=W, select_best=select_best)
        except AssertionError as e:
            ctx.prove(E, f"[beam n={n} w={W} B={B}] the library's own assertion '{str(e)[:60]}' is unreachable", False, cexb)
            return
        if E.obligations:
            obs, E.obligations = E.obligations, []
            ctx.prove(E, f"[beam n={n} w={W} B={B}] index preconditions ({obs[0][0]}, ...)", z3.And(*[_bool(c) for _, c in obs]), cexb)
        acts, ll = out["actions"], out["log_likelihood"]
        rows = acts.shape[0]
        nm = f"beam n={n} w={W} B={B} select_best={select_best}"
        ctx.prove(E, f"[{nm}] number of returned sequences", rows == (B if select_best else B * W), cexb)
        for r in range(rows):
            seq = list(acts.a[r])
            ctx.prove(E, f"[{nm}] row {r}: the returned beam is a complete feasible tour (permutation)", z3.Distinct(*[T._int(x) for x in seq]), cexb)
            total, _ = rederive(n, seq, forced_first=True, tag=locs.a[(r if select_best else r % B), 0, 0])  # beam rows: r mod B; selected rows: instance r
            ctx.prove(E, f"[{nm}] row {r}: its log-likelihood is what the policy assigns along that very sequence (parents reconstructed consistently)", s_eq(_val(ll.a[r]), total), cexb)
        strat = captured.get("strategy")
        if not select_best and strat is not None and len(strat.actions) == n and len(strat.beam_path) == n:
            # per step: the kept beams of an instance are its W highest-scoring expansions, scored by the TRUE cumulative
            # log-probability of the expanded prefix (re-derived independently from the prefix itself).
            # documented layout: row = beam * B + instance; parent index p of a row points at row instance + p * B.
            prefixes = [[strat.actions[0].a[r]] for r in range(B * W)]
            for t in range(1, n):
                par, act = strat.beam_path[t].a, strat.actions[t].a
                new_prefixes = []
                for b in range(B):
                    cands = []  # (parent beam, action, feasible, score)
                    for p_ in range(W):
                        pre = prefixes[p_ * B + b]
                        for a_ in range(n):
                            feas = all_([T.s_ne(x, a_) for x in pre])
                            sc, _ = rederive(n, pre + [a_], forced_first=True, tag=locs.a[b, 0, 0])
                            cands.append((p_, a_, feas, sc))
                    sel = [(par[j * B + b], act[j * B + b]) for j in range(W)]
                    sel_sc = []
                    for sp, sa in sel:
                        v = 0.0
                        for p_, a_, feas, sc in cands:
                            v = T.s_where(s_and(s_eq(sp, p_), s_eq(sa, a_)), sc, v)
                        sel_sc.append(v)
                    conds = []
                    for p_, a_, feas, sc in cands:
                        chosen = any_([s_and(s_eq(sp, p_), s_eq(sa, a_)) for sp, sa in sel])
                        conds.append(s_or(s_not(feas), s_or(chosen, all_([T.s_le(sc, v) for v in sel_sc]))))
                    ctx.prove(E, f"[{nm}] step {t}, instance {b}: every expansion that was not kept scores no higher than each kept one (true cumulative log-probability of the prefix)", all_(conds), cexb)
                    ctx.prove(E, f"[{nm}] step {t}, instance {b}: the kept expansions are feasible and pairwise different",
                              s_and(all_([any_([s_and(s_and(s_eq(sp, p_), s_eq(sa, a_)), feas) for p_, a_, feas, sc in cands]) for sp, sa in sel]),
                                    all_([s_not(s_and(s_eq(sel[i][0], sel[j][0]), s_eq(sel[i][1], sel[j][1]))) for i in range(W) for j in range(i + 1, W)])), cexb)
                for r in range(B * W):
                    b, pr = r % B, par[r]
                    pre = [None] * t
                    for k in range(t):
                        v = prefixes[b][k]
                        for p_ in range(1, W):
                            v = T.s_where(s_eq(pr, p_), prefixes[p_ * B + b][k], v)
                        pre[k] = v
                    new_prefixes.append(pre + [act[r]])
                prefixes = new_prefixes
        if not select_best:
            for r1 in range(rows):
                for r2 in range(r1 + 1, rows):
                    if r1 % B == r2 % B:
                        ctx.prove(E, f"[{nm}] beams {r1} and {r2} of instance {r1 % B} are distinct sequences", s_not(all_([s_eq(x, y) for x, y in zip(acts.a[r1], acts.a[r2])])), cexb)
        else:
            # best-selection: reward returned for instance b is the maximum over the beams of b (re-run without selection)
            out_all = policy(td.clone(), env, phase="test", decode_type="beam_search", beam_width=W, select_best=False)
            E.obligations = []
            for b in range(B):
                own = [out_all["reward"].a[j * B + b] for j in range(W)]
                ctx.prove(E, f"[{nm}] instance {b}: the selected beam has the maximum reward among its own beams", s_and(all_([T.s_ge(out["reward"].a[b], x) for x in own]), any_([s_eq(out["reward"].a[b], x) for x in own])), cexb)
        ctx.states += 1
        ctx.transitions += n

    try:
        E.run(harness)
    except explore.Inconclusive as e:
        return ctx.result(E, w, status="inconclusive", error=str(e))
    finally:
        T.SOFTMAX_HOOK = old
    if not ctx.obligations:
        return ctx.result(E, w, status="error", error="vacuous")
    return ctx.result(E, w)
