"""Selection environments (facility location, maximum coverage): specs + oracles (DESIGN.md Appendix A)."""
from __future__ import annotations

import numpy as np
import z3

from symtorch import dist as DS
from symtorch import tensor as T
from symtorch.tdict import TensorDict

from . import envs as EV
from . import oracle as O
from .envs import Inst, Spec, ftensor, margin
from .oracle import OState, all_, any_, pick, s_add, s_and, s_eq, s_ge, s_gt, s_le, s_lt, s_min, s_ne, s_not, s_or, s_sub, s_where, ssum


class FLPOracle:
    """exactly `to_choose` distinct facilities; objective = -(sum over points of the distance to the nearest chosen facility)"""

    def __init__(self, row, n):
        self.n, self.row = n, row
        self.D = row["D"]

    def start(self):
        return OState(chosen=[False] * self.n, count=0)

    def step(self, st, a, active, t):
        st.flag(active, "distinct", pick(a, st["chosen"]))
        st.upd(active, chosen=[s_or(c, s_eq(a, k)) for k, c in enumerate(st["chosen"])], count=s_add(st["count"], 1))

    def complete(self, st):
        return s_eq(st["count"], self.row["k"])

    def nearest(self, st, j):
        best = None
        for i in range(self.n):
            d = T.XR(s_not(st["chosen"][i]), self.D[i][j], False) if T.is_sym(st["chosen"][i]) else (self.D[i][j] if st["chosen"][i] else float("inf"))
            best = d if best is None else T.s_min(best, d)
        return best

    def objective(self, st):
        tot = 0.0
        for j in range(self.n):
            tot = T.s_add(tot, self.nearest(st, j))
        return T.s_neg(tot)


def _close(a, b, tol=1e-4):
    a, b = float(a), float(b)
    return a == b or abs(a - b) <= tol * (1 + abs(b))


def flp_bookkeeping_concrete(extra, mask, orc, st, b, n):
    bad = []
    if not any(st["chosen"]):
        return bad
    for j in range(n):
        ref = orc.nearest(st, j)
        if not _close(extra["distances"][b][j], ref):
            bad.append(f"distances[{j}]={extra['distances'][b][j]} but the nearest chosen facility is at {float(ref)}")
    if [bool(x) for x in mask[b]] != [not c for c in st["chosen"]]:
        bad.append("action mask != not yet chosen")
    return bad


def mcp_bookkeeping_concrete(extra, mask, orc, st, b, n):
    bad = []
    for j, w in enumerate(orc.row["weights"]):
        ref = 0.0 if orc.covered(st, j + 1) else w
        if not _close(extra["weights"][b][j], ref):
            bad.append(f"weights[{j}]={extra['weights'][b][j]} but item {j + 1} should show {float(ref)}")
    if "membership" in extra:
        for s_ in range(n):
            for p_, idv in enumerate(orc.row["members"][s_]):
                ref = 0 if st["chosen"][s_] else idv
                if not _close(extra["membership"][b][s_][p_], ref):
                    bad.append(f"membership[{s_},{p_}]={extra['membership'][b][s_][p_]} expected {ref}")
    if [bool(x) for x in mask[b]] != [not c for c in st["chosen"]]:
        bad.append("action mask != not yet chosen")
    return bad


class FLPSpec(Spec):
    name, module, cls = "flp", "rl4co.envs.graph.flp.env", "FLPEnv"
    checker = False
    record = ("distances",)

    def env_kwargs(self, n, variant):
        return {"generator_params": {"num_loc": n, "to_choose": max(1, n // 2)}, "check_solution": False}

    def n_actions(self, n, variant):
        return n

    def bound(self, n, variant):
        return n

    def instance(self, src, B, n, variant):
        rows, locs, Dm, ks = [], [], [], []
        for b in range(B):
            X, Y = src.coords(f"r{b}_", n)
            D = O.dist_matrix(X, Y)
            k = src.int(f"r{b}_quota", 1, n)
            rows.append({"X": X, "Y": Y, "D": D, "k": k})
            locs.append([[x, y] for x, y in zip(X, Y)])
            Dm.append(D), ks.append(k)
        src.ctx.assumptions.add("FLP: orig_distances is the Euclidean distance matrix of locs (generator); 1 <= to_choose <= n, per instance")
        td = TensorDict({"locs": ftensor(locs), "orig_distances": ftensor(Dm), "distances": T.full((B, n), 1.4142135623730951),
                         "chosen": T.zeros(B, n, dtype=T.bool_), "to_choose": T.Tensor(np.array(ks, dtype=object), T.int64)}, batch_size=[B])
        return Inst(td, rows, src.reals, src.ys)

    def rows_from_td(self, td, B, n, variant):
        L = td["locs"].a
        return [{"X": list(L[b, :, 0]), "Y": list(L[b, :, 1]), "D": [list(r) for r in td["orig_distances"].a[b]], "k": td["to_choose"].a[b]} for b in range(B)]

    def oracle(self, row, n, variant):
        return FLPOracle(row, n)

    bookkeeping_concrete = staticmethod(flp_bookkeeping_concrete)

    def bookkeeping(self, td, orc, st, b, n):
        """what the policy is shown (`distances`) must follow from the selection made so far"""
        out = []
        if not any(c is not False for c in st["chosen"]):
            return out
        for j in range(n):
            out.append((f"distances[{j}] == distance to the nearest chosen facility", T.s_or(T.s_eq(st["count"], 0), T.s_eq(td["distances"].a[b, j], orc.nearest(st, j)))))
        out.append(("action mask == not yet chosen", all_([T.s_eq(td["action_mask"].a[b, i], s_not(st["chosen"][i])) for i in range(n)])))
        return out


class MCPOracle:
    """exactly `n_sets_to_choose` distinct sets; objective = total weight of the items covered by the chosen sets"""

    def __init__(self, row, n):
        self.n, self.row = n, row

    def start(self):
        return OState(chosen=[False] * self.n, count=0)

    def step(self, st, a, active, t):
        st.flag(active, "distinct", pick(a, st["chosen"]))
        st.upd(active, chosen=[s_or(c, s_eq(a, k)) for k, c in enumerate(st["chosen"])], count=s_add(st["count"], 1))

    def complete(self, st):
        return s_eq(st["count"], self.row["k"])

    def covered(self, st, j):
        """item j (1-based id) is covered by a chosen set"""
        return any_([s_and(st["chosen"][s_], s_eq(idv, j)) for s_ in range(self.n) for idv in self.row["members"][s_]])

    def objective(self, st):
        return ssum([s_where(self.covered(st, j + 1), w, 0.0) for j, w in enumerate(self.row["weights"])])


class MCPSpec(Spec):
    name, module, cls = "mcp", "rl4co.envs.graph.mcp.env", "MCPEnv"
    checker = False
    ITEMS, SIZE = 3, 2
    record = ("weights", "membership")

    def env_kwargs(self, n, variant):
        return {"generator_params": {"num_items": self.ITEMS, "num_sets": n, "n_sets_to_choose": max(1, n // 2), "min_size": 1, "max_size": self.SIZE}, "check_solution": False}

    def n_actions(self, n, variant):
        return n

    def bound(self, n, variant):
        return n

    def instance(self, src, B, n, variant):
        rows, mem, wts, ks = [], [], [], []
        for b in range(B):
            members = []
            for s_ in range(n):
                ids = [src.int(f"r{b}_m{s_}_{p}", 0, self.ITEMS) for p in range(self.SIZE)]
                for p in range(self.SIZE):
                    for q in range(p + 1, self.SIZE):
                        src.assume(z3.Or(ids[p] == 0, ids[p] != ids[q]))
                members.append(ids)
            w = [src.real(f"r{b}_w{j}", 1, 10) for j in range(self.ITEMS)]
            k = src.int(f"r{b}_quota", 1, n)
            rows.append({"members": members, "weights": w, "k": k})
            mem.append([[z3.ToReal(i) for i in ids] for ids in members]), wts.append(w), ks.append([z3.ToReal(k)])
        src.ctx.assumptions.add("MCP: membership ids in [0, n_items] (0 = padding anywhere), non-zero ids distinct within a set; weights in [1,10]; 1 <= n_sets_to_choose <= n_sets")
        td = TensorDict({"membership": ftensor(mem), "weights": ftensor(wts), "n_sets_to_choose": ftensor(ks)}, batch_size=[B])
        return Inst(td, rows, src.reals, [])

    def rows_from_td(self, td, B, n, variant):
        return [{"members": [[int(x) for x in s_] for s_ in td["membership"].a[b]], "weights": list(td["weights"].a[b]), "k": int(td["n_sets_to_choose"].a[b, 0])} for b in range(B)]

    def oracle(self, row, n, variant):
        return MCPOracle(row, n)

    bookkeeping_concrete = staticmethod(mcp_bookkeeping_concrete)

    def bookkeeping(self, td, orc, st, b, n):
        out = []
        for j, w in enumerate(orc.row["weights"]):
            out.append((f"weights[{j}] == weight of item {j + 1} while uncovered, 0 once covered", T.s_eq(td["weights"].a[b, j], s_where(orc.covered(st, j + 1), 0.0, w))))
        for s_ in range(n):
            for p, idv in enumerate(orc.row["members"][s_]):
                out.append((f"membership[{s_},{p}] is kept for unchosen sets and zeroed for chosen ones", T.s_eq(td["membership"].a[b, s_, p], s_where(st["chosen"][s_], 0, idv))))
        out.append(("action mask == not yet chosen", all_([T.s_eq(td["action_mask"].a[b, i], s_not(st["chosen"][i])) for i in range(n)])))
        return out


EV.SPECS.update({s.name: s for s in (FLPSpec(), MCPSpec())})


# =========================================================================================== DPP / MDPP
class DPPOracle:
    """exactly `max_decaps` distinct cells, never a keep-out cell or a probing port"""

    def __init__(self, row, n, quota):
        self.n, self.row, self.quota = n, row, quota

    def start(self):
        return OState(chosen=[False] * self.n, count=0)

    def step(self, st, a, active, t):
        st.flag(active, "distinct", pick(a, st["chosen"]))
        st.flag(active, "forbidden_cell", s_not(pick(a, self.row["allowed"])))
        st.upd(active, chosen=[s_or(c, s_eq(a, k)) for k, c in enumerate(st["chosen"])], count=s_add(st["count"], 1))

    def complete(self, st):
        return s_eq(st["count"], self.quota)

    def objective(self, st):
        return 0.0


class DPPSpec(Spec):
    name, module, cls = "dpp", "rl4co.envs.eda.dpp.env", "DPPEnv"
    checker = False
    has_reward = False
    multi = False

    def quota(self, n):
        return max(1, n // 2)

    def fake_gen(self, n):
        size = int(round(n**0.5))
        return {"max_decaps": self.quota(n), "size": size, "raw_pdn": None, "decap": None, "freq": None, "num_freq": 1, "data_dir": "data/dpp/",
                "min_loc": 0.0, "max_loc": 1.0}

    def env_kwargs(self, n, variant):
        return {"fake_generator": self.fake_gen(n), "check_solution": False}

    def make_env(self, world, n, variant):
        import types

        mod = world.load(self.module)
        base = world.load("rl4co.envs.common.base")
        # the constructors download chip data; build the object around it (state is what the property is about)
        env = object.__new__(getattr(mod, self.cls))
        base.RL4COEnvBase.__init__(env, check_solution=False)
        g = types.SimpleNamespace(**self.fake_gen(n))
        env.__dict__.update(generator=g, max_decaps=g.max_decaps, size=g.size, reward_type="minmax")
        env._make_spec(g)
        return env

    def n_actions(self, n, variant):
        return n

    def bound(self, n, variant):
        return self.quota(n)

    def instance(self, src, B, n, variant):
        rows, masks, probes, locs = [], [], [], []
        size = int(round(n**0.5))
        grid = [[i / size, j / size] for i in range(size) for j in range(size)]
        for b in range(B):
            avail = [z3.Bool(f"r{b}_free{c}") for c in range(n)]
            if self.multi:
                # the instance's mask may or may not already exclude the probing ports (generated instances do, hand-made / loaded
                # ones that mark only keep-out cells do not): MDPPEnv._reset removes the ports itself
                pr = [z3.Bool(f"r{b}_probe{c}") for c in range(n)]
                src.assume(z3.Or(*pr))
                probes.append(pr)
                allowed = [z3.And(avail[c], z3.Not(pr[c])) for c in range(n)]
                src.assume(z3.Sum([z3.If(a, 1, 0) for a in allowed]) >= self.quota(n))
            else:
                src.assume(z3.Sum([z3.If(a, 1, 0) for a in avail]) >= self.quota(n))
                p = src.int(f"r{b}_probe", 0, n - 1)
                for c in range(n):
                    src.assume(z3.Implies(p == c, z3.Not(avail[c])))
                probes.append([p])
                allowed = list(avail)
            rows.append({"allowed": allowed})
            masks.append(avail), locs.append(grid)
        src.ctx.assumptions.add("DPP: initial action_mask = cells that are neither keep-out nor the probing port (generator); MDPP: any mask plus a probe map (ports may or may not be excluded from the mask already); at least max_decaps allowed cells")
        td = TensorDict({"locs": ftensor(locs), "probe": T.Tensor(np.array(probes, dtype=object), T.bool_ if self.multi else T.int64),
                         "action_mask": T.Tensor(np.array(masks, dtype=object), T.bool_)}, batch_size=[B])
        return Inst(td, rows, src.reals, [])

    def rows_from_td(self, td, B, n, variant):
        if self.multi:  # allowed = not keep-out (mask) and not a probing port
            return [{"allowed": [bool(x) and not bool(p) for x, p in zip(td["action_mask"].a[b], td["probe"].a[b])]} for b in range(B)]
        return [{"allowed": [bool(x) for x in td["action_mask"].a[b]]} for b in range(B)]

    def oracle(self, row, n, variant):
        return DPPOracle(row, n, self.quota(n))

    @staticmethod
    def bookkeeping_concrete(extra, mask, orc, st, b, n):
        want = [bool(a) and not c for a, c in zip(orc.row["allowed"], st["chosen"])]
        got = [bool(x) for x in mask[b]]
        return [] if got == want else [f"action mask {[int(x) for x in got]} != initially allowed and not yet chosen {[int(x) for x in want]}"]

    def bookkeeping(self, td, orc, st, b, n):
        return [("action mask == initially free and not yet chosen", all_([T.s_eq(td["action_mask"].a[b, i], s_and(orc.row["allowed"][i], s_not(st["chosen"][i]))) for i in range(n)]))]


class MDPPSpec(DPPSpec):
    name, module, cls = "mdpp", "rl4co.envs.eda.mdpp.env", "MDPPEnv"
    multi = True

    def fake_gen(self, n):
        g = DPPSpec.fake_gen(self, n)
        g.update(num_probes_min=1, num_probes_max=2)
        return g


EV.SPECS.update({s.name: s for s in (DPPSpec(), MDPPSpec())})


# =========================================================================================== SMTWTP
class SMTWTPOracle:
    """every job 1..n exactly once, the dummy start node 0 never; objective = -(sum of weight * tardiness)"""

    def __init__(self, row, n):
        self.n, self.row = n, row

    def start(self):
        return OState(done=[False] * (self.n + 1), time=0.0, cost=0.0)

    def step(self, st, a, active, t):
        st.flag(active, "dummy_never_scheduled", s_eq(a, 0))
        st.flag(active, "each_job_once", pick(a, st["done"]))
        fin = s_add(st["time"], pick(a, self.row["proc"]))
        late = T.s_max(T.s_sub(fin, pick(a, self.row["due"])), 0.0)
        st.upd(active, done=[s_or(d, s_eq(a, k)) for k, d in enumerate(st["done"])], time=fin, cost=s_add(st["cost"], T.s_mul(pick(a, self.row["weight"]), late)))

    def complete(self, st):
        return all_(st["done"][1:])

    def objective(self, st):
        return T.s_neg(st["cost"])


class SMTWTPSpec(Spec):
    name, module, cls = "smtwtp", "rl4co.envs.scheduling.smtwtp.env", "SMTWTPEnv"
    checker = False
    opaque_mul = True

    def env_kwargs(self, n, variant):
        return {"generator_params": {"num_job": n}, "check_solution": False}

    def bound(self, n, variant):
        return n

    def instance(self, src, B, n, variant):
        rows, due, wt, pr = [], [], [], []
        for b in range(B):
            d = [0.0] + [src.real(f"r{b}_due{j}", 0, None) for j in range(1, n + 1)]
            w = [0.0] + [src.real(f"r{b}_w{j}", 0, None) for j in range(1, n + 1)]
            p = [0.0] + [src.real(f"r{b}_p{j}", 0, None) for j in range(1, n + 1)]
            rows.append({"due": d, "weight": w, "proc": p})
            due.append(d), wt.append(w), pr.append(p)
        src.ctx.assumptions.add("SMTWTP: due times, weights and processing times >= 0; index 0 is the dummy start node with zeros")
        td = TensorDict({"job_due_time": ftensor(due), "job_weight": ftensor(wt), "job_process_time": ftensor(pr)}, batch_size=[B])
        return Inst(td, rows, src.reals, [])

    def rows_from_td(self, td, B, n, variant):
        return [{"due": list(td["job_due_time"].a[b]), "weight": list(td["job_weight"].a[b]), "proc": list(td["job_process_time"].a[b])} for b in range(B)]

    def oracle(self, row, n, variant):
        return SMTWTPOracle(row, n)


EV.SPECS.update({"smtwtp": SMTWTPSpec()})
