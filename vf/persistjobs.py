"""C19 (restricted claim): persistence round trips that are code over data -- the FJSP text writer/reader pair, the JSSP
reader against its documented format, npz save/load and the environments' load_data post-processing.

Text files are handled at TOKEN level: while the real `write` runs, every solver term that gets formatted becomes an
opaque token (`Q17Q`) in the (real, on-disk) file, and the reader's `int(...)` maps tokens back to their terms.  So the
real writer decides which numbers go where, the real reader decides how they are interpreted, and the solver decides
whether what comes back equals what went in -- for EVERY duration and every eligibility pattern at the given shape.
(contract used: `int(str(i)) == i` for integers.)"""
from __future__ import annotations

import builtins
import os
import shutil
import tempfile
import time
import types

import numpy as np
import z3

from symtorch import explore, world
from symtorch import tensor as T
from symtorch.scalar import _bool, is_sym, s_and, s_not, s_or
from symtorch.tdict import TensorDict

from . import core
from .oracle import all_, any_

TOKENS = {}


class tokens:
    """context manager: solver terms format as tokens"""

    def __enter__(self):
        self.orig = z3.AstRef.__str__
        T.ITEM_SYM_HOOK = lambda x: x  # numbers that only get written out stay symbolic

        def tok(term):
            k = f"Q{len(TOKENS)}Q"
            TOKENS[k] = term
            return k

        z3.AstRef.__str__ = tok
        return self

    def __exit__(self, *a):
        z3.AstRef.__str__ = self.orig
        T.ITEM_SYM_HOOK = None


def sym_int(x, *a):
    if isinstance(x, str) and x in TOKENS:
        t = TOKENS[x]
        return z3.ToInt(t) if z3.is_real(t) else t
    if is_sym(x):
        return z3.simplify(z3.ToInt(x)) if z3.is_real(x) else x
    if isinstance(x, T.Tensor):
        return sym_int(x.item())
    return builtins.int(x, *a)


def sym_round(x, *a):
    return x if is_sym(x) else builtins.round(x, *a)


def patch_builtins(mod):
    mod.__dict__["__builtins__"].update(int=sym_int, round=sym_round)


def text_job(job_id, kind="fjsp", shapes=((2, 1), (1, 1)), NM=2, order_sym=True, source_filter=None):
    """shapes[b] = operations per job of instance b"""
    E = explore.EXP
    ctx = core.Ctx(job_id)
    w = world.make_world(source_filter=source_filter)
    B, NJ = len(shapes), len(shapes[0])
    totals = [sum(s) for s in shapes]
    pad_to = max(totals)
    ctx.bounds = {"format": kind, "instances": B, "ops_per_job": [list(s) for s in shapes], "machines": NM, "file listing order": "every permutation" if order_sym else "as returned"}
    ctx.stubs.update(["text files at token level: a formatted solver term is an opaque token, int(token) gives the term back (contract int(str(i)) == i)",
                      "os.listdir: returns the files in an arbitrary order (every permutation explored)"])
    ctx.assumptions.add("processing times are non-negative integers, eligible <=> time > 0, every real operation has >= 1 eligible machine (JSSP: exactly one)")
    tmp = tempfile.mkdtemp(prefix="verif_c19_")
    real_listdir = os.listdir

    def cexb(E_, neg):
        if E_.check(neg) != z3.sat:
            return []
        m = E_.model()
        pt = [[[int(str(core.model_value(m, proc_int[b][mm][o]))) for o in range(pad_to)] for mm in range(NM)] for b in range(B)]
        return [{"kind": "script", "path": core.ROOT + "/vf/torch_side", "module": "persist_side", "func": "run_text", "model_kind": "plain", "mode": "C19",
                 "params": {"kind": kind, "shapes": [list(s) for s in shapes], "NM": NM, "proc": pt, "order": list(order_holder[0])}}]

    proc_int = []
    order_holder = [list(range(B))]

    def harness():
        TOKENS.clear()
        for f in real_listdir(tmp):
            os.remove(os.path.join(tmp, f))
        penv = w.load("rl4co.envs.scheduling.fjsp.env")
        pparser = w.load("rl4co.envs.scheduling.fjsp.parser")
        pgen = w.load("rl4co.envs.scheduling.fjsp.generator")
        patch_builtins(pparser)
        penv.calc_lower_bound = lambda td: T.zeros(*td["finish_times"].shape)
        del proc_int[:]
        proc = np.empty((B, NM, pad_to), dtype=object)
        for b in range(B):
            rows = [[None] * pad_to for _ in range(NM)]
            for o in range(pad_to):
                for mm in range(NM):
                    if o >= totals[b]:
                        rows[mm][o] = z3.IntVal(0)
                        proc[b, mm, o] = 0.0
                    else:
                        v = z3.Int(f"p_{b}_{mm}_{o}")
                        E.assume(v >= 0)
                        rows[mm][o] = v
                        proc[b, mm, o] = z3.ToReal(v)
                if o < totals[b]:
                    E.assume(z3.Or(*[rows[mm][o] > 0 for mm in range(NM)]))
            proc_int.append(rows)
        ends = [[sum(s[: j + 1]) - 1 for j in range(NJ)] for s in shapes]
        starts = [[sum(s[:j]) for j in range(NJ)] for s in shapes]
        td = TensorDict({"start_op_per_job": T.tensor(starts, dtype=T.int64), "end_op_per_job": T.tensor(ends, dtype=T.int64),
                         "proc_times": T.Tensor(proc, T.float32), "pad_mask": T.tensor([[o >= totals[b] for o in range(pad_to)] for b in range(B)], dtype=T.bool_)}, batch_size=[B])
        gen = types.SimpleNamespace(num_mas=NM, num_jobs=NJ, max_ops_per_job=max(max(s) for s in shapes), n_ops_max=pad_to)
        env = penv.FJSPEnv(generator=gen, mask_no_ops=True)
        tdr = env.reset(td.clone())
        E.obligations = []
        with tokens():
            try:
                pparser.write(tmp, tdr)
            except AssertionError as e:
                ctx.prove(E, f"[{kind}] the writer rejects a well-formed instance ({str(e)[:60]})", False, cexb)
                raise explore.PathAbort()
        files = sorted(real_listdir(tmp))
        ctx.prove(E, f"[{kind}] one file per instance", len(files) == B, cexb)
        if len(files) != B:
            return
        # the directory listing order is arbitrary
        order = list(range(B))
        if order_sym and B == 2 and E.choose(2) == 1:
            order = [1, 0]
        order_holder[0] = order
        os.listdir = lambda p: [files[i] for i in order] if os.path.abspath(p) == os.path.abspath(tmp) else real_listdir(p)
        try:
            g = pgen.FJSPFileGenerator(tmp)
            back = g(batch_size=[B])
            again = g(batch_size=[B])  # a file-backed environment is asked for data repeatedly (train / val / test datasets, resets)
        finally:
            os.listdir = real_listdir
        if E.obligations:
            obs, E.obligations = E.obligations, []
            ctx.prove(E, f"[{kind}] library preconditions while reading ({obs[0][0]}, ...)", z3.And(*[_bool(c) for _, c in obs]), cexb)
        ok = tuple(back["proc_times"].shape) == (B, NM, pad_to) and tuple(back["pad_mask"].shape) == (B, pad_to) and tuple(back["start_op_per_job"].shape) == (B, NJ)
        ctx.prove(E, f"[{kind}] read-back batch has the shapes of the written one (padded to the longest instance)", ok, cexb)
        ctx.prove(E, f"[{kind}] file generator reports the written numbers of jobs / machines", g.num_jobs == NJ and g.num_mas == NM, cexb)
        if not ok:
            return
        same = tuple(again["proc_times"].shape) == tuple(back["proc_times"].shape)
        ctx.prove(E, f"[{kind}] a second request for the same number of instances returns the same instances again (the read cursor wraps around)",
                  same and all_([T.s_eq(x, y) for x, y in zip(again["proc_times"].a.reshape(-1), back["proc_times"].a.reshape(-1))]), cexb)
        for k, i in enumerate(order):  # read-back row k came from the file of instance i (file names carry the index)
            ctx.prove(E, f"[{kind}] instance {i}: processing times of every machine/operation survive the round trip, padding is zero",
                      all_([T.s_eq(back["proc_times"].a[k, mm, o], proc[i, mm, o]) for mm in range(NM) for o in range(pad_to)]), cexb)
            ctx.prove(E, f"[{kind}] instance {i}: job structure (first / last operation of each job) survives the round trip",
                      all_([s_and(T.s_eq(back["start_op_per_job"].a[k, j], starts[i][j]), T.s_eq(back["end_op_per_job"].a[k, j], ends[i][j])) for j in range(NJ)]), cexb)
            ctx.prove(E, f"[{kind}] instance {i}: padding mask marks exactly the operations beyond its own total", all_([T.s_eq(back["pad_mask"].a[k, o], o >= totals[i]) for o in range(pad_to)]), cexb)
        ctx.states += 1
        ctx.transitions += 2

    try:
        E.run(harness)
    except explore.Inconclusive as e:
        return ctx.result(E, w, status="inconclusive", error=str(e))
    finally:
        os.listdir = real_listdir
        shutil.rmtree(tmp, ignore_errors=True)
    if not ctx.obligations:
        return ctx.result(E, w, status="error", error="vacuous")
    return ctx.result(E, w)


def jssp_read_job(job_id, NJ=2, NM=2, max_ops=None, source_filter=None):
    """the JSSP reader against its documented format: line 0 = `<jobs> <machines>`, then per job `<machine> <time>` pairs
    (machine ids start from 1)"""
    E = explore.EXP
    ctx = core.Ctx(job_id)
    w = world.make_world(source_filter=source_filter)
    ctx.bounds = {"format": "jssp", "jobs": NJ, "machines": NM, "max_ops": max_ops}
    ctx.stubs.add("text file at token level (int(token) gives the term back)")
    tmp = tempfile.mkdtemp(prefix="verif_c19_")
    vals = {}

    def cexb(E_, neg):
        if E_.check(neg) != z3.sat:
            return []
        m = E_.model()
        return [{"kind": "script", "path": core.ROOT + "/vf/torch_side", "module": "persist_side", "func": "run_jssp_read", "model_kind": "plain", "mode": "C19",
                 "params": {"NJ": NJ, "NM": NM, "max_ops": max_ops, "ma": [[int(str(core.model_value(m, x))) for x in row] for row in vals["ma"]], "dur": [[int(str(core.model_value(m, x))) for x in row] for row in vals["dur"]]}}]

    def harness():
        TOKENS.clear()
        parser = w.load("rl4co.envs.scheduling.jssp.parser")
        patch_builtins(parser)
        ma = [[z3.Int(f"ma_{j}_{o}") for o in range(NM)] for j in range(NJ)]
        dur = [[z3.Int(f"d_{j}_{o}") for o in range(NM)] for j in range(NJ)]
        vals.update(ma=ma, dur=dur)
        for j in range(NJ):
            for o in range(NM):
                E.assume(z3.And(ma[j][o] >= 1, ma[j][o] <= NM, dur[j][o] >= 1))
                ma[j][o] = E.concretize_int(ma[j][o], 1, NM + 1)  # which machine: fork (it is an index on the reader's side)
        with tokens():
            lines = [f"{NJ} {NM}"] + [" ".join(f"{ma[j][o]} {dur[j][o]}" for o in range(NM)) for j in range(NJ)]
        path = os.path.join(tmp, "inst.txt")
        with open(path, "w") as fh:
            fh.write("\n".join(lines) + "\n")
        td, nj, nm, mo = parser.read(path, max_ops=max_ops)
        E.obligations = []
        width = max_ops or NJ * NM
        ctx.prove(E, "[jssp] reader reports jobs / machines / max operations per job of the file", nj == NJ and nm == NM and mo == NM, cexb)
        ok = tuple(td["proc_times"].shape) == (1, NM, width)
        ctx.prove(E, "[jssp] proc_times has shape [1, machines, max_ops]", ok, cexb)
        if ok:
            conds = []
            for j in range(NJ):
                for o in range(NM):
                    op = j * NM + o
                    for mm in range(NM):
                        conds.append(T.s_eq(td["proc_times"].a[0, mm, op], z3.ToReal(dur[j][o]) if mm == ma[j][o] - 1 else 0.0))
            for op in range(NJ * NM, width):
                conds += [T.s_eq(td["proc_times"].a[0, mm, op], 0.0) for mm in range(NM)]
            ctx.prove(E, "[jssp] operation k of job j runs on the listed machine (1-based in the file) for the listed time, on no other machine; padding is zero", all_(conds), cexb)
            ctx.prove(E, "[jssp] job structure and padding mask follow the file", all_([s_and(T.s_eq(td["start_op_per_job"].a[0, j], j * NM), T.s_eq(td["end_op_per_job"].a[0, j], j * NM + NM - 1)) for j in range(NJ)] +
                                                                                       [T.s_eq(td["pad_mask"].a[0, op], op >= NJ * NM) for op in range(width)]), cexb)
        ctx.states += 1
        ctx.transitions += 1

    try:
        E.run(harness)
    except explore.Inconclusive as e:
        return ctx.result(E, w, status="inconclusive", error=str(e))
    finally:
        shutil.rmtree(tmp, ignore_errors=True)
    if not ctx.obligations:
        return ctx.result(E, w, status="error", error="vacuous")
    return ctx.result(E, w)


class FakeNP:
    """numpy stand-in for rl4co.data.utils: savez / load keep the arrays in memory (contract: np.load(np.savez(**d)) == d,
    values, dtypes and shapes)"""

    def __init__(self):
        self.store = {}

    def savez(self, filename, **arrays):
        self.store[str(filename)] = dict(arrays)
        with open(str(filename), "w") as fh:  # the path exists on disk (code may stat it); the content lives in memory
            fh.write("in-memory npz stand-in\n")

    savez_compressed = savez

    def load(self, filename, **k):
        return dict(self.store[str(filename)])


def npz_job(job_id, case="generic", B=2, n=2, source_filter=None):
    E = explore.EXP
    ctx = core.Ctx(job_id)
    w = world.make_world(source_filter=source_filter, inert=())
    ctx.bounds = {"case": case, "B": B, "n": n}
    ctx.stubs.add("np.savez / np.load: in-memory store (contract: arrays come back with identical values, dtypes and shapes)")

    def cexb(E_, neg):
        return [{"kind": "script", "path": core.ROOT + "/vf/torch_side", "module": "persist_side", "func": "run_npz", "model_kind": "plain", "mode": "C19", "params": {"case": case, "B": B, "n": n}}]

    hold_bits = {}

    def cexb_bits(E_, neg):
        if E_.check(neg) != z3.sat:
            return []
        m = E_.model()
        return [{"kind": "script", "path": core.ROOT + "/vf/torch_side", "module": "persist_side", "func": "run_cvrp_bits", "model_kind": "plain", "mode": "C19",
                 "params": {"d": [m.eval(x, model_completion=True).as_long() for x in hold_bits["dv"]], "caps": hold_bits["caps"]}}]

    tmpd = tempfile.mkdtemp(prefix="verif_c19_")
    MEM = os.path.join(tmpd, "mem.npz")

    def harness():
        du = w.load("rl4co.data.utils")
        fnp = FakeNP()
        du.np = fnp
        if case == "generic":
            td = TensorDict({"locs": T.sym_tensor("locs", (B, n, 2), T.float32), "demand": T.sym_tensor("dem", (B, n), T.float32), "num_agents": T.sym_tensor("na", (B,), T.int64),
                             "flag": T.sym_tensor("fl", (B, 1), T.bool_)}, batch_size=[B])
            for compress in (False, True):
                du.save_tensordict_to_npz(td, MEM, compress=compress)
                back = du.load_npz_to_tensordict(MEM)
                ctx.prove(E, f"[npz compress={compress}] same keys", set(back.keys()) == set(td.keys()), cexb)
                ctx.prove(E, f"[npz compress={compress}] batch size preserved", list(back.batch_size) == [B], cexb)
                for k in td.keys():
                    if k in back.keys():
                        ctx.prove(E, f"[npz compress={compress}] '{k}': dtype, shape and every value preserved",
                                  s_and(back[k].dtype is td[k].dtype and tuple(back[k].shape) == tuple(td[k].shape), all_([T.s_eq(x, y) for x, y in zip(back[k].a.reshape(-1), td[k].a.reshape(-1))])), cexb)
        elif case == "cvrp":
            # dataset files hold integer demands and the capacity per instance; the loader shows demand / capacity
            envm = w.load("rl4co.envs.routing.cvrp.env")
            envm.load_npz_to_tensordict = du.load_npz_to_tensordict
            dem, cap = T.sym_tensor("dem", (B, n), T.float32), T.sym_tensor("cap", (B,), T.float32)
            for x in cap.a:
                E.assume(x > 0)
            fnp.savez(MEM, locs=T.sym_tensor("locs", (B, n, 2), T.float32), depot=T.sym_tensor("dep", (B, 2), T.float32), demand=dem, capacity=cap)
            back = envm.CVRPEnv.load_data(MEM)
            if E.obligations:
                obs, E.obligations = E.obligations, []
                ctx.prove(E, f"[cvrp load_data] library preconditions ({obs[0][0]}, ...)", z3.And(*[_bool(c) for _, c in obs]), cexb)
            again = envm.CVRPEnv.load_data(MEM)  # the same unchanged file is loaded again (val and test file, fit then test)
            E.obligations = []
            ctx.prove(E, "[cvrp load_data] loading the same file a second time gives the same instances (not normalised twice)",
                      tuple(again["demand"].shape) == (B, n) and all_([T.s_eq(again["demand"].a[b, j], T.s_div(dem.a[b, j], cap.a[b])) for b in range(B) for j in range(n)]), cexb)
            ok = tuple(back["demand"].shape) == (B, n)
            ctx.prove(E, "[cvrp load_data] demand keeps its shape [B, n]", ok, cexb)
            if ok:
                ctx.prove(E, "[cvrp load_data] demand shown to the environment = stored demand / stored capacity of the same instance",
                          all_([T.s_eq(back["demand"].a[b, j], T.s_div(dem.a[b, j], cap.a[b])) for b in range(B) for j in range(n)]), cexb)
        elif case == "cvrp_bits":
            # the loader's normalisation must be BIT-identical to the in-memory one of the generator (float32(d) / float32(c)):
            # a 1-ulp difference flips the capacity mask on routes that fill the vehicle exactly
            from symtorch import scalar as SC

            envm = w.load("rl4co.envs.routing.cvrp.env")
            envm.load_npz_to_tensordict = du.load_npz_to_tensordict
            SC.FPMODE[0] = True
            E.logic = "QF_FPBV"
            try:
                caps = [20.0, 25.0, 30.0, 33.0, 37.0, 40.0, 43.0, 45.0, 50.0, 55.0, 60.0, 70.0, 100.0, 150.0][: max(B, 1) * 7]
                dv = [z3.BitVec(f"d{j}", 8) for j in range(n)]
                rows_d, rows_ref = [], []
                for c in caps:
                    rd, rr = [], []
                    for j in range(n):
                        x = z3.FPVal(9.0, SC.FSORT)
                        r = z3.FPVal(float(np.float32(9) / np.float32(c)), SC.FSORT)
                        for k in range(8, 0, -1):
                            x = z3.If(dv[j] == k, z3.FPVal(float(k), SC.FSORT), x)
                            r = z3.If(dv[j] == k, z3.FPVal(float(np.float32(k) / np.float32(c)), SC.FSORT), r)
                        rd.append(x)
                        rr.append(r)
                    rows_d.append(rd)
                    rows_ref.append(rr)
                for x in dv:
                    E.assume(z3.And(z3.UGE(x, 1), z3.ULE(x, 9)))
                nb = len(caps)
                fnp.savez(MEM, locs=T.zeros(nb, n, 2), depot=T.zeros(nb, 2), demand=T.Tensor(np.array(rows_d, dtype=object), T.float32), capacity=T.tensor(caps, dtype=T.float32))
                back = envm.CVRPEnv.load_data(MEM)
                E.obligations = []
                hold_bits.update(dv=dv, caps=caps)
                for b, c in enumerate(caps):
                    ctx.prove(E, f"[cvrp load_data float32] capacity {c:g}: loaded demand is bit-identical to float32(d) / float32(capacity) for every integer demand 1..9",
                              all_([z3.fpEQ(back["demand"].a[b, j], rows_ref[b][j]) for j in range(n)]), cexb_bits)
            finally:
                SC.FPMODE[0] = False
                E.logic = None
        elif case == "mtvrp":
            envm = w.load("rl4co.envs.routing.mtvrp.env")
            envm.load_npz_to_tensordict = du.load_npz_to_tensordict
            dl, db, cap = T.sym_tensor("dl", (B, n), T.float32), T.sym_tensor("db", (B, n), T.float32), T.sym_tensor("cap", (B, 1), T.float32)
            for x in cap.a.reshape(-1):
                E.assume(x > 0)
            fnp.savez(MEM, demand_linehaul=dl, demand_backhaul=db, capacity_original=cap)
            env = object.__new__(envm.MTVRPEnv)
            for scale in (False, True):
                back = envm.MTVRPEnv.load_data(env, MEM, scale=scale)
                E.obligations = []
                ctx.prove(E, f"[mtvrp load_data scale={scale}] demands are {'divided by the original capacity of their instance' if scale else 'unchanged'}",
                          all_([s_and(T.s_eq(back["demand_linehaul"].a[b, j], T.s_div(dl.a[b, j], cap.a[b, 0]) if scale else dl.a[b, j]),
                                      T.s_eq(back["demand_backhaul"].a[b, j], T.s_div(db.a[b, j], cap.a[b, 0]) if scale else db.a[b, j])) for b in range(B) for j in range(n)]), cexb)
        ctx.states += 1
        ctx.transitions += 1

    try:
        E.run(harness)
    except explore.Inconclusive as e:
        return ctx.result(E, w, status="inconclusive", error=str(e))
    finally:
        shutil.rmtree(tmpd, ignore_errors=True)
    if not ctx.obligations:
        return ctx.result(E, w, status="error", error="vacuous")
    return ctx.result(E, w)


def crosshair_job(job_id, func="check_extension", maxlen=7, source_filter=None):
    """string-level helper of the data-file path, executed symbolically by CrossHair (z3, symbolic `str`) from the function's
    own source text: `check_extension` (used to name generated dataset files and to find them again) only ever APPENDS the
    extension -- it never removes characters, and leaves a name alone only if it already ends with the extension."""
    import ast
    import hashlib
    import re
    import subprocess
    import sys

    ctx = core.Ctx(job_id)
    path = os.path.join(core.REPO, "rl4co/data/utils.py")
    src = open(path).read()
    if source_filter is not None:
        src = source_filter(path, src)
    ctx.bounds = {"function": f"rl4co/data/utils.py:{func}", "len(filename)": f"<= {maxlen}", "engine": "crosshair-tool (symbolic str over z3), per-condition timeout 90 s"}
    ctx.stubs.add("the function is extracted from the module source and executed alone (module-level imports of numpy / tensordict are not needed by it)")
    fn = [n for n in ast.parse(src).body if isinstance(n, ast.FunctionDef) and n.name == func]
    if not fn:
        return dict(ctx.result(None), status="error", error=f"{func} not found")
    tmp = tempfile.mkdtemp(prefix="verif_c19_")
    t0 = time.time()
    try:
        code = "import os\n\n\n" + ast.get_source_segment(src, fn[0]) + f'''


def _contract(filename: str) -> str:
    """
    pre: len(filename) <= {maxlen}
    post: (_ == filename + ".npz") or (_ == filename and len(filename) >= 4 and filename[len(filename) - 4:] == ".npz")
    """
    return {func}(filename)


def _reachability_twin(filename: str) -> str:
    """
    pre: len(filename) <= {maxlen}
    post: False
    """
    return {func}(filename)
'''
        mod = os.path.join(tmp, "ce_mod.py")
        with open(mod, "w") as fh:
            fh.write(code)
        p = subprocess.run([sys.executable, "-m", "crosshair", "check", "--report_all", "--per_condition_timeout", "90", mod], capture_output=True, text=True, timeout=600)
        out = p.stdout + p.stderr
        lines = [ln for ln in out.splitlines() if "ce_mod.py" in ln]
        contract_line = code[: code.index("def _contract")].count("\n") + 1
        twin_line = code[: code.index("def _reachability_twin")].count("\n") + 1

        def verdict(first_line, last_line):
            for ln in lines:
                m = re.search(r"ce_mod\.py:(\d+): (\w+): (.*)", ln)
                if m and first_line <= int(m.group(1)) <= last_line:
                    return m.group(2), m.group(3)
            return None, out[-300:]

        kind, text = verdict(contract_line, twin_line - 1)
        tk, tt = verdict(twin_line, twin_line + 10)
        ctx.obligations += 2
        name = f"[{func}] the result is the name with '.npz' appended, or the unchanged name if it already ends with '.npz' (len <= {maxlen})"
        if tk == "error":
            ctx.discharged += 1  # the twin's `post: False` is refuted: the contract is reachable
        else:
            ctx.inconclusive += 1
            ctx.notes.append(f"inconclusive: reachability twin not refuted ({tk}: {tt[:120]})")
        if kind == "info" and "Confirmed over all paths" in text:
            ctx.discharged += 1
            ctx.sample({"obligation": name, "job": job_id, "verdict": "confirmed over all paths (crosshair)"})
        elif kind == "error" and "false when calling" in text:
            m = re.search(r"_contract\((.*?)\) \(which returns", text)
            arg = ast.literal_eval(m.group(1)) if m else None
            ctx.cex.append({"obligation": name, "job": job_id, "desc": text, "replay": [{"kind": "script", "path": core.ROOT + "/vf/torch_side", "module": "persist_side", "func": "run_check_extension", "model_kind": "plain", "mode": "C19", "params": {"filename": arg}}] if isinstance(arg, str) else None})
        else:
            ctx.inconclusive += 1
            ctx.notes.append(f"inconclusive: {name}: crosshair says {kind}: {text[:160]}")
        res = ctx.result(None)
        res["solver_s"] = round(time.time() - t0, 2)
        res["queries"] = {"sat": 1 if ctx.cex else 0, "unsat": ctx.discharged, "unknown": ctx.inconclusive}
        res["paths"] = 1
        res["sources"] = {"rl4co/data/utils.py": hashlib.sha256(src.encode()).hexdigest()[:16]}
        res["states"], res["transitions"] = 1, 1
        return res
    finally:
        shutil.rmtree(tmp, ignore_errors=True)
