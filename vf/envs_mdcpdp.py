"""MDCPDP (multi-depot capacitated pickup and delivery): spec + ground truth from the environment's documentation.

Documented instance layout after reset: `num_depot` depots, then num_loc/2 pickups, then num_loc/2 deliveries; pickup i is
paired with delivery i (node index + num_loc/2).  Documented constraints: no city twice, pickup before its delivery, at most
`capacity` orders carried at a time.  Depot handling (which vehicle starts where) is left unconstrained by the oracle.
Instances are what MDCPDPGenerator emits: `capacity` [batch, num_depot] (one vehicle per depot), `lateness_weight` [batch, 1]."""
from __future__ import annotations

import numpy as np
import z3

from symtorch import tensor as T
from symtorch.scalar import s_add, s_and, s_eq, s_ge, s_gt, s_le, s_lt, s_ne, s_not, s_or, s_sub, s_where
from symtorch.tdict import TensorDict

from . import envs as EV
from . import oracle as O
from .envs import Inst, Spec, ftensor
from .oracle import OState, all_, any_, pick, pick2


class MDCPDPOracle:
    def __init__(self, row, n, D):
        self.n, self.h, self.Dn = n, n // 2, D
        self.caps = row["caps"]  # one vehicle per depot
        self.N = n + D
        # the environment measures |difference| component-wise before taking the norm: same argument form here
        X, Y = row["X"], row["Y"]
        self.D = [[0.0 if i == j else O.euclid(T.s_abs(s_sub(X[j], X[i])), T.s_abs(s_sub(Y[j], Y[i]))) for j in range(len(X))] for i in range(len(X))]

    def start(self):
        return OState(visited=[False] * self.N, carry=0, vehicle=0, cur=0, length=0.0)

    def step(self, st, a, active, t):
        D, h = self.Dn, self.h
        isdep = s_lt(a, D)
        act = s_and(active, s_not(isdep))
        st.flag(act, "visit_once", pick(a, st["visited"]))
        need = [True] * (D + h) + [st["visited"][k - h] for k in range(D + h, self.N)]
        st.flag(act, "precedence (delivery before its own pickup)", s_not(pick(a, need)))
        ispick = s_and(s_ge(a, D), s_lt(a, D + h))
        newcarry = s_where(isdep, st["carry"], s_where(ispick, s_add(st["carry"], 1), s_sub(st["carry"], 1)))
        # the vehicle on the road is the one of the depot visited last ("must start from a depot")
        vehicle = s_where(isdep, a, st["vehicle"])
        st.flag(act, "capacity (more orders carried than the vehicle of the depot it started from holds)", s_gt(newcarry, pick(vehicle, self.caps)))
        # reward_mode="minsum", problem_mode="close": every leg driven counts, except repositioning from one depot to another
        leg = s_where(s_and(isdep, s_lt(st["cur"], D)), 0.0, pick2(st["cur"], a, self.D))
        st.upd(active, visited=[s_or(v, s_and(s_not(isdep), s_eq(a, k))) for k, v in enumerate(st["visited"])], carry=newcarry, vehicle=vehicle,
               cur=a, length=s_add(st["length"], leg))

    def complete(self, st):
        return all_(st["visited"][self.Dn:])

    def objective(self, st):
        return O.s_neg(st["length"])


class MDCPDPSpec(Spec):
    name, module, cls = "mdcpdp", "rl4co.envs.routing.mdcpdp.env", "MDCPDPEnv"
    variants = ("d1", "d2", "d3")
    checker = False
    has_reward = True  # reward_mode="minsum" only (total length driven); the lateness modes depend on undocumented bookkeeping

    def nd(self, variant):
        return int(variant[1:])

    def env_kwargs(self, n, variant):
        return {"generator_params": {"num_loc": n, "num_depot": self.nd(variant)}, "check_solution": False, "reward_mode": "minsum"}

    def n_actions(self, n, variant):
        return n + self.nd(variant)

    def bound(self, n, variant):
        return n + 2 * self.nd(variant) + 1

    def instance(self, src, B, n, variant):
        D = self.nd(variant)
        rows, locs, depots, caps = [], [], [], []
        for b in range(B):
            X, Y = src.coords(f"r{b}_", n + D)
            c = [src.int(f"r{b}_cap{k}", 1, 5) for k in range(D)]
            rows.append({"X": X, "Y": Y, "caps": c})
            depots.append([[x, y] for x, y in zip(X[:D], Y[:D])])
            locs.append([[x, y] for x, y in zip(X[D:], Y[D:])])
            caps.append(c)
        src.ctx.assumptions.add("MDCPDP instances as emitted by MDCPDPGenerator: depot [B, num_depot, 2], locs [B, num_loc, 2], capacity [B, num_depot] integers in [1, 5] (one vehicle per depot), lateness_weight [B, 1] = 1")
        td = TensorDict({"locs": ftensor(locs), "depot": ftensor(depots), "capacity": T.Tensor(np.array(caps, dtype=object), T.int64), "lateness_weight": T.ones(B, 1)}, batch_size=[B])
        return Inst(td, rows, src.reals, src.ys)

    def rows_from_td(self, td, B, n, variant):
        D = self.nd(variant)
        L, Dp, C = td["locs"].a, td["depot"].a, td["capacity"].a
        return [{"X": list(Dp[b, :, 0]) + list(L[b, :, 0]), "Y": list(Dp[b, :, 1]) + list(L[b, :, 1]), "caps": list(C[b])} for b in range(B)]

    def oracle(self, row, n, variant):
        return MDCPDPOracle(row, n, self.nd(variant))

    def size_of(self, td_json):
        return len(td_json["locs"]["data"][0])


EV.SPECS["mdcpdp"] = MDCPDPSpec()
