"""Scheduling environments (FJSP, JSSP, FFSP): C07 (valid schedules, reported makespan) and the scheduling part of
C02 (no dead ends, step bound).  The real env code runs with symbolic processing times; the mask-admitted action
is forked (all sequences explored) and the *discrete* part of the state is concretised by forking after every
step (= the event-order case split, each case decided by the solver over all durations)."""
from __future__ import annotations

import types

import numpy as np
import z3

from symtorch import explore, world
from symtorch import tensor as T
from symtorch.scalar import XR, PathAbort, _bool, _int, _real, is_sym, s_and, s_eq, s_ge, s_le, s_not, s_or, s_where
from symtorch.tdict import TensorDict

from . import core
from .episodes import ENV_ERRORS


def concretize(E, t, lo=0, hi=64):
    """fork until every element of a bool / int tensor is a python value"""
    flat = t.a.reshape(-1)
    for i, x in enumerate(flat):
        if isinstance(x, XR):
            continue
        if not is_sym(x):
            continue
        if z3.is_bool(x):
            flat[i] = E.branch(x)
        else:
            flat[i] = E.concretize_int(x, lo, hi)
    return t


def fin(x, ok):
    """finite payload of a possibly extended-real time; records finiteness as a condition"""
    if isinstance(x, XR):
        ok.append(s_and(s_not(x.pinf), s_not(x.ninf)))
        return x.v
    if isinstance(x, float) and x in (float("inf"), float("-inf")):
        ok.append(False)
        return 0.0
    return x


def _shape_structure(kind, NJ, NOPS, NM, unequal):
    """start/end op ids per job; with `unequal` the second job has one op less and the instance is padded"""
    ops_per_job = [NOPS] * NJ
    if unequal and NJ > 1 and NOPS > 1:
        ops_per_job[1] = NOPS - 1
    starts, ends, o = [], [], 0
    for k in ops_per_job:
        starts.append(o)
        ends.append(o + k - 1)
        o += k
    total = o
    return ops_per_job, starts, ends, total


def fjsp_job(job_id, kind="fjsp", NJ=2, NOPS=2, NM=2, mask_no_ops=True, unequal=False, B=1, elig="all", source="hand", shard=None, compare_solo=False, gen_mas=None, source_filter=None):
    """elig: 'all' = every machine eligible for every operation; 'symbolic' = arbitrary eligibility pattern (forked);
    'first' = machine 0 only for operation 0, all machines otherwise (an asymmetric fixed pattern)"""
    E = explore.EXP
    E.shard = tuple(shard) if shard else None
    ctx = core.Ctx(job_id)
    w = world.make_world(source_filter=source_filter)
    mod = w.load("rl4co.envs.scheduling.fjsp.env")
    jmod = w.load("rl4co.envs.scheduling.jssp.env") if kind == "jssp" else None
    # cut (outside the claim): the lower-bound *feature* shown to the policy; it influences neither masks, times nor reward
    zero_lb = lambda td: T.zeros(*td["finish_times"].shape)  # noqa: E731
    mod.calc_lower_bound = zero_lb
    ctx.stubs.add("fjsp.utils.calc_lower_bound (policy feature) replaced by zeros: divides by a state-dependent count; does not influence masks, times or reward")
    ops_per_job, starts, ends, NO = _shape_structure(kind, NJ, NOPS, NM, unequal)
    pad_to = NJ * NOPS
    # gen_mas: the env is built for another machine count than the instance it is reset with (it re-reads the sizes at reset)
    gen = types.SimpleNamespace(num_mas=gen_mas or NM, num_jobs=NJ, max_ops_per_job=NOPS, n_ops_max=pad_to)
    cls = jmod.JSSPEnv if kind == "jssp" else mod.FJSPEnv
    if source == "generator":
        # instances come from the REAL bundled generator (sampler stubs return fresh symbols in the documented range)
        gp = dict(num_jobs=NJ, num_machines=NM, min_ops_per_job=1, max_ops_per_job=NOPS, min_processing_time=1, max_processing_time=9)
        if kind == "jssp":
            gp["one2one_ma_map"] = False
        else:
            gp["same_mean_per_op"] = False
        env = cls(generator_params=gp, mask_no_ops=mask_no_ops)
        ctx.stubs.add("torch.randint / rand in the generator: fresh symbols in the documented range (every outcome)")
    else:
        env = cls(generator=gen, mask_no_ops=mask_no_ops)
    ctx.bounds = {"env": kind, "jobs": NJ, "ops_per_job": ops_per_job, "machines": NM, "mask_no_ops": mask_no_ops, "padded_ops": pad_to, "B": B, "eligibility": elig}
    ctx.assumptions.add("processing times symbolic reals; eligible machine <=> time > 0; every operation has >= 1 eligible machine (JSSP: exactly one); actions = any mask-admitted action")
    bound = 2 * NO + 4
    stats = {"maxsteps": 0}

    def harness():
        nonlocal starts, ends, NO
        if source == "generator":
            tdg = env.generator(batch_size=[B])
            E.obligations = []
            for k in ("start_op_per_job", "end_op_per_job", "pad_mask"):
                concretize(E, tdg[k], 0, pad_to + 1)
            pt = tdg["proc_times"]
            for x in pt.a.reshape(-1):  # which machine is eligible: fork; the duration itself stays symbolic
                if is_sym(x):
                    E.branch(T.s_gt(x, 0))
            starts = [int(x) for x in tdg["start_op_per_job"].a[0]]
            ends = [int(x) for x in tdg["end_op_per_job"].a[0]]
            NO = max(ends) + 1
            proc = pt.a.copy()
            for pos in np.ndindex(*proc.shape):
                x = proc[pos]
                if is_sym(x) and E.sat(T._real(x) > 0) is False:
                    proc[pos] = 0.0
            # ground truth about the instance: jobs own ops start..end; everything behind the last job is padding
            _run_episode(E, ctx, env, kind, mask_no_ops, TensorDict(dict(tdg.d), batch_size=[B]), proc.copy(), starts, ends, NO, NM, pad_to, B, bound, stats, NJ, NOPS,
                         pad=[[bool(x) for x in tdg["pad_mask"].a[b]] for b in range(B)])
            return
        proc = np.empty((B, NM, pad_to), dtype=object)
        for b in range(B):
            for o in range(pad_to):
                if o >= NO:
                    for m in range(NM):
                        proc[b, m, o] = 0.0
                    continue
                if kind == "jssp":
                    which = z3.Int(f"ma_{b}_{o}")
                    E.assume(z3.And(which >= 0, which < NM))
                    wm = E.concretize_int(which, 0, NM)
                    for m in range(NM):
                        if m == wm:
                            p = z3.Real(f"p_{b}_{m}_{o}")
                            E.assume(p > 0)
                            proc[b, m, o] = p
                        else:
                            proc[b, m, o] = 0.0
                else:
                    el = []
                    for m in range(NM):
                        e = z3.Bool(f"el_{b}_{m}_{o}") if elig == "symbolic" else (True if elig == "all" or o != 0 or m == 0 else False)
                        el.append(e)
                    if elig == "symbolic":
                        E.assume(z3.Or(*el))
                    for m in range(NM):
                        if E.branch(el[m]):
                            p = z3.Real(f"p_{b}_{m}_{o}")
                            E.assume(p > 0)
                            proc[b, m, o] = p
                        else:
                            proc[b, m, o] = 0.0
        orig = proc.copy()
        pad = np.zeros((B, pad_to), dtype=object)
        for b in range(B):
            for o in range(pad_to):
                pad[b, o] = o >= NO
        td = TensorDict({
            "start_op_per_job": T.tensor([starts] * B), "end_op_per_job": T.tensor([ends] * B),
            "proc_times": T.Tensor(proc, T.float32), "pad_mask": T.Tensor(pad, T.bool_),
        }, batch_size=[B])
        solo = None
        if compare_solo:
            env1 = cls(generator=gen, mask_no_ops=mask_no_ops)
            solo = (env1, TensorDict({k_: T.Tensor(v_.a[:1].copy(), v_.dtype) for k_, v_ in td.d.items()}, batch_size=[1]))
        _run_episode(E, ctx, env, kind, mask_no_ops, td, orig, starts, ends, NO, NM, pad_to, B, bound, stats, NJ, NOPS, pad=[[bool(x) for x in pad[b]] for b in range(B)], solo=solo)

    try:
        E.run(harness)
    except explore.Inconclusive as e:
        return ctx.result(E, w, status="inconclusive", error=str(e))
    finally:
        E.shard = None
    ctx.witness = []
    ctx.bounds["max_steps_seen"] = stats["maxsteps"]
    if shard:
        ctx.bounds["shard"] = f"{shard[0]} of {shard[1]} (paths split over worker processes by the first three action choices)"
        if not ctx.obligations:
            ctx.notes.append("this shard received no complete path (the split is by a hash of the first choices)")
            return ctx.result(E, w, status="ok")
    if not ctx.obligations:
        return ctx.result(E, w, status="error", error="vacuous")
    return ctx.result(E, w)


def _run_episode(E, ctx, env, kind, mask_no_ops, td, orig, starts, ends, NO, NM, pad_to, B, bound, stats, NJ, NOPS, pad, solo=None):
        td = env.reset(td)
        steps = 0
        trace = []
        td1 = solo[0].reset(solo[1]) if solo else None
        solo_done = False

        def cexb(E_, neg):
            if E_.check(neg) == z3.sat:
                m = E_.model()
                return [{"kind": "script", "path": core.ROOT + "/vf/torch_side", "module": "sched_side", "func": "run_fjsp", "model_kind": "plain", "mode": "C07",
                         "params": {"kind": kind, "NJ": NJ, "NOPS": NOPS, "NM": NM, "gen_mas": int(getattr(env.generator, "num_mas", NM)), "mask_no_ops": mask_no_ops, "starts": starts, "ends": ends, "B": B,
                                    "proc": [[[float(core.model_value(m, orig[b, mm, o])) for o in range(pad_to)] for mm in range(NM)] for b in range(B)],
                                    "pad": pad, "actions": [list(a) for a in trace]}}]
            return []

        while True:
            for k in ("action_mask", "next_op", "job_in_process", "job_done", "done"):
                concretize(E, td[k], 0, pad_to + 2)
            ctx.states += 1
            done = [bool(all(r)) for r in td["done"].a.reshape(B, -1)]
            if all(done):
                break
            acts = []
            for b in range(B):
                cands = [i for i, m in enumerate(td["action_mask"].a[b]) if m]
                if not cands:
                    ctx.prove(E, f"{kind}: row {b} is offered an action while the batch is unfinished (state after {steps} steps)", False, cexb)
                    raise PathAbort()
                acts.append(cands[E.choose(len(cands))])
            trace.append(acts)
            if solo and not solo_done:
                # C04: the same instance driven alone with the same actions must show the same mask and finishing step
                m1 = td1["action_mask"].a[0]
                ctx.prove(E, f"{kind}: row 0 sees the same action mask alone and next to a batch-mate (after {steps} steps)",
                          _and_all([s_eq(x, y) if (is_sym(x) or is_sym(y)) else bool(x) == bool(y) for x, y in zip(m1, td["action_mask"].a[0])]), cexb)
                d1 = td1["done"].a.reshape(-1)[0]
                ctx.prove(E, f"{kind}: row 0 is finished alone exactly when it is finished in the batch (after {steps} steps)", s_eq(d1, done[0]) if is_sym(d1) else bool(d1) == done[0], cexb)
                if done[0]:
                    solo_done = True
                else:
                    td1.set("action", T.tensor(acts[:1]))
                    try:
                        td1 = solo[0].step(td1)["next"]
                    except ENV_ERRORS as e:
                        ctx.prove(E, f"{kind}: stepping row 0 alone with the action it took in the batch raises {type(e).__name__} (mask or state differ)", False, cexb)
                        raise PathAbort()
                    E.obligations = []
            td.set("action", T.tensor(acts))
            try:
                td = env.step(td)["next"]
            except AssertionError as e:
                ctx.prove(E, f"{kind}: the environment's own assertion fails on a mask-admitted action ({str(e)[:60]})", False, cexb)
                raise PathAbort()
            except ENV_ERRORS as e:
                ctx.prove(E, f"{kind}: stepping a mask-admitted action raises {type(e).__name__}: {str(e)[:60]}", False, cexb)
                raise PathAbort()
            E.obligations = []
            steps += 1
            ctx.transitions += 1
            if steps > bound:
                ctx.prove(E, f"{kind}: episode finishes within {bound} steps (ops + waits)", False, cexb)
                raise PathAbort()
        stats["maxsteps"] = max(stats["maxsteps"], steps)
        # ---- independent oracle on the final schedule
        for b in range(B):
            ok, named = [], []
            S = [fin(x, ok) for x in td["start_times"].a[b]]
            F = [fin(x, ok) for x in td["finish_times"].a[b]]
            MA = td["ma_assignment"].a[b]
            mach = {}
            for o in range(NO):
                ms = [m for m in range(NM) if not (not is_sym(MA[m, o]) and MA[m, o] == 0)]
                if len(ms) != 1 or is_sym(MA[ms[0], o]):
                    named.append((f"operation {o} is assigned to exactly one machine", False))
                    continue
                mach[o] = ms[0]
                named.append((f"operation {o} runs on an eligible machine for exactly its processing time",
                              s_and(T.s_gt(orig[b, ms[0], o], 0), s_eq(T.s_sub(F[o], S[o]), orig[b, ms[0], o]))))
                named.append((f"operation {o} starts at a non-negative time", s_ge(S[o], 0)))
            for j in range(NJ):
                for o in range(starts[j] + 1, ends[j] + 1):
                    named.append((f"job {j}: operation {o} starts after its predecessor finished", s_ge(S[o], F[o - 1])))
            for o1 in range(NO):
                for o2 in range(o1 + 1, NO):
                    if o1 in mach and o2 in mach and mach[o1] == mach[o2]:
                        named.append((f"machine {mach[o1]} never processes operations {o1} and {o2} at the same time", s_or(s_le(F[o1], S[o2]), s_le(F[o2], S[o1]))))
            rew = env.get_reward(td, None).a.reshape(-1)[b]
            rew = fin(rew, ok)
            mk = F[0]
            for o in range(1, NO):
                mk = T.s_max(mk, F[o])
            named.append(("reward == -(latest completion time)", s_eq(rew, T.s_neg(mk))))
            named.append(("all scheduled times are finite", _and_all(ok)))
            if solo and b == 0:
                r1 = solo[0].get_reward(td1, None).a.reshape(-1)[0]
                named.append(("reward of row 0 equals the reward of the same instance driven alone", s_eq(fin(r1, ok), rew)))
            for nm, cond in named:
                ctx.prove(E, f"{kind}[no_ops_masked={mask_no_ops}] row {b}: {nm}", cond, cexb)
        if not ctx.witness:
            ctx.witness.append({"note": "complete schedule path"})



def _and_all(xs):
    acc = True
    for x in xs:
        acc = s_and(acc, x)
    return acc


def ffsp_job(job_id, NJ=2, NS=2, NMA=1, D=2, flatten=True, big=None, B=1, source_filter=None):
    E = explore.EXP
    ctx = core.Ctx(job_id)
    w = world.make_world(source_filter=source_filter)
    mod = w.load("rl4co.envs.scheduling.ffsp.env")
    gen = types.SimpleNamespace(num_stage=NS, num_machine=NMA, num_job=NJ, num_machine_total=NS * NMA, flatten_stages=flatten)
    env = mod.FFSPEnv(generator=gen)
    NM = NS * NMA
    ctx.bounds = {"env": "ffsp", "jobs": NJ, "stages": NS, "machines_per_stage": NMA, "B": B, "durations": f"symbolic ints in [1,{D}]" + (f" or {big}" if big else "")}
    ctx.assumptions.add("FFSP durations are integers in [1,D]: its time-stepped loop forks once per value, so inside this bound the solver decides per concrete duration vector")
    bound = 4 * NJ * NS * ((big or D) + 1) * B

    def harness():
        rt = T.sym_tensor("d", (B, NJ, NM), T.int64)
        for x in rt.a.reshape(-1):
            # `big`: one additional, much longer duration (heterogeneous machines: a job may be far slower on a machine it ends up not using)
            E.assume(z3.And(x >= 1, x <= D) if big is None else z3.Or(z3.And(x >= 1, x <= D), x == big))
        td = env.reset(TensorDict({"run_time": rt}, batch_size=[B]))
        steps = 0
        trace = []

        def cexb(E_, neg):
            if E_.check(neg) == z3.sat:
                m = E_.model()
                rts = [[[int(core.model_value(m, rt.a[b, j, mm])) for mm in range(NM)] for j in range(NJ)] for b in range(B)]
                return [{"kind": "script", "path": core.ROOT + "/vf/torch_side", "module": "sched_side", "func": "run_ffsp", "model_kind": "plain", "mode": "C07",
                         "params": {"NJ": NJ, "NS": NS, "NMA": NMA, "flatten": flatten, "B": B, "run_time": rts[0], "run_times": rts,
                                    "actions": [r[0] for r in trace] if B == 1 else [list(r) for r in trace]}}]
            return []

        while True:
            for k in ("action_mask", "done", "machine_idx", "time_idx", "sub_time_idx", "job_location"):
                if k in td.keys():
                    concretize(E, td[k], 0, 64)
            ctx.states += 1
            dn = [bool(x) for x in td["done"].a.reshape(-1)]
            if all(dn):
                break
            row = []
            for b in range(B):
                cands = [i for i, m in enumerate(td["action_mask"].a[b]) if m]
                if not cands:
                    ctx.prove(E, f"ffsp: an action is offered {'while unfinished' if not dn[b] else 'to a finished row of an unfinished batch'} (after {steps} steps)", False, cexb)
                    raise PathAbort()
                row.append(cands[E.choose(len(cands))] if not dn[b] else cands[-1])
            trace.append(row)
            td.set("action", T.tensor(row))
            try:
                td = env.step(td)["next"]
            except ENV_ERRORS as e:
                ctx.prove(E, f"ffsp: stepping a mask-admitted action raises {type(e).__name__}: {str(e)[:60]}", False, cexb)
                raise PathAbort()
            E.obligations = []
            steps += 1
            ctx.transitions += 1
            if steps > bound:
                ctx.prove(E, f"ffsp: episode finishes within {bound} steps", False, cexb)
                raise PathAbort()
        named = []
        for b in range(B):
            sch = td["schedule"].a[b]  # [machine, job] start times (-999999 = never)
            start, end = {}, {}
            tag = f"row {b}: " if B > 1 else ""
            for j in range(NJ):
                for s in range(NS):
                    used = [m for m in range(s * NMA, (s + 1) * NMA) if not (not is_sym(sch[m, j]) and sch[m, j] < 0)]
                    if len(used) != 1:
                        named.append((f"{tag}job {j} is processed exactly once in stage {s} (found {len(used)} machines)", False))
                        continue
                    m = used[0]
                    start[j, s] = (sch[m, j], m)
                    end[j, s] = T.s_add(sch[m, j], rt.a[b, j, m])
                for s in range(1, NS):
                    if (j, s) in start and (j, s - 1) in end:
                        named.append((f"{tag}job {j}: stage {s} starts after stage {s - 1} finished", s_ge(start[j, s][0], end[j, s - 1])))
            keys = sorted(start)
            for i1, k1 in enumerate(keys):
                for k2 in keys[i1 + 1:]:
                    if start[k1][1] == start[k2][1]:
                        named.append((f"{tag}machine {start[k1][1]} never runs jobs {k1[0]} and {k2[0]} at the same time",
                                      s_or(s_le(end[k1], start[k2][0]), s_le(end[k2], start[k1][0]))))
            for k in keys:
                named.append((f"{tag}job {k[0]} stage {k[1]} starts at a non-negative time", s_ge(start[k][0], 0)))
            if end:
                mk = None
                for v in end.values():
                    mk = v if mk is None else T.s_max(mk, v)
                rew = td["reward"].a.reshape(-1)[b]
                named.append((f"{tag}reward == -(latest completion time)", s_eq(rew, T.s_neg(mk))))
        for nm, cond in named:
            ctx.prove(E, f"ffsp: {nm}", cond, cexb)

    try:
        E.run(harness)
    except explore.Inconclusive as e:
        return ctx.result(E, w, status="inconclusive", error=str(e))
    if not ctx.obligations:
        return ctx.result(E, w, status="error", error="vacuous")
    return ctx.result(E, w)
