"""Framework core: job pool, solver-side bookkeeping (Ctx), replay on real torch, evidence, known findings, CLI."""
from __future__ import annotations

import importlib
import json
import multiprocessing as mp
import os
import subprocess
import sys
import tempfile
import time
import traceback
from fractions import Fraction

ROOT = os.path.dirname(os.path.dirname(os.path.abspath(__file__)))
REPO = os.environ.get("VERIF_REPO", "/repo")
TORCH_PY = os.environ.get("VERIF_TORCH_PY", "/venv/bin/python")
EXIT_OK, EXIT_VIOLATION, EXIT_HARNESS = 0, 1, 2

sys.path.insert(0, ROOT)


# ------------------------------------------------------------------------------------------ job side
class Ctx:
    """per-job bookkeeping of obligations / queries / samples / counterexample candidates"""

    def __init__(self, job_id):
        self.job_id = job_id
        self.obligations = 0
        self.discharged = 0
        self.inconclusive = 0
        self.states = 0
        self.transitions = 0
        self.samples = []
        self.cex = []
        self.witness = []
        self.assumptions = set()
        self.stubs = set()
        self.bounds = {}
        self.notes = []
        self.t0 = time.time()

    def sample(self, s):
        if len(self.samples) < 3:
            self.samples.append(s)

    def prove(self, E, name, cond, on_cex=None, desc=None):
        """obligation: `cond` holds on the current path for every value.  Returns True if discharged."""
        import z3

        from symtorch.scalar import _bool, is_sym

        self.obligations += 1
        if not is_sym(cond):
            if bool(cond):
                self.discharged += 1
                return True
            r = z3.sat
            neg = z3.BoolVal(True)
        else:
            neg = z3.Not(_bool(cond))
            r = E.check(neg)
        if r == z3.unsat:
            self.discharged += 1
            self.sample({"obligation": name, "job": self.job_id, "verdict": "unsat (holds)"})
            return True
        if r == z3.unknown:
            self.inconclusive += 1
            self.notes.append(f"inconclusive: {name}: {E.solver.reason_unknown()}")
            return False
        if len(self.cex) < 4:
            rep = None
            if on_cex is not None:
                try:
                    rep = on_cex(E, neg)
                except Exception as e:  # noqa: BLE001
                    rep = {"error": f"replay construction failed: {e!r}", "trace": traceback.format_exc()[-1500:]}
            self.cex.append({"obligation": name, "job": self.job_id, "desc": desc, "replay": rep})
        return False

    def result(self, E, world=None, status=None, error=None):
        return {
            "job": self.job_id,
            "status": status or ("cex" if self.cex else ("inconclusive" if self.inconclusive else "ok")),
            "obligations": self.obligations,
            "discharged": self.discharged,
            "inconclusive": self.inconclusive,
            "queries": dict(E.queries) if E is not None else {},
            "solver_s": round(E.solver_time, 3) if E is not None else 0.0,
            "paths": E.paths if E is not None else 0,
            "states": self.states,
            "transitions": self.transitions,
            "samples": self.samples,
            "cex": self.cex,
            "witness": self.witness,
            "assumptions": sorted(self.assumptions),
            "stubs": sorted(self.stubs),
            "bounds": self.bounds,
            "notes": self.notes[:20],
            "sources": dict(world.sources) if world is not None else {},
            "wall_s": round(time.time() - self.t0, 2),
            "error": error,
        }


def make_filter(muts):
    """self-test only: textual source mutations applied to the in-memory text (never to /repo)"""
    if not muts:
        return None

    def f(path, text):
        for m in muts:
            if path.endswith(m["path"]):
                assert m["old"] in text, f"mutation target not found in {path}"
                text = text.replace(m["old"], m["new"])
        return text

    return f


def _run_job(job):
    """worker entry: job = dict(id, module, func, params)"""
    os.environ.setdefault("PYTHONHASHSEED", "0")
    t0 = time.time()
    try:
        import symtorch.explore as ex

        ex.EXP.reset_all()
        ex.DEADLINE[0] = time.time() + float(os.environ.get("VERIF_JOB_BUDGET_S", "1500"))
        mod = importlib.import_module(job["module"])
        params = dict(job.get("params", {}))
        if "mutations" in params:
            params["source_filter"] = make_filter(params.pop("mutations"))
        res = getattr(mod, job["func"])(job["id"], **params)
        res["wall_s"] = round(time.time() - t0, 2)
        return res
    except BaseException as e:  # noqa: BLE001
        return {
            "job": job["id"], "status": "error", "error": f"{type(e).__name__}: {e}", "trace": traceback.format_exc()[-3000:],
            "obligations": 0, "discharged": 0, "inconclusive": 0, "queries": {}, "solver_s": 0.0, "paths": 0, "states": 0,
            "transitions": 0, "samples": [], "cex": [], "witness": [], "assumptions": [], "stubs": [], "bounds": {}, "notes": [],
            "sources": {}, "wall_s": round(time.time() - t0, 2),
        }


def run_jobs(jobs, nproc=None):
    nproc = nproc or min(len(jobs), int(os.environ.get("VERIF_NPROC", "16")))
    if nproc <= 1 or len(jobs) <= 1:
        return [_run_job(j) for j in jobs]
    ctx = mp.get_context("fork")
    with ctx.Pool(nproc, maxtasksperchild=1) as pool:
        return list(pool.imap_unordered(_run_job, jobs, chunksize=1))


# ------------------------------------------------------------------------------------------ torch side
def torch_run(requests, timeout=None):
    """execute replay / differential requests on the real library (separate interpreter with torch)"""
    if not requests:
        return []
    with tempfile.TemporaryDirectory(prefix="vf_torch_") as d:
        inp, outp = os.path.join(d, "in.json"), os.path.join(d, "out.json")
        with open(inp, "w") as f:
            json.dump(requests, f)
        env = dict(os.environ, PYTHONPATH=REPO, CUDA_VISIBLE_DEVICES="", PYTHONWARNINGS="ignore")
        timeout = timeout or float(os.environ.get("VERIF_TORCH_TIMEOUT_S", "900"))
        try:
            p = subprocess.run([TORCH_PY, os.path.join(ROOT, "vf", "torch_exec.py"), inp, outp], env=env, cwd=d,
                               stdout=subprocess.PIPE, stderr=subprocess.PIPE, text=True, timeout=timeout)
        except subprocess.TimeoutExpired:
            return [{"error": f"real-torch run did not finish within {timeout} s", "timeout": True} for _ in requests]
        if p.returncode != 0 or not os.path.exists(outp):
            raise RuntimeError("torch_exec failed: " + p.stderr[-3000:])
        with open(outp) as f:
            return json.load(f)


def find_model(E_, neg, tries=60, seed=12345):
    """model of (path AND neg); when the solver answers `unknown` on a nonlinear query, try ground candidate assignments
    (small random rationals for every free variable) and let the solver check each: only used to obtain a WITNESS of a
    violation, never to conclude that an obligation holds"""
    import random

    import z3
    from z3 import z3util

    r = E_.check(neg)
    if r == z3.sat:
        return E_.model()
    if r == z3.unsat:
        return None
    rng = random.Random(seed)
    vs = [v for v in z3util.get_vars(neg) if z3.is_real(v) or z3.is_int(v)]
    for _ in range(tries):
        eqs = []
        for v in vs:
            if str(v) == "eps!":
                continue
            if z3.is_int(v):
                eqs.append(v == rng.randint(0, 4))
            else:
                eqs.append(v == z3.RealVal(f"{rng.randint(-12, 12)}/4"))
        if E_.check(neg, *eqs) == z3.sat:
            return E_.model()
    return None


def frac_to_f32(x):
    """round an exact model value to the nearest float32 (what the real tensors will hold)"""
    import numpy as np

    return float(np.float32(float(x)))


def model_value(m, x):
    """python value of a scalar under model m (model completion on)"""
    import z3

    from symtorch.scalar import XR, is_sym

    if isinstance(x, XR):
        if model_value(m, x.pinf):
            return float("inf")
        if model_value(m, x.ninf):
            return float("-inf")
        return model_value(m, x.v)
    if not is_sym(x):
        return x
    v = m.eval(x, model_completion=True)
    if z3.is_bool(v):
        return z3.is_true(v)
    if z3.is_int_value(v):
        return v.as_long()
    if z3.is_rational_value(v):
        return Fraction(v.numerator_as_long(), v.denominator_as_long())
    if z3.is_algebraic_value(v):
        a = v.approx(20)
        return Fraction(a.numerator_as_long(), a.denominator_as_long())
    raise ValueError(f"cannot read model value {v}")


def tensor_to_json(m, t):
    """nested lists of python numbers for a symtorch tensor under model m (floats rounded to float32)"""
    import numpy as np

    def conv(x):
        v = model_value(m, x) if m is not None else x
        if isinstance(v, bool):
            return v
        if isinstance(v, int):
            return v
        if isinstance(v, float) and v in (float("inf"), float("-inf")):
            return "inf" if v > 0 else "-inf"
        return frac_to_f32(v)

    out = np.frompyfunc(conv, 1, 1)(t.a)
    return {"dtype": t.dtype.name, "data": out.tolist() if out.ndim else out.item()}


# ------------------------------------------------------------------------------------------ known findings
def load_known():
    p = os.path.join(ROOT, "known_findings.json")
    if not os.path.exists(p):
        return []
    with open(p) as f:
        return json.load(f)["findings"]


def match_known(prop, signature):
    """signature: dict describing the failing input/call site; an entry matches if all its `match` items agree"""
    for k in load_known():
        if k.get("property") != prop or k.get("status") != "open":
            continue
        if all(signature.get(a) == b for a, b in k.get("match", {}).items()):
            return k
    return None


# ------------------------------------------------------------------------------------------ evidence / CLI
def write_evidence(prop, tier, level, results, extra, violations, wall_s, seed):
    cov = {
        "states": max(1, sum(r["states"] for r in results)),
        "transitions": max(1, sum(r["transitions"] for r in results)),
        "traces_validated_against_impl": extra.pop("traces_validated", 0),
        "obligations": sum(r["obligations"] for r in results),
        "discharged": sum(r["discharged"] for r in results),
        "inconclusive": sum(r["inconclusive"] for r in results),
        "paths": sum(r["paths"] for r in results),
        "queries": {k: sum(r["queries"].get(k, 0) for r in results) for k in ("sat", "unsat", "unknown")},
        "solver_s": round(sum(r["solver_s"] for r in results), 2),
        "jobs": [
            {"job": r["job"], "status": r["status"], "obligations": r["obligations"], "discharged": r["discharged"],
             "paths": r["paths"], "solver_s": r["solver_s"], "wall_s": r["wall_s"], "bounds": r["bounds"],
             **({"error": r["error"]} if r.get("error") else {})}
            for r in sorted(results, key=lambda r: r["job"])
        ],
        "functions_encoded": sorted({f"{k}@{v}" for r in results for k, v in r["sources"].items()}),
        "stubs": sorted({s for r in results for s in r["stubs"]}),
        "samples": [s for r in results for s in r["samples"]][:12] or [{"note": "no obligation sample recorded"}],
        "checker_cmd": f"./check {prop} --tier {tier}",
        "trusted_base": [
            "z3 5.1.0 (python3-vt)", "symtorch operator table (/verif/symtorch), validated differentially against real torch on every run",
            "stub contracts listed under coverage.stubs", "floats modelled as reals unless stated (float32 layer)",
        ],
        "exhaustive": False,
    }
    cov.update(extra)
    ev = {
        "property_id": prop, "tier": tier, "seed": seed, "level": level, "coverage": cov,
        "assumptions": sorted({a for r in results for a in r["assumptions"]}),
        "wall_s": round(wall_s, 2), "violations": violations,
    }
    OUT = os.environ.get("VERIF_OUT", ROOT)  # VERIF_OUT: scratch output root for self-tests against a patched copy
    os.makedirs(os.path.join(OUT, "evidence"), exist_ok=True)
    tmp = os.path.join(OUT, "evidence", f".{prop}.json.tmp")
    with open(tmp, "w") as f:
        json.dump(ev, f, indent=1, default=str)
    os.replace(tmp, os.path.join(OUT, "evidence", f"{prop}.json"))
    return ev


def save_replay(prop, name, payload):
    d = os.path.join(os.environ.get("VERIF_OUT", ROOT), "replays")
    os.makedirs(d, exist_ok=True)
    p = os.path.join(d, f"{prop}_{name}.json")
    with open(p, "w") as f:
        json.dump(payload, f, indent=1, default=str)
    return p
