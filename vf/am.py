"""C14 (restricted claim): inference is per-instance for the attention-model policy family.

The real AttentionModelPolicy (init / context / dynamic embeddings, GraphAttentionNetwork, MultiHeadAttention,
Normalization in eval mode, PointerAttention, decoder cache) runs in *opaque-arithmetic* mode: library layers are
uninterpreted functions applied on the slice the library documents, parameters opaque constants, products of two
symbolic reals a commutative uninterpreted function.  Equality of the logits computed for instance X in different
batch compositions is then an EUF-validity question, independent of the weights."""
from __future__ import annotations

import numpy as np
import z3

from symtorch import explore, nnmod, world
from symtorch import scalar as SC
from symtorch import tensor as T
from symtorch.scalar import XR, _real, is_sym, s_and, s_eq
from symtorch.tdict import TensorDict

from . import core
from . import envs as EV
from .oracle import all_


def opaque_softmax(t, dim, log):
    moved = np.moveaxis(t.a, dim, -1)
    tt = T.Tensor(moved, T.float32)
    out = nnmod.apply_rowwise("logsoftmax" if log else "softmax", tt, moved.shape[-1])
    return T.Tensor(np.moveaxis(out.a, -1, dim), T.float32)


def opaque_math(name, t):
    return nnmod.apply_elem(name, t)


def am_job(job_id, env_name="tsp", n=3, norm="batch", compositions=("XY", "YX", "XXY"), steps=None, train_mode=False, num_starts=0, variant=None, source_filter=None):
    E = explore.EXP
    ctx = core.Ctx(job_id)
    w = world.make_world(source_filter=source_filter)
    sp = EV.SPECS[env_name]
    old = (T.SOFTMAX_HOOK, T.MATH_HOOK, T.MUL_HOOK)
    T.SOFTMAX_HOOK, T.MATH_HOOK, T.MUL_HOOK = opaque_softmax, opaque_math, nnmod.opaque_mul
    SC.OPAQUE_MUL[0] = True
    ctx.bounds = {"policy": "AttentionModelPolicy", "env": env_name, "variant": variant, "n": n, "num_starts": num_starts, "normalization": norm, "embed_dim": 8, "heads": 1, "layers": 1, "compositions": list(compositions)}
    ctx.stubs.update(["nn.Linear / norm layers (eval mode) / scaled_dot_product_attention / softmax / activations: uninterpreted functions on the documented slice",
                      "parameters: opaque constants; symbolic*symbolic: commutative uninterpreted function"])
    ctx.assumptions.add("policy in eval mode (as in inference); forced action prefixes (symbolic actions, identical for X in every composition)")

    def cexb(E_, neg):
        return [{"kind": "script", "path": core.ROOT + "/vf/torch_side", "module": "am_side", "func": "run_am", "model_kind": "plain", "mode": "C14",
                 "params": {"env": env_name, "n": n, "norm": norm, "train_mode": train_mode, "num_starts": num_starts, "variant": variant}}]

    try:
        pol = w.load("rl4co.models.zoo.am.policy")
        ops = w.load("rl4co.utils.ops")
        env = sp.make_env(w, n, variant)
        nnmod.reset_ids()
        policy = pol.AttentionModelPolicy(env_name=env_name, embed_dim=8, num_heads=1, num_encoder_layers=1, feedforward_hidden=8, normalization=norm)
        if train_mode:
            policy.train()
        else:
            policy.eval()
        Tn = steps or min(sp.bound(n, variant), n + 1)

        def harness():
            src = EV.Src(E, ctx)
            inst = sp.instance(src, 2, n, variant)  # rows: X (0), Y (1); MTVRP 'mix:a/b': X of variant a next to Y of variant b
            S = max(num_starts, 1)
            # forced actions per (step, start, instance): identical for X in every batch composition
            acts = [[[z3.Int(f"ax_{t}_{s_}"), z3.Int(f"ay_{t}_{s_}")] for s_ in range(S)] for t in range(Tn + 1)]
            NA = sp.n_actions(n, variant)
            for step_ in acts:
                for row in step_:
                    for a in row:
                        E.assume(z3.And(a >= 0, a < NA))

            def build(order):
                """order: string over {X,Y}: batch composition"""
                idx = [0 if c == "X" else 1 for c in order]
                td = TensorDict({k: T.Tensor(np.stack([v.a[i] for i in idx]), v.dtype) for k, v in inst.inputs.items()}, batch_size=[len(idx)])
                td = env.reset(td)
                hidden, _ = policy.encoder(td)
                if num_starts > 1:
                    # multi-start decoding as in DecodingStrategy.pre_decoder_hook: replicate the state (row = start * B + instance),
                    # force one start action per replica, step, then let the decoder regroup its cache
                    td = ops.batchify(td, num_starts)
                    td.set("action", T.Tensor(np.array([acts[Tn][s_][i] for s_ in range(S) for i in idx], dtype=object), T.int64))
                    td = env.step(td)["next"]
                    E.obligations = []
                td, _, cache = policy.decoder.pre_decoder_hook(td, env, hidden, num_starts)
                outs = []
                for t in range(Tn):
                    logits, mask = policy.decoder(td, cache, num_starts)
                    outs.append((logits, mask))
                    td.set("action", T.Tensor(np.array([acts[t][s_][i] for s_ in range(S) for i in idx], dtype=object), T.int64))
                    td = env.step(td)["next"]
                    E.obligations = []
                return outs

            solo = build("X")
            for comp in compositions:
                try:
                    res = build(comp)
                except Exception as e:  # noqa: BLE001
                    if isinstance(e, (SC.Unsupported,)):
                        raise
                    ctx.prove(E, f"[{env_name} {norm}] batch composition {comp} must not raise ({type(e).__name__}: {str(e)[:60]})", False, cexb)
                    continue
                Bc = len(comp)
                for pos, c in enumerate(comp):
                    if c != "X":
                        continue
                    for t in range(Tn):
                        ls, ms = solo[t]
                        lb, mb = res[t]
                        for s_ in range(S):
                            rb, rs = s_ * Bc + pos, s_  # replicated rows: start * B + instance
                            tag = f" start {s_}" if num_starts > 1 else ""
                            same = all_([s_eq(nnmod.rl(lb.a[rb, j]), nnmod.rl(ls.a[rs, j])) for j in range(ls.shape[-1])])
                            ctx.prove(E, f"[{env_name} n={n} norm={norm}] step {t}{tag}: logits of X at position {pos} of batch {comp} equal its logits when decoded alone", same, cexb)
                            ctx.prove(E, f"[{env_name} n={n} norm={norm}] step {t}{tag}: mask of X at position {pos} of batch {comp} equals its solo mask",
                                      all_([s_eq(x, y) for x, y in zip(mb.a[rb], ms.a[rs])]), cexb)
            ctx.states += 1
            ctx.transitions += Tn * (1 + len(compositions))

        E.run(harness)
    except explore.Inconclusive as e:
        return ctx.result(E, w, status="inconclusive", error=str(e))
    finally:
        T.SOFTMAX_HOOK, T.MATH_HOOK, T.MUL_HOOK = old
        SC.OPAQUE_MUL[0] = False
    if not ctx.obligations:
        return ctx.result(E, w, status="error", error="vacuous")
    return ctx.result(E, w)
