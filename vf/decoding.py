"""C10: decoding distributions.  The real `process_logits`, `modify_logits_for_top_{k,p}_filtering`,
`DecodingStrategy.greedy/sampling` run on symbolic logits / mask / temperature / top_p / tanh clipping.
`softmax` / `log_softmax` / `tanh` / `multinomial` are library primitives with contract stubs (listed in evidence);
assertions are made on the tensor handed to the final log_softmax."""
from __future__ import annotations

import math

import numpy as np
import z3

from symtorch import explore, world
from symtorch import tensor as T
from symtorch.scalar import XR, PathAbort, _bool, _real, _xr, is_sym, s_and, s_eq, s_ge, s_gt, s_le, s_lt, s_not, s_or, s_where

from . import core
from .oracle import all_, any_, ssum

CALLS = []  # recorded softmax applications: (inputs[list of XR], outputs[list], log)


def _ninf(x):
    return _xr(x).ninf


def _val(x):
    return _xr(x).v


UNDERFLOW = [False]  # float32 underflow of exp in softmax (off: exact real exponential, zero only at -inf)


def softmax_stub(t, dim, log):
    """contract of torch.softmax / log_softmax over one slice:
    softmax: p_i = 0 iff x_i = -inf; p_i > 0 otherwise; sum = 1; order- and equality-preserving among finite entries.
    log_softmax: y_i = -inf iff x_i = -inf; y_i <= 0; order preserving; a single finite entry gets 0."""
    E = explore.EXP
    moved = np.moveaxis(t.a, dim, -1)
    out = np.empty(moved.shape, dtype=object)
    for pos in np.ndindex(*moved.shape[:-1]):
        row = [_xr(x) for x in moved[pos]]
        for x in row:
            if x.pinf is not False:
                E.obligation("softmax input has no +inf", s_not(x.pinf))
        base = E.fresh_name("lsm" if log else "sm")
        vals = []
        for j, x in enumerate(row):
            v = z3.Real(f"{base}_{j}")
            vals.append(v)
        fin = [s_not(x.ninf) for x in row]
        E.obligation("softmax row has a finite entry", any_(fin))
        if UNDERFLOW[0]:
            # float32: exp(x_j - max) underflows to exactly 0 once x_j is more than ~104 below the row maximum (code that masks
            # with a large finite negative number instead of -inf relies on this); entries within 100 of the maximum stay positive
            dead = [any_([s_and(fin[k], T.s_gt(T.s_sub(row[k].v, row[j].v), 105)) for k in range(len(row)) if k != j]) for j in range(len(row))]
            live = [all_([s_or(s_not(fin[k]), T.s_lt(T.s_sub(row[k].v, row[j].v), 100)) for k in range(len(row)) if k != j]) for j in range(len(row))]
            E.assume(_bool(all_([s_or(dead[j], live[j]) for j in range(len(row))])))  # the band in between is not modelled: excluded
            fin = [s_and(fin[j], s_not(dead[j])) for j in range(len(row))]
        if log:
            for j, x in enumerate(row):
                E.assume(vals[j] <= 0)
                others = all_([s_not(fin[k]) for k in range(len(row)) if k != j])
                E.assume(_bool(s_or(s_not(s_and(fin[j], others)), vals[j] == 0)))
                out[pos + (j,)] = XR(False, vals[j], x.ninf)
        else:
            tot = 0
            for j, x in enumerate(row):
                E.assume(_bool(s_where(fin[j], vals[j] > 0, vals[j] == 0)))
                tot = tot + vals[j]
                out[pos + (j,)] = vals[j]
            E.assume(tot == 1)
        for a in range(len(row)):
            for b in range(len(row)):
                if a < b:
                    both = s_and(fin[a], fin[b])
                    E.assume(_bool(s_or(s_not(both), s_and(s_eq(s_le(row[a].v, row[b].v), vals[a] <= vals[b]), s_eq(s_ge(row[a].v, row[b].v), vals[a] >= vals[b])))))
        CALLS.append((row, [out[pos + (j,)] for j in range(len(row))], log))
    return T.Tensor(np.moveaxis(out, -1, dim), T.float32)


def shift_consistency():
    """library fact: softmax / log_softmax outputs are equal for inputs that differ by a constant shift"""
    ax = []
    for i in range(len(CALLS)):
        for j in range(i + 1, len(CALLS)):
            (r1, o1, l1), (r2, o2, l2) = CALLS[i], CALLS[j]
            if l1 != l2 or len(r1) != len(r2):
                continue
            same_pat = all_([s_eq(a.ninf, b.ninf) for a, b in zip(r1, r2)])
            k = z3.Real(f"shift!{i}_{j}")
            shifted = all_([s_or(a.ninf, s_eq(T.s_sub(b.v, a.v), k)) for a, b in zip(r1, r2)])
            eq = all_([s_or(_ninf(a), s_eq(_val(x) if isinstance(x, XR) else x, _val(y) if isinstance(y, XR) else y)) for a, x, y in zip(r1, o1, o2)])
            ax.append(z3.Implies(_bool(s_and(same_pat, shifted)), _bool(eq)))
    return ax


def decoding_job(job_id, n, top_k, mode, B=1, source_filter=None):
    """mode: 'plain' | 'topp' | 'tanh' | 'shift' | 'select'"""
    E = explore.EXP
    ctx = core.Ctx(job_id)
    w = world.make_world(source_filter=source_filter)
    dec = w.load("rl4co.utils.decoding")
    ctx.bounds = {"n": n, "B": B, "top_k": top_k, "mode": mode}
    ctx.stubs.update(["softmax/log_softmax: probability-vector contract (see vf/decoding.py)", "tanh: uninterpreted function into [-1,1]",
                      "multinomial: returns an index of positive weight", "exp: uninterpreted positive function, exp(-inf)=0"])
    ctx.assumptions.update(["logits finite reals", "mask has at least one True", "temperature > 0", "0 <= top_p <= 1", "tanh_clipping > 0 when used"])
    old_hook = T.SOFTMAX_HOOK
    T.SOFTMAX_HOOK = softmax_stub

    def sc(name, lo=None, hi=None, lo_strict=False):
        v = z3.Real(name)
        if lo is not None:
            E.assume(v > lo if lo_strict else v >= lo)
        if hi is not None:
            E.assume(v <= hi)
        return T.Tensor(np.array(v, dtype=object), T.float32)

    def harness():
        CALLS.clear()
        L = T.sym_tensor("logit", (B, n), T.float32)
        M = T.sym_tensor("mask", (B, n), T.bool_)
        for b in range(B):
            E.assume(z3.Or(*list(M.a[b])))
        temp = sc("temperature", 0, None, lo_strict=True)
        top_p = sc("top_p", 0, 1) if mode == "topp" else 0.0
        clip = sc("clip", 0, None, lo_strict=True) if mode == "tanh" else 0
        Lin = L.clone()

        def cex_builder(E_, neg):
            reps = []
            for label, extra in (("margin", [slack == z3.RealVal("1/1000")]), ("plain", [slack == 0])):
                if E_.check(neg, *extra) == z3.sat:
                    m = E_.model()
                    reps.append({"kind": "script", "path": core.ROOT + "/vf/torch_side", "module": "decoding_side", "func": "run",
                                 "params": {"logits": [[float(core.model_value(m, x)) for x in Lin.a[b]] for b in range(B)],
                                            "mask": [[bool(core.model_value(m, x)) for x in M.a[b]] for b in range(B)],
                                            "temperature": float(core.model_value(m, temp.a[()])),
                                            "top_p": float(core.model_value(m, top_p.a[()])) if mode == "topp" else 0.0, "top_k": top_k,
                                            "tanh_clipping": float(core.model_value(m, clip.a[()])) if mode == "tanh" else 0.0,
                                            "shift": float(core.model_value(m, shift)) if mode == "shift" else 0.0, "strategy": mode == "strategy"},
                                 "model_kind": label, "mode": "C10"})
            return reps

        slack = z3.Real("slack!")
        E.assume(slack >= 0)
        shift = z3.Real("shift_c")
        if mode == "strategy":
            # the filters as the decoding strategies apply them: DecodingStrategy.step forwards its temperature / top-k /
            # top-p settings to process_logits (a step that drops or rewrites a setting on the way is a C10 violation)
            from symtorch.tdict import TensorDict as _TD

            strat = dec.Sampling(temperature=temp, top_p=0.0, top_k=top_k, tanh_clipping=0, mask_logits=True, store_all_logp=True)
            strat.step(L, M, _TD({}, batch_size=[B]))
            out = None
        else:
            out = dec.process_logits(L, M, temperature=temp, top_p=top_p, top_k=top_k, tanh_clipping=clip)
        ctx.states += 1
        ctx.transitions += 1
        finals = [c for c in CALLS if c[2]][-B:]
        sms = [c for c in CALLS if not c[2]][-B:]
        if E.obligations:
            obs, E.obligations = E.obligations, []
            ctx.prove(E, f"[n={n} top_k={top_k} {mode}] library preconditions hold ({obs[0][0]}, ...)", z3.And(*[_bool(c) for _, c in obs]), cex_builder)
        Fs, Zs = [], []
        for b in range(B):
            F = finals[b][0]  # row handed to the final log_softmax
            Fs.append(F)
            Mrow = list(M.a[b])
            name = f"n={n} top_k={top_k} {mode} row{b}/{B}"
            ctx.prove(E, f"[{name}] masked actions get probability zero", all_([s_or(Mrow[i], F[i].ninf) for i in range(n)]), cex_builder)
            ctx.prove(E, f"[{name}] at least one action keeps positive probability", any_([s_not(F[i].ninf) for i in range(n)]), cex_builder)
            # Z = masked, clipped, temperature-scaled logits before filtering, re-derived independently
            if mode == "tanh":
                Z = [T.s_div(T.s_mul(T._default_math_sym("tanh", Lin.a[b][i]), clip.a[()]), temp.a[()]) for i in range(n)]
            else:
                Z = [T.s_div(Lin.a[b][i], temp.a[()]) for i in range(n)]
            Zs.append(Z)
            feas_max = [s_and(Mrow[i], all_([s_or(s_not(Mrow[j]), s_ge(Z[i], Z[j])) for j in range(n)])) for i in range(n)]
            ctx.prove(E, f"[{name}] a most likely feasible action survives filtering", any_([s_and(feas_max[i], s_not(F[i].ninf)) for i in range(n)]), cex_builder)
            ctx.prove(E, f"[{name}] surviving entries are the scaled logits themselves", all_([s_or(F[i].ninf, s_eq(F[i].v, Z[i])) for i in range(n)]), cex_builder)
            if top_k > 0:
                k = min(top_k, n)
                cond = all_([s_or(F[i].ninf, s_lt(ssum([s_where(s_and(Mrow[j], s_gt(Z[j], Z[i])), 1, 0) for j in range(n)], 0), k)) for i in range(n)])
                ctx.prove(E, f"[{name}] top-k keeps only actions with fewer than k strictly better feasible actions", cond, cex_builder)
            if mode == "topp" and len(sms) == B:
                rin, rout, _ = sms[b]
                pre = [XR(False, Z[i], s_not(Mrow[i])) for i in range(n)] if top_k == 0 else None
                if pre is not None:
                    perm_ok = all_([any_([s_and(s_eq(rin[r].ninf, pre[i].ninf), s_or(pre[i].ninf, s_eq(rin[r].v, pre[i].v))) for i in range(n)]) for r in range(n)])
                    ctx.prove(E, f"[{name}] top-p statistics are computed on the unfiltered (masked, scaled) distribution", perm_ok, cex_builder)
                kept_mass = 0
                for r in range(n):
                    survives = any_([s_and(s_not(F[i].ninf), s_and(s_not(rin[r].ninf), s_eq(F[i].v, rin[r].v))) for i in range(n)])
                    kept_mass = kept_mass + z3.If(_bool(survives), rout[r], 0)
                ctx.prove(E, f"[{name}] kept probability mass >= top_p", kept_mass >= top_p.a[()] - slack, cex_builder)
        if mode == "shift":
            L2 = T.Tensor(np.array([[T.s_add(x, shift) for x in Lin.a[b]] for b in range(B)], dtype=object), T.float32)
            dec.process_logits(L2, M.clone(), temperature=temp, top_p=0.0, top_k=top_k, tanh_clipping=0)
            F2s = [c for c in CALLS if c[2]][-B:]
            for b in range(B):
                F, F2 = Fs[b], F2s[b][0]
                same = all_([s_and(s_eq(F[i].ninf, F2[i].ninf), s_or(F[i].ninf, s_eq(T.s_sub(F2[i].v, F[i].v), T.s_div(shift, temp.a[()])))) for i in range(n)])
                ctx.prove(E, f"[n={n} top_k={top_k} shift row{b}/{B}] adding a constant to all logits shifts the surviving logits uniformly and keeps the same support (log_softmax is shift invariant)", same, cex_builder)
        if mode == "select":
            try:
                g = dec.DecodingStrategy.greedy(out, M)
                s_ = dec.DecodingStrategy.sampling(out, M)
            except AssertionError as e:
                ctx.prove(E, f"[n={n} top_k={top_k} select] the library's own assertion '{e}' is unreachable", False, cex_builder)
                return
            for b in range(B):
                F, Mrow = Fs[b], list(M.a[b])
                gi, si = g.a[b], s_.a[b]
                ctx.prove(E, f"[n={n} top_k={top_k} select row{b}/{B}] greedy picks a feasible maximiser", all_([s_or(s_not(s_eq(gi, i)), s_and(Mrow[i], all_([s_or(F[j].ninf, s_ge(F[i].v, F[j].v)) for j in range(n)]))) for i in range(n)]), cex_builder)
                ctx.prove(E, f"[n={n} top_k={top_k} select row{b}/{B}] sampling only returns feasible actions of positive probability", all_([s_or(s_not(s_eq(si, i)), s_and(Mrow[i], s_not(F[i].ninf))) for i in range(n)]), cex_builder)
        if not ctx.witness and E.check(slack == 0) == z3.sat:
            ctx.witness.append({"note": "satisfiable path"})

    try:
        E.run(harness)
    except explore.Inconclusive as e:
        return ctx.result(E, w, status="inconclusive", error=str(e))
    except AssertionError as e:
        return ctx.result(E, w, status="error", error=f"repo assertion reachable without a counterexample path handler: {e}")
    finally:
        T.SOFTMAX_HOOK = old_hook
    ctx.witness = []
    if ctx.obligations == 0:
        return ctx.result(E, w, status="error", error="vacuous")
    return ctx.result(E, w)
