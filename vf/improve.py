"""improvement environments (k-opt TSP, PDP ruin-repair): placeholder, filled in with C09"""


def improvement_checker_job(job_id, n=4, source_filter=None):
    raise NotImplementedError
