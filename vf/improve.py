"""C09 (+ the improvement part of C06): k-opt TSP and PDP ruin-repair environments.

(a) one admitted move on an ARBITRARY valid tour (symbolic successor array constrained to be a single cycle, PDP:
    pickups before deliveries) yields a valid tour again;
(b) bookkeeping: from the real `_reset` (initial solution = arbitrary valid tour) two real `_step`s with admitted
    moves keep cost_current = length(rec_current), cost_bsf = length(rec_best) = min over tours seen,
    reward = decrease of cost_bsf >= 0, and rec_best changes only when improved (aliasing)."""
from __future__ import annotations

import types

import numpy as np
import z3

from symtorch import explore, world
from symtorch import tensor as T
from symtorch.scalar import PathAbort, _bool, is_sym, s_and, s_eq, s_ge, s_le, s_lt, s_not, s_or, s_where
from symtorch.tdict import TensorDict

from . import core
from . import oracle as O
from .episodes import ENV_ERRORS
from .oracle import all_, any_, pick


def sym_tour(E, name, gs, pdp=False):
    """successor array of an arbitrary single cycle through gs nodes (node 0 first in the visiting order)"""
    order = [0] + [z3.Int(f"{name}_ord{t}") for t in range(1, gs)]
    for t in range(1, gs):
        E.assume(z3.And(order[t] >= 1, order[t] < gs))
    if gs > 2:
        E.assume(z3.Distinct(*order[1:]))
    rec = [z3.Int(f"{name}_rec{v}") for v in range(gs)]
    for v in range(gs):
        E.assume(z3.And(rec[v] >= 0, rec[v] < gs))
    for t in range(gs):
        nxt = order[(t + 1) % gs]
        for v in range(gs):
            E.assume(z3.Implies(order[t] == v, rec[v] == nxt) if is_sym(order[t]) else (rec[v] == nxt if order[t] == v else True))
    if pdp:
        h = (gs - 1) // 2
        pos = [0] + [z3.Int(f"{name}_pos{v}") for v in range(1, gs)]
        for v in range(1, gs):
            E.assume(z3.And(*[z3.Implies(order[t] == v, pos[v] == t) for t in range(1, gs)]))
        for p in range(1, h + 1):
            E.assume(pos[p] < pos[p + h])
    return rec, order


def single_cycle(rec, gs):
    """following the successor array from node 0 visits every node once and returns to 0"""
    cur, seen = 0, [0]
    for _ in range(gs - 1):
        cur = pick(cur, rec) if is_sym(cur) else rec[int(cur)]
        seen.append(cur)
    back = pick(cur, rec) if is_sym(cur) else rec[int(cur)]
    distinct = all_([T.s_ne(seen[i], seen[j]) for i in range(gs) for j in range(i + 1, gs)])
    inrange = all_([s_and(s_ge(x, 0), s_lt(x, gs)) for x in rec])
    return s_and(inrange, s_and(distinct, s_eq(back, 0))), seen


def precedence_ok(seen, gs):
    h = (gs - 1) // 2
    conds = []
    for p in range(1, h + 1):
        # position of p before position of p+h in the visiting order `seen`
        conds.append(any_([s_and(s_eq(seen[i], p), any_([s_eq(seen[j], p + h) for j in range(i + 1, gs)])) for i in range(gs)]))
    return all_(conds)


def tour_len(rec, D, gs):
    tot = 0.0
    for v in range(gs):
        tot = T.s_add(tot, pick(rec[v], D[v]) if is_sym(rec[v]) else D[v][int(rec[v])])
    return tot


def _mk_env(w, kind, n, k_max):
    if kind == "kopt":
        mod = w.load("rl4co.envs.routing.tsp.env")
        env = mod.TSPkoptEnv(generator_params={"num_loc": n}, k_max=k_max, check_solution=False)
        return env, n
    mod = w.load("rl4co.envs.routing.pdp.env")
    env = mod.PDPRuinRepairEnv(generator_params={"num_loc": n}, check_solution=False)
    return env, n + 1


def _sym_action(E, env, kind, gs, td, tag):
    """an arbitrary move admitted by the environment's own move mask"""
    if kind == "kopt":
        a = [z3.Int(f"{tag}_first"), z3.Int(f"{tag}_second")]
        for x in a:
            E.assume(z3.And(x >= 0, x < gs))
        mask = env.get_mask(td)  # [1, gs, gs]
        E.assume(_bool(O.pick2(a[0], a[1], [list(r) for r in mask.a[0]])))
        return T.Tensor(np.array([a], dtype=object), T.int64)
    h = (gs - 1) // 2
    a = [z3.Int(f"{tag}_pair"), z3.Int(f"{tag}_first"), z3.Int(f"{tag}_second")]
    E.assume(z3.And(a[0] >= 0, a[0] < h, a[1] >= 0, a[1] < gs, a[2] >= 0, a[2] < gs))
    sel = T.Tensor(np.array([[a[0] + 1]], dtype=object), T.int64)
    mask = env.get_mask(sel, td)
    E.obligations = []
    E.assume(_bool(O.pick2(a[1], a[2], [list(r) for r in mask.a[0]])))
    return T.Tensor(np.array([a], dtype=object), T.int64)


def _visited_time(order, gs):
    vt = []
    for v in range(gs):
        if v == 0:
            vt.append(gs)
            continue
        acc = 0
        for t in range(1, gs):
            acc = s_where(s_eq(order[t], v), t, acc)
        vt.append(acc)
    return T.Tensor(np.array([vt], dtype=object), T.int64)


def move_job(job_id, kind="kopt", n=4, k_max=2, source_filter=None):
    E = explore.EXP
    ctx = core.Ctx(job_id)
    w = world.make_world(source_filter=source_filter)
    env, gs = _mk_env(w, kind, n, k_max)
    ctx.bounds = {"env": kind, "nodes": gs, "k": k_max, "what": "one admitted move from an arbitrary valid tour"}
    ctx.assumptions.add("pre-state: the successor array is an arbitrary single cycle through all nodes (PDP: every pickup before its delivery); the move is admitted by the environment's own move mask")

    def cexb(E_, neg):
        if E_.check(neg) == z3.sat:
            m = E_.model()
            return [{"kind": "script", "path": core.ROOT + "/vf/torch_side", "module": "improve_side", "func": "run_move", "model_kind": "plain", "mode": "C09",
                     "params": {"kind": kind, "n": n, "k_max": k_max, "rec": [int(core.model_value(m, x)) for x in holder["rec"]],
                                "action": [int(core.model_value(m, x)) for x in holder["act"].a[0]]}}]
        return []

    holder = {}

    def harness():
        rec, order = sym_tour(E, "s", gs, pdp=(kind == "pdp"))
        holder["rec"] = rec
        sol = T.Tensor(np.array([rec], dtype=object), T.int64)
        td = TensorDict({"visited_time": _visited_time(order, gs), "rec_current": sol, "rec_best": sol.clone()}, batch_size=[1])
        act = _sym_action(E, env, kind, gs, td, "m")
        holder["act"] = act
        try:
            nxt = env._local_operator(sol, act)
        except ENV_ERRORS as e:
            ctx.prove(E, f"{kind}: applying an admitted move raises {type(e).__name__}: {str(e)[:60]}", False, cexb)
            return
        if E.obligations:
            obs, E.obligations = E.obligations, []
            ctx.prove(E, f"{kind}: index preconditions of the move operator ({obs[0][0]}, ...)", z3.And(*[_bool(c) for _, c in obs]), cexb)
        ok, seen = single_cycle(list(nxt.a[0]), gs)
        ctx.prove(E, f"{kind} n={gs} k={k_max}: an admitted move turns a valid tour into a single cycle through all nodes", ok, cexb)
        if kind == "pdp":
            ctx.prove(E, f"{kind} n={gs}: after the move every pickup is still visited before its delivery", s_or(s_not(ok), precedence_ok(seen, gs)), cexb)
        ctx.states += 1
        ctx.transitions += 1

    try:
        E.run(harness)
    except explore.Inconclusive as e:
        return ctx.result(E, w, status="inconclusive", error=str(e))
    if not ctx.obligations:
        return ctx.result(E, w, status="error", error="vacuous")
    return ctx.result(E, w)


def bookkeeping_job(job_id, kind="kopt", n=4, k_max=2, steps=2, source_filter=None):
    E = explore.EXP
    ctx = core.Ctx(job_id)
    w = world.make_world(source_filter=source_filter)
    env, gs = _mk_env(w, kind, n, k_max)
    ctx.bounds = {"env": kind, "nodes": gs, "steps": steps, "what": "bookkeeping from the real reset over successive admitted moves"}
    ctx.assumptions.add("initial solution: arbitrary valid tour (generator stub); moves admitted by the environment's mask")
    ctx.stubs.add("generator._get_initial_solutions: returns an arbitrary valid tour")

    def cexb(E_, neg):
        if E_.check(neg) == z3.sat:
            m = E_.model()
            return [{"kind": "script", "path": core.ROOT + "/vf/torch_side", "module": "improve_side", "func": "run_steps", "model_kind": "plain", "mode": "C09",
                     "params": {"kind": kind, "n": n, "k_max": k_max, "rec": [int(core.model_value(m, x)) for x in holder["rec"]],
                                "locs": [[float(core.model_value(m, c)) for c in row] for row in holder["locs"]],
                                "actions": [[int(core.model_value(m, x)) for x in a.a[0]] for a in holder["acts"]]}}]
        return []

    holder = {}

    def harness():
        rec, order = sym_tour(E, "s", gs, pdp=(kind == "pdp"))
        holder["rec"], holder["acts"] = rec, []
        X = [z3.Real(f"x{v}") for v in range(gs)]
        Y = [z3.Real(f"y{v}") for v in range(gs)]
        for c in X + Y:
            E.assume(z3.And(c >= 0, c <= 1))
        holder["locs"] = [[X[v], Y[v]] for v in range(gs)]
        D = O.dist_matrix(X, Y)
        sol = T.Tensor(np.array([rec], dtype=object), T.int64)
        env.generator._get_initial_solutions = lambda coords: sol.clone()
        if kind == "kopt":
            td_in = TensorDict({"locs": T.Tensor(np.array([[[X[v], Y[v]] for v in range(gs)]], dtype=object), T.float32)}, batch_size=[1])
        else:
            td_in = TensorDict({"depot": T.Tensor(np.array([[X[0], Y[0]]], dtype=object), T.float32),
                                "locs": T.Tensor(np.array([[[X[v], Y[v]] for v in range(1, gs)]], dtype=object), T.float32)}, batch_size=[1])
        td = env.reset(td_in)
        E.obligations = []
        L0 = tour_len(rec, D, gs)
        ctx.prove(E, f"{kind}: after reset cost_current == cost_bsf == length of the initial tour", s_and(s_eq(td["cost_current"].a[0], L0), s_eq(td["cost_bsf"].a[0], L0)), cexb)
        best_len, total_reward = L0, 0.0
        seen_lens = [L0]
        for t in range(steps):
            act = _sym_action(E, env, kind, gs, td, f"m{t}")
            holder["acts"].append(act)
            td.set("action", act)
            prev_best = [x for x in td["rec_best"].a[0]]
            try:
                td = env.step(td)["next"]
            except ENV_ERRORS as e:
                ctx.prove(E, f"{kind}: stepping an admitted move raises {type(e).__name__}: {str(e)[:60]}", False, cexb)
                raise PathAbort()
            E.obligations = []
            cur = list(td["rec_current"].a[0])
            best = list(td["rec_best"].a[0])
            Lc = tour_len(cur, D, gs)
            seen_lens.append(Lc)
            new_best = T.s_min(best_len, Lc)
            nm = f"{kind} n={gs} step {t}"
            ctx.prove(E, f"{nm}: cost_current equals the length of the current tour", s_eq(td["cost_current"].a[0], Lc), cexb)
            ctx.prove(E, f"{nm}: cost_bsf equals the minimum length over all tours seen so far and never increases", s_eq(td["cost_bsf"].a[0], new_best), cexb)
            ctx.prove(E, f"{nm}: cost_bsf equals the length of the stored best tour", s_eq(td["cost_bsf"].a[0], tour_len(best, D, gs)), cexb)
            ctx.prove(E, f"{nm}: reward equals the decrease of the best-so-far cost (>= 0)", s_and(s_eq(td["reward"].a[0], T.s_sub(best_len, new_best)), s_ge(td["reward"].a[0], 0)), cexb)
            ctx.prove(E, f"{nm}: the stored best tour changes only when the new tour is strictly better (no aliasing with the current tour)",
                      s_or(s_lt(Lc, best_len), all_([s_eq(a_, b_) for a_, b_ in zip(best, prev_best)])), cexb)
            okc, _ = single_cycle(best, gs)
            ctx.prove(E, f"{nm}: the stored best tour is a valid tour", okc, cexb)
            total_reward = T.s_add(total_reward, td["reward"].a[0])
            best_len = new_best
            ctx.transitions += 1
        ctx.prove(E, f"{kind} n={gs}: rewards sum to initial cost minus best cost", s_eq(total_reward, T.s_sub(L0, best_len)), cexb)
        ctx.states += 1

    try:
        E.run(harness)
    except explore.Inconclusive as e:
        return ctx.result(E, w, status="inconclusive", error=str(e))
    if not ctx.obligations:
        return ctx.result(E, w, status="error", error="vacuous")
    return ctx.result(E, w)


def improvement_checker_job(job_id, n=4, source_filter=None):
    """C06 for the improvement envs: check_solution_validity on an ARBITRARY successor array vs 'is a valid tour'"""
    E = explore.EXP
    ctx = core.Ctx(job_id)
    w = world.make_world(source_filter=source_filter)
    ctx.bounds = {"nodes": n, "what": "arbitrary successor arrays (any values in range)"}

    for kind in ("kopt", "pdp"):
        env, gs = _mk_env(w, kind, n if kind == "kopt" else (n - n % 2), 2)
        stats = {"accept": 0, "reject": 0}
        holder = {}

        def cexb(E_, neg, kind=kind, gs=gs):
            if E_.check(neg) == z3.sat:
                m = E_.model()
                return [{"kind": "script", "path": core.ROOT + "/vf/torch_side", "module": "improve_side", "func": "run_checker", "model_kind": "plain", "mode": "C06i",
                         "params": {"kind": kind, "n": gs if kind == "kopt" else gs - 1, "rec": [int(core.model_value(m, x)) for x in holder["rec"]], "verdict": holder["verdict"]}}]
            return []

        def harness(kind=kind, gs=gs, env=env):
            rec = [z3.Int(f"{kind}_rec{v}") for v in range(gs)]
            for x in rec:
                E.assume(z3.And(x >= 0, x < gs))
            holder["rec"] = rec
            td = TensorDict({"rec_best": T.Tensor(np.array([rec], dtype=object), T.int64)}, batch_size=[1])
            verdict = "accept"
            try:
                env.check_solution_validity(td)
            except AssertionError:
                verdict = "reject"
            except ENV_ERRORS as e:
                verdict = f"error:{type(e).__name__}"
            E.obligations = []
            holder["verdict"] = verdict
            ok, seen = single_cycle(rec, gs)
            if kind == "pdp":
                ok = s_and(ok, precedence_ok(seen, gs))
            ctx.states += 1
            ctx.transitions += 1
            if verdict == "accept":
                stats["accept"] += 1
                ctx.prove(E, f"{kind} checker n={gs}: an ACCEPTED successor array is a valid tour (single cycle{', pickups first' if kind == 'pdp' else ''}) (path {E.trace})", ok, cexb)
            elif verdict == "reject":
                stats["reject"] += 1
                ctx.prove(E, f"{kind} checker n={gs}: a REJECTED successor array is not a valid tour (path {E.trace})", s_not(ok), cexb)
            else:
                ctx.prove(E, f"{kind} checker n={gs}: must not crash ({verdict})", False, cexb)

        try:
            E.run(harness)
        except explore.Inconclusive as e:
            return ctx.result(E, w, status="inconclusive", error=str(e))
        ctx.notes.append(f"{kind}: accepted paths={stats['accept']} rejected paths={stats['reject']}")
    if not ctx.obligations:
        return ctx.result(E, w, status="error", error="vacuous")
    return ctx.result(E, w)


def confirm_checker(rp, resp):
    if "error" in resp:
        return False, "torch side failed: " + resp["error"]
    p = rp["params"]
    real_accepts = resp["verdict"] == "accept"
    if real_accepts and not resp["valid_tour"]:
        return True, f"the real {p['kind']} checker ACCEPTS the successor array {p['rec']} which is not a valid tour ({resp['why']})"
    if not real_accepts and resp["valid_tour"]:
        return True, f"the real {p['kind']} checker REJECTS the valid tour {p['rec']}: {resp['verdict']}"
    return False, "real checker and ground truth agree"


def sampler_job(job_id, kind="kopt", n=5, k_max=3, source_filter=None):
    """every move produced by the environment's OWN random-move sampler (`_random_action`: k sequential draws under the
    sampler's own masks; each `multinomial` draw is an arbitrary index of positive probability) turns an arbitrary valid
    tour into a valid tour"""
    from . import decoding as DEC

    E = explore.EXP
    ctx = core.Ctx(job_id)
    w = world.make_world(source_filter=source_filter)
    env, gs = _mk_env(w, kind, n, k_max)
    ctx.bounds = {"env": kind, "nodes": gs, "k_max": k_max, "what": "one move drawn by env._random_action from an arbitrary valid tour"}
    ctx.stubs.update(["torch.rand: arbitrary values in [0,1)", "softmax: contract stub (order preserving; zero exactly on -inf entries and on entries more than 105 below the row maximum: float32 underflow, which the sampler's -1e20 / -1e30 masking relies on)",
                      "multinomial: any index of positive probability"])
    ctx.assumptions.add("pre-state: arbitrary single cycle (PDP: pickups before deliveries) with its visiting-time record")
    holder = {}

    def cexb(E_, neg):
        if E_.check(neg) == z3.sat:
            m = E_.model()
            return [{"kind": "script", "path": core.ROOT + "/vf/torch_side", "module": "improve_side", "func": "run_move", "model_kind": "plain", "mode": "C09",
                     "params": {"kind": kind, "n": n, "k_max": k_max, "rec": [int(core.model_value(m, x)) for x in holder["rec"]], "sampled": True,
                                "action": [int(core.model_value(m, x)) for x in holder["act"].a[0]] if holder.get("act") is not None else None}}]
        return []

    def harness():
        rec, order = sym_tour(E, "s", gs, pdp=(kind == "pdp"))
        holder["rec"], holder["act"] = rec, None
        sol = T.Tensor(np.array([rec], dtype=object), T.int64)
        td = TensorDict({"visited_time": _visited_time(order, gs), "rec_current": sol, "rec_best": sol.clone(), "action_record": T.zeros(1, gs, gs // 2)}, batch_size=[1])
        old_hook, T.SOFTMAX_HOOK = T.SOFTMAX_HOOK, DEC.softmax_stub
        DEC.UNDERFLOW[0] = True  # the sampler masks with -1e20 / -1e30, i.e. relies on exp underflowing to 0 in float32
        try:
            act = env._random_action(td)
        except ENV_ERRORS as e:
            ctx.prove(E, f"{kind}: the move sampler raises {type(e).__name__}: {str(e)[:60]}", False, cexb)
            return
        finally:
            T.SOFTMAX_HOOK = old_hook
            DEC.UNDERFLOW[0] = False
        E.obligations = []
        holder["act"] = act
        try:
            nxt = env._local_operator(sol, act)
        except ENV_ERRORS as e:
            ctx.prove(E, f"{kind}: applying a sampled move raises {type(e).__name__}: {str(e)[:60]}", False, cexb)
            return
        if E.obligations:
            obs, E.obligations = E.obligations, []
            ctx.prove(E, f"{kind}: index preconditions of the move operator on a sampled move ({obs[0][0]}, ...)", z3.And(*[_bool(c) for _, c in obs]), cexb)
        ok, seen = single_cycle(list(nxt.a[0]), gs)
        ctx.prove(E, f"{kind} n={gs} k_max={k_max}: a move drawn by the environment's own sampler turns a valid tour into a single cycle through all nodes", ok, cexb)
        if kind == "pdp":
            ctx.prove(E, f"{kind} n={gs}: after a sampled move every pickup is still visited before its delivery", s_or(s_not(ok), precedence_ok(seen, gs)), cexb)
        ctx.states += 1
        ctx.transitions += 1

    try:
        E.run(harness)
    except explore.Inconclusive as e:
        return ctx.result(E, w, status="inconclusive", error=str(e))
    if not ctx.obligations:
        return ctx.result(E, w, status="error", error="vacuous")
    return ctx.result(E, w)
