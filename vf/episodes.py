"""Bounded symbolic episodes through the real environments (C01, C02, C03): the real `reset` / `step` / mask /
reward code runs over z3 terms; every action is a solver variable only assumed to be admitted by the advertised
mask; the loop is the library's own `while not done.all()` (forked on the symbolic `done`)."""
from __future__ import annotations

import z3

from symtorch import dist, explore, world
from symtorch import tensor as T
from symtorch.scalar import PathAbort, _bool, _int, _real, is_sym, s_and, s_eq, s_not, s_or, s_where

from . import core
from . import envs as EV
from . import envs_mdcpdp as _MD  # noqa: F401  (registers MDCPDP)
from . import envs_sel as _SEL  # noqa: F401  (registers the selection environments)
from .oracle import all_, any_

MARGIN_VAR = z3.Real("margin!")
ENV_ERRORS = (AssertionError, ValueError, IndexError, RuntimeError, TypeError, KeyError, explore.ObligationFailed)


def admitted(a, mask_row):
    return any_([s_and(s_eq(a, k), m) for k, m in enumerate(mask_row)])


def _flat_done(td, B):
    d = td["done"].a.reshape(B, -1)
    return [all_(list(d[b])) for b in range(B)]


def model_replay(spec, n, variant, inst, acts, B, m, extra=None):
    """concrete replay request for the torch side from a model"""
    td_json = {k: core.tensor_to_json(m, v) for k, v in inst.inputs.items()}
    actions = [[int(core.model_value(m, a[b])) for b in range(B)] for a in acts]
    r = {"kind": "episode", "env": {"module": spec.module, "cls": spec.cls, "kwargs": spec.env_kwargs(n, variant)},
         "td": td_json, "batch": [B], "actions": actions, "checker": False, "spec": spec.name, "n": n, "variant": variant,
         "record": list(spec.record), "exact_model": WITNESS_EXACT[0]}
    if extra:
        r.update(extra)
    return r


def dyadic_model(E, extra, inst, denom=64, collinear=True):
    """model of (path ∧ extra) whose real inputs are multiples of 1/denom (exactly representable in float32, sums
    exact) and, if requested, collinear (then the distance axioms are exact): the real run then takes the very
    same branch at every comparison.  Returns a model over the ORIGINAL variables or None."""
    E._sync_axioms()
    subs, ints = [], []
    for v in inst.real_vars:
        k = z3.Int(str(v) + "!k")
        ints.append((v, k))
        subs.append((v, z3.ToReal(k) / denom))
    s = z3.Solver()
    s.set("timeout", 20000)
    for a in E.solver.assertions():
        s.add(z3.substitute(a, *subs))
    for x in extra:
        s.add(z3.substitute(x, *subs))
    if collinear:
        for y in inst.ycoords:
            if is_sym(y):
                s.add(z3.substitute(y == 0, *subs))
        for ax in dist.collinear_axioms():
            s.add(z3.substitute(ax, *subs))
    if s.check() != z3.sat:
        return None
    m = s.model()
    # rebuild a model over the original variables by pinning them and re-solving the (now ground-ish) original
    pins = [v == z3.RealVal(m.eval(k, model_completion=True).as_long()) / denom for v, k in ints]
    if collinear:
        pins = pins + dist.collinear_axioms()
    if E.check(*extra, *pins) == z3.sat:
        return E.model()
    return None


def candidate_models(E, neg, inst):
    """models of (path ∧ neg), most replay-robust first (DESIGN 1.5-4)"""
    out = []
    coll = [y == 0 for y in inst.ycoords if is_sym(y)] + dist.collinear_axioms()
    big = MARGIN_VAR == z3.RealVal("1/1000")
    zero = MARGIN_VAR == 0
    for label, mk in (("dyadic+collinear+margin", lambda: dyadic_model(E, [neg, big], inst)),
                      ("dyadic+collinear", lambda: dyadic_model(E, [neg, zero], inst))):
        try:
            m = mk()
            if m is not None:
                out.append((label, m))
                break
        except Exception:  # noqa: BLE001
            continue
    for label, assumptions in (("margin+collinear", [big] + coll), ("margin", [big]), ("plain", [zero])):
        try:
            if E.check(neg, *assumptions) == z3.sat:
                out.append((label, E.model()))
        except Exception:  # noqa: BLE001
            continue
    return out


WITNESS_EXACT = [True]  # was the last witness model exact w.r.t. the distance abstraction (dyadic, collinear)?


def witness_model(E, inst):
    try:
        m = dyadic_model(E, [MARGIN_VAR == 0], inst)
        if m is not None:
            WITNESS_EXACT[0] = True
            return m
    except Exception:  # noqa: BLE001
        pass
    if E.check(MARGIN_VAR == 0) == z3.sat:
        # only a model in which distances are whatever the abstraction allows: a real run need not follow it
        WITNESS_EXACT[0] = not getattr(inst, "ycoords", None)
        return E.model()
    return None


def episode_job(job_id, spec, variant, n, B, mode, source_filter=None, nsteps=None):
    """mode in {'C01','C02','C03','C08'}"""
    sp = EV.SPECS[spec]
    E = explore.EXP
    ctx = core.Ctx(job_id)
    w = world.make_world(source_filter=source_filter)
    env = sp.make_env(w, n, variant)
    Tb = nsteps or sp.bound(n, variant)
    NA = sp.n_actions(n, variant)
    ctx.bounds = {"env": spec, "variant": variant, "n": n, "B": B, "T": Tb, "actions": NA}
    ctx.assumptions.add("every action is admitted by the advertised mask of its row (nothing else is assumed about actions)")
    ctx.assumptions.add("floats are mathematical reals; Euclidean norm is an uninterpreted function with sound linear axioms (unsat is sound)")
    EV.MARGIN[0] = MARGIN_VAR
    from symtorch import scalar as SC

    def harness():
        E.assume(MARGIN_VAR >= 0)
        if getattr(sp, "opaque_mul", False):
            SC.OPAQUE_MUL[0] = True  # symbolic*symbolic products (weight * tardiness) are an opaque commutative function on both sides
            _x, _y = z3.Reals("x!c y!c")
            E.assume(z3.ForAll([_x, _y], SC._MULC(_x, _y) == SC._MULC(_y, _x)))
            ctx.stubs.add("symbolic*symbolic products: commutative uninterpreted function (same on the environment and oracle side)")
        src = EV.Src(E, ctx)
        inst = sp.instance(src, B, n, variant)
        td = env.reset(inst.td)
        orcs = [sp.oracle(inst.rows[b], n, variant) for b in range(B)]
        sts = [o.start() for o in orcs]
        acts = []
        prev_done = [False] * B

        def cex_builder(E_, neg, tag=None):
            reps = []
            for label, m in candidate_models(E_, neg, inst):
                reps.append(dict(model_replay(sp, n, variant, inst, acts, B, m), model_kind=label, mode=mode, bound=Tb))
            return reps

        for t in range(Tb + 1):
            done = _flat_done(td, B)
            ctx.states += 1
            if mode == "C02":
                for b in range(B):
                    ctx.prove(E, f"{spec}[{variant}] t={t} row{b}: finished stays finished", s_or(s_not(prev_done[b]), done[b]), cex_builder)
            alld = all_(done)
            if E.branch(alld):
                break
            if t == Tb:
                if mode == "C02":
                    ctx.prove(E, f"{spec}[{variant}]: episode finishes within {Tb} steps", False, cex_builder)
                raise PathAbort()
            mask = td["action_mask"]
            assert tuple(mask.shape) == (B, NA), f"mask shape {mask.shape} != {(B, NA)}"
            if mode == "C02":
                for b in range(B):
                    ctx.prove(E, f"{spec}[{variant}] t={t} row{b}: some action is offered while the batch is unfinished",
                              any_(list(mask.a[b])), cex_builder)
            a = [z3.Int(f"a{t}_{b}") for b in range(B)]
            for b in range(B):
                E.assume(z3.And(a[b] >= 0, a[b] < NA))
                E.assume(_bool(admitted(a[b], list(mask.a[b]))))
                orcs[b].step(sts[b], a[b], s_not(done[b]), t)
            acts.append(a)
            prev_done = done
            done_prev_rows = done
            td.set("action", T.Tensor(a, T.int64))
            try:
                td = env.step(td)["next"]
            except ENV_ERRORS as e:
                # the real library raises on a mask-admitted action (torch raises RuntimeError/IndexError likewise)
                if mode == "C02":
                    ctx.prove(E, f"{spec}[{variant}] t={t}: stepping a mask-admitted action must not raise ({type(e).__name__}: {str(e)[:80]})", False, cex_builder)
                raise PathAbort()
            ctx.transitions += 1
            if E.obligations:
                obs = E.obligations
                E.obligations = []
                ctx.prove(E, f"{spec}[{variant}] t={t}: library preconditions ({len(obs)}: {obs[0][0]}, ...)", z3.And(*[c for _, c in obs]), cex_builder)
            if mode == "C08" and hasattr(sp, "bookkeeping"):
                for b in range(B):
                    for nm, cond in sp.bookkeeping(td, orcs[b], sts[b], b, n):
                        ctx.prove(E, f"{spec}[{variant}] after step {t} row{b}: {nm}", s_or(done_prev_rows[b], cond), cex_builder)
        # ---- all rows finished on this path
        if mode == "C08" and "chosen" in td.keys():
            for b in range(B):
                cnt = 0
                for x in td["chosen"].a[b]:
                    cnt = T.s_add(cnt, s_where(x, 1, 0))
                ctx.prove(E, f"{spec}[{variant}] row{b}: the environment's own selection holds exactly the quota of items when the batch is finished",
                          T.s_eq(cnt, inst.rows[b]["k"]), cex_builder)
        if mode in ("C01", "C08"):
            for b in range(B):
                ctx.prove(E, f"{spec}[{variant}] row{b}: solution complete when the environment reports done", orcs[b].complete(sts[b]), cex_builder)
                for name, v in sts[b].viol.items():
                    if name.startswith("canonical:"):
                        continue  # documented pruning of pointless moves, not a problem constraint
                    ctx.prove(E, f"{spec}[{variant}] row{b}: constraint {name}", s_not(v), cex_builder)
        if mode == "C03":
            A = T.Tensor([[acts[t][b] for t in range(len(acts))] for b in range(B)], T.int64)
            try:
                rew = env.get_reward(td, A)
            except ENV_ERRORS as e:
                ctx.prove(E, f"{spec}[{variant}]: reward computation must not raise ({type(e).__name__}: {str(e)[:80]})", False, cex_builder)
                return
            for b in range(B):
                obj = orcs[b].objective(sts[b])
                r = rew.a.reshape(-1)[b] if rew.a.size == B else rew.a.reshape(B, -1)[b][0]
                ctx.prove(E, f"{spec}[{variant}] row{b}: reward == objective recomputed from instance and actions",
                          s_and(T.s_le(T.s_sub(r, obj), MARGIN_VAR), T.s_le(T.s_sub(obj, r), MARGIN_VAR)), cex_builder)
        # reachability witness (vacuity twin): this path is satisfiable; keep one concrete run for replay
        if len(ctx.witness) < 1:
            wm = witness_model(E, inst)
            if wm is not None:
                ctx.witness.append(dict(model_replay(sp, n, variant, inst, acts, B, wm), mode="witness"))

    try:
        E.run(harness)
    except explore.Inconclusive as e:
        return ctx.result(E, w, status="inconclusive", error=str(e))
    finally:
        EV.MARGIN[0] = 0.0
        SC.OPAQUE_MUL[0] = False
    if not ctx.witness and not ctx.cex:
        return ctx.result(E, w, status="error", error="vacuous harness: no complete path is satisfiable")
    return ctx.result(E, w)


# =============================================================================================== C04
def independence_job(job_id, spec, variant, n, B, pos, source_filter=None):
    """row `pos` of a batch of B independent symbolic instances is driven next to batch-mates with their own
    symbolic actions; the same instance is driven alone (B=1) with the same actions.  Obligations: equal masks at
    every common step, equal finishing step, and equal reward although the batched row keeps being stepped with
    mask-offered padding after it finished."""
    from symtorch.tdict import TensorDict

    sp = EV.SPECS[spec]
    E = explore.EXP
    ctx = core.Ctx(job_id)
    w = world.make_world(source_filter=source_filter)
    envB = sp.make_env(w, n, variant)
    env1 = sp.make_env(w, n, variant)
    Tb = sp.bound(n, variant)
    NA = sp.n_actions(n, variant)
    ctx.bounds = {"env": spec, "variant": variant, "n": n, "B": B, "row": pos, "T": Tb}
    ctx.assumptions.add("every action of every row is admitted by the advertised mask of that row in the batched run")
    EV.MARGIN[0] = MARGIN_VAR

    def harness():
        E.assume(MARGIN_VAR >= 0)
        src = EV.Src(E, ctx)
        inst = sp.instance(src, B, n, variant)
        solo_td = TensorDict({k: T.Tensor(v.a[pos : pos + 1].copy(), v.dtype) for k, v in inst.inputs.items()}, batch_size=[1])
        solo_inputs = dict(solo_td.d)
        td = envB.reset(inst.td)
        td1 = env1.reset(solo_td)
        acts = []
        solo_done_concrete = False
        solo_rew = None
        solo_len = None

        def cex_builder(E_, neg):
            reps = []
            for label, m in candidate_models(E_, neg, inst):
                rb = model_replay(sp, n, variant, inst, acts, B, m)
                r1 = dict(rb)
                r1["td"] = {k: core.tensor_to_json(m, v) for k, v in solo_inputs.items()}
                r1["batch"] = [1]
                r1["actions"] = [[row[pos]] for row in rb["actions"]][: (solo_len if solo_len is not None else len(rb["actions"]))]
                reps.append({"kind": "pair", "batched": rb, "solo": r1, "pos": pos, "model_kind": label, "mode": "C04", "spec": spec,
                             "variant": variant, "n": n})
            return reps

        for t in range(Tb + 1):
            done = _flat_done(td, B)
            ctx.states += 1
            if not solo_done_concrete:
                d1 = _flat_done(td1, 1)[0]
                ctx.prove(E, f"{spec}[{variant}] t={t}: row {pos} finishes at the same step alone and in the batch", s_eq(d1, done[pos]) if is_sym(d1) or is_sym(done[pos]) else d1 == done[pos], cex_builder)
                if E.branch(done[pos]):
                    solo_done_concrete = True
                    solo_len = len(acts)
                    if acts and sp.has_reward:
                        A1 = T.Tensor([[a[pos] for a in acts]], T.int64)
                        try:
                            solo_rew = env1.get_reward(td1, A1).a.reshape(-1)[0]
                        except ENV_ERRORS:
                            solo_rew = None
            if E.branch(all_(done)):
                break
            if t == Tb:
                raise PathAbort()
            mask = td["action_mask"]
            if not solo_done_concrete:
                m1 = td1["action_mask"]
                ctx.prove(E, f"{spec}[{variant}] t={t}: mask of row {pos} is the same alone and in the batch",
                          all_([s_eq(x, y) if (is_sym(x) or is_sym(y)) else x == y for x, y in zip(list(m1.a[0]), list(mask.a[pos]))]), cex_builder)
            a = [z3.Int(f"a{t}_{b}") for b in range(B)]
            for b in range(B):
                E.assume(z3.And(a[b] >= 0, a[b] < NA))
                E.assume(_bool(admitted(a[b], list(mask.a[b]))))
            acts.append(a)
            td.set("action", T.Tensor(a, T.int64))
            try:
                td = envB.step(td)["next"]
                if not solo_done_concrete:
                    td1.set("action", T.Tensor([a[pos]], T.int64))
                    td1 = env1.step(td1)["next"]
            except ENV_ERRORS as e:
                ctx.prove(E, f"{spec}[{variant}] t={t}: stepping (incl. padding of finished rows) must not raise ({type(e).__name__}: {str(e)[:80]})", False, cex_builder)
                raise PathAbort()
            ctx.transitions += 1
            E.obligations = []
        if len(ctx.witness) < 1:
            wm = witness_model(E, inst)
            if wm is not None:
                ctx.witness.append(dict(model_replay(sp, n, variant, inst, acts, B, wm), mode="witness"))
        if not solo_done_concrete or solo_rew is None:
            return
        A = T.Tensor([[acts[t][b] for t in range(len(acts))] for b in range(B)], T.int64)
        try:
            rew = envB.get_reward(td, A)
        except ENV_ERRORS as e:
            ctx.prove(E, f"{spec}[{variant}]: batched reward must not raise ({type(e).__name__}: {str(e)[:80]})", False, cex_builder)
            return
        r = rew.a.reshape(-1)[pos] if rew.a.size == B else rew.a.reshape(B, -1)[pos][0]
        ctx.prove(E, f"{spec}[{variant}]: reward of row {pos} equals its solo reward (padding and batch-mates have no influence)",
                  s_and(T.s_le(T.s_sub(r, solo_rew), MARGIN_VAR), T.s_le(T.s_sub(solo_rew, r), MARGIN_VAR)), cex_builder)
        if len(ctx.witness) < 1:
            wm = witness_model(E, inst)
            if wm is not None:
                ctx.witness.append(dict(model_replay(sp, n, variant, inst, acts, B, wm), mode="witness"))

    try:
        E.run(harness)
    except explore.Inconclusive as e:
        return ctx.result(E, w, status="inconclusive", error=str(e))
    finally:
        EV.MARGIN[0] = 0.0
    if not ctx.witness and not ctx.cex:
        return ctx.result(E, w, status="error", error="vacuous harness: no complete path is satisfiable")
    return ctx.result(E, w)


# =============================================================================================== C05
NEEDS_TRIANGLE = {"op", "mtvrp", "cvrptw"}
DOC_MARGIN = {"op": z3.RealVal("-1/1000000")}  # OP documents a 1e-6 safety margin on the length budget


def reach_job(job_id, spec, variant, n, source_filter=None):
    """The mask hides no feasible solution: an ARBITRARY action sequence (not constrained by the mask) is assumed
    to be a feasible solution in the documented canonical form (independent oracle); driving the real environment
    along it, the solver must show every action was offered by the mask and the environment is done exactly when
    the solution is complete.  Unsat => every feasible solution, hence an optimal one, is reachable."""
    sp = EV.SPECS[spec]
    E = explore.EXP
    ctx = core.Ctx(job_id)
    w = world.make_world(source_filter=source_filter)
    env = sp.make_env(w, n, variant)
    Tb = sp.bound(n, variant)
    NA = sp.n_actions(n, variant)
    B = 1
    ctx.bounds = {"env": spec, "variant": variant, "n": n, "B": 1, "T": Tb}
    ctx.assumptions.add("the action sequence is a feasible solution by the independent oracle, in canonical form (no pointless depot stays / zero deliveries), padded with nothing; it is NOT assumed to be mask-admitted")
    if spec in NEEDS_TRIANGLE:
        ctx.assumptions.add("triangle inequality instantiated on the distance applications (true of the Euclidean norm)")
    if spec in DOC_MARGIN:
        ctx.assumptions.add("OP: solutions within 1e-6 of the length budget are outside the claim (margin documented in the environment)")
    mg = DOC_MARGIN.get(spec, 0.0)

    def harness():
        dist.TRIANGLE = spec in NEEDS_TRIANGLE
        EV.MARGIN[0] = mg
        E.assume(MARGIN_VAR == 0)
        src = EV.Src(E, ctx)
        inst = sp.instance(src, B, n, variant)
        orc = sp.oracle(inst.rows[0], n, variant)
        st = orc.start()
        acts, comp = [], []
        for t in range(Tb):
            a = z3.Int(f"a{t}")
            E.assume(z3.And(a >= 0, a < NA))
            c = orc.complete(st)
            comp.append(c)
            orc.step(st, a, s_not(c), t)
            acts.append([a])
        comp.append(orc.complete(st))
        E.assume(_bool(comp[-1]))  # the solution completes within the step bound
        for name, v in st.viol.items():
            E.assume(_bool(s_not(v)))  # feasible and canonical
        EV.MARGIN[0] = 0.0
        td = env.reset(inst.td)
        used = []

        def cex_builder(E_, neg):
            reps = []
            for label, m in candidate_models(E_, neg, inst):
                k = len(used)
                reps.append(dict(model_replay(sp, n, variant, inst, acts[: max(k, 1)], B, m), model_kind=label, mode="C05", upto=k))
            return reps

        for t in range(Tb + 1):
            done = _flat_done(td, B)[0]
            ctx.states += 1
            if E.branch(comp[t]):
                # solution complete: the env must be done, possibly after the explicit final return to the depot
                if not E.branch(done):
                    mask = td["action_mask"]
                    ctx.prove(E, f"{spec}[{variant}]: after the last customer the final return to the depot is offered", mask.a[0][0], cex_builder)
                    td.set("action", T.Tensor([0], T.int64))
                    td = env.step(td)["next"]
                    ctx.prove(E, f"{spec}[{variant}]: environment reports done once the solution is complete", _flat_done(td, B)[0], cex_builder)
                break
            if t == Tb:
                raise PathAbort()
            ctx.prove(E, f"{spec}[{variant}] t={t}: environment is not done while the solution is incomplete", s_not(done), cex_builder)
            mask = td["action_mask"]
            used.append(t)
            ctx.prove(E, f"{spec}[{variant}] t={t}: the next action of a feasible solution is offered by the mask", admitted(acts[t][0], list(mask.a[0])), cex_builder)
            E.assume(_bool(s_not(done)))
            td.set("action", T.Tensor(acts[t], T.int64))
            try:
                td = env.step(td)["next"]
            except ENV_ERRORS as e:
                ctx.prove(E, f"{spec}[{variant}] t={t}: stepping along a feasible solution must not raise ({type(e).__name__}: {str(e)[:80]})", False, cex_builder)
                raise PathAbort()
            ctx.transitions += 1
            E.obligations = []
        if len(ctx.witness) < 1:
            wm = witness_model(E, inst)
            if wm is not None:
                k = len(used)
                ctx.witness.append(dict(model_replay(sp, n, variant, inst, acts[:k], B, wm), mode="witness"))

    try:
        E.run(harness)
    except explore.Inconclusive as e:
        return ctx.result(E, w, status="inconclusive", error=str(e))
    finally:
        EV.MARGIN[0] = 0.0
        dist.TRIANGLE = False
    if not ctx.witness and not ctx.cex:
        return ctx.result(E, w, status="error", error="vacuous harness: no feasible canonical solution exists under the assumptions")
    return ctx.result(E, w)
