#!/bin/sh
# usage: tools/all_seeds.sh [jobs]  -- regression over every stored seeded change: each must be reported (exit 1 + VIOLATION) by the
# check of the property it breaks (or the one named in meta.json "also_checked_with"), on a scratch worktree of /repo's HEAD
J=${1:-3}
ls -d /verif/seeded/*/ | while read d; do
  id=$(basename "$d"); prop=$(python3 -c "import json;m=json.load(open('$d/meta.json'));print(m.get('checked_with', m['breaks_property']) + (' EXPECT-MISS' if m.get('not_detected') else ''))")
  echo "$id $prop"
done > /tmp/all_seeds.list
cat /tmp/all_seeds.list | xargs -P "$J" -L 1 sh -c '
  out=$(/verif/tools/seedtest.sh /verif/seeded/$0/patch.diff $1 2>&1)
  rc=$(echo "$out" | grep -o "exit=[0-9]*" | head -1)
  v=$(echo "$out" | grep -c "^VIOLATION")
  echo "$0 $1 $rc violations=$v $(echo "$out" | grep -c "PATCH DOES NOT APPLY" | sed "s/^1$/PATCH-DOES-NOT-APPLY/;s/^0$//")"
'
