#!/usr/bin/env python3
"""usage: tools/import_seed.py <seed_dir> <id> <property> "<needs>" "<detected_by>"  -- store a confirmed seeded change under /verif/seeded/<id>/"""
import json, os, shutil, sys
src, sid, prop, needs, detected = sys.argv[1:6]
dst = f"/verif/seeded/{sid}"
os.makedirs(dst, exist_ok=True)
for f in ("patch.diff", "demo.py", "notes.md", "confirm.log"):
    if os.path.exists(os.path.join(src, f)):
        shutil.copy(os.path.join(src, f), os.path.join(dst, f))
conf = open(os.path.join(src, "confirm.log")).read() if os.path.exists(os.path.join(src, "confirm.log")) else ""
meta = {"id": sid, "breaks_property": prop, "needs_to_manifest": needs,
        "confirmed_by_me": {"demo_on_clean_tree": "exit 0" if "demo_clean_exit=0" in conf else "?", "demo_with_patch": "non-zero exit" if "demo_patched_exit=1" in conf else "?",
                            "test_suite_with_patch": [l for l in conf.splitlines() if "passed" in l][-1:] , "how": "tools/confirm_seed.sh in the sub-agent's scratch worktree (git apply; demo; full pytest; git checkout)"},
        "checks_run": f"tools/seedtest.sh {sid}/patch.diff {prop} (git -C /repo apply; ./check; git -C /repo checkout -- .)", "detected_by": detected}
json.dump(meta, open(os.path.join(dst, "meta.json"), "w"), indent=1)
print("imported", sid)
