#!/bin/sh
# usage: tools/seedtest.sh <patch.diff> <PROP> [<PROP> ...]
# Apply a seeded change to a scratch worktree of /repo (never to /repo itself), run the checks against that copy
# (VERIF_REPO) with their outputs redirected to a scratch directory (VERIF_OUT), then remove the worktree.
patch="$1"; shift
wt=$(mktemp -d /tmp/seedwt_XXXXXX); out=$(mktemp -d /tmp/seedout_XXXXXX)
rmdir "$wt"; git -C /repo worktree add -q --detach "$wt" HEAD || exit 3
git -C "$wt" apply --check "$patch" || { echo "PATCH DOES NOT APPLY"; git -C /repo worktree remove --force "$wt"; exit 3; }
git -C "$wt" apply "$patch"
for p in "$@"; do
  VERIF_REPO="$wt" VERIF_OUT="$out" /verif/check "$p" --tier "${TIER:-quick}" > "$out/seedtest_$p.out" 2>&1; rc=$?
  echo "== $p exit=$rc"; grep -E "^VIOLATION|^KNOWN|^\[|HARNESS" "$out/seedtest_$p.out" | cut -c1-400 | head -8
done
git -C /repo worktree remove --force "$wt"; rm -rf "$out"
