#!/bin/sh
# usage: tools/seedtest.sh <patch.diff> <PROP> [<PROP> ...]   -- apply a seeded change to /repo, run the quick checks, undo it
patch="$1"; shift
git -C /repo apply --check "$patch" || { echo "PATCH DOES NOT APPLY"; exit 3; }
git -C /repo apply "$patch"
for p in "$@"; do
  /verif/check "$p" --tier "${TIER:-quick}" > /tmp/seedtest_$p.out 2>&1; rc=$?
  echo "== $p exit=$rc"; grep -E "^VIOLATION|^KNOWN|^\[|HARNESS" /tmp/seedtest_$p.out | cut -c1-400 | head -8
done
git -C /repo checkout -- .
git -C /repo status --short | head -3
