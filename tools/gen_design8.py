#!/usr/bin/env python3
"""Regenerates section 8 ("As built") of /verif/DESIGN.md: prose kept here, tables generated from the live check plans,
seeded/*/meta.json and known_findings.json (tools/gen_tables.py).  Run with any python3."""
import subprocess


def tab(w):
    out = subprocess.run(["python3-vt", "/verif/tools/gen_tables.py", w], capture_output=True, text=True).stdout
    return "\n".join(line for line in out.splitlines() if line.startswith("|"))


P = "/verif/DESIGN.md"
s = open(P).read()
if "## 8. As built" in s:
    s = s[: s.index("## 8. As built")].rstrip()
    if s.endswith("---"):
        s = s[:-3].rstrip()

sec8 = """## 8. As built

### 8.1 What exists

* `symtorch/` -- the engine of section 1 (about 6k lines): `scalar.py` (scalar algebra over Python numbers, z3 terms and
  extended reals; float32 emulation for concrete differential runs; opaque commutative multiplication; **FP mode**: float-like
  values are IEEE float32 terms of z3's FloatingPoint theory), `tensor.py` (the tensor stand-in: numpy object arrays, full
  basic/advanced indexing with symbolic indices, gather/scatter, sort/top-k by rank encoding, sampler stubs, torch's
  partial-overlap rule for in-place copies), `tdict.py`, `einops_.py`, `nnmod.py` (opaque layers), `world.py` (loader that
  executes the real `/repo` sources with the stand-ins injected; package `__init__`s are not executed), `explore.py` (path
  forking, sharding, obligations, per-query timeout, optional per-query solver for a fixed logic such as QF_FPBV),
  `dist.py` (Euclidean norm as an uninterpreted function with order axioms), `datastub.py`, `diststub.py`.
* `vf/` -- per-property harnesses (`vf/props/Cxx.py` = plan of jobs, confirmation of counterexamples on real torch,
  signature of a violation), job implementations (`episodes.py`, `envs.py`, `envs_sel.py`, `envs_mdcpdp.py`, `checkers.py`,
  `improve.py`, `decoding.py`, `training.py`, `sched.py`, `opsjobs.py`, `evaljobs.py`, `datajobs.py`, `policyjobs.py`, `am.py`,
  `genjobs.py`, `persistjobs.py`, `fpjobs.py`), independent ground-truth oracles (`oracle.py`, inside `envs*.py`), and the
  real-torch side (`torch_exec.py`, `torch_side/*.py`, run by `/venv/bin/python`).
* `./check <ID> --tier quick|thorough` runs `python3-vt -m vf.main`. Every run re-reads `/repo`'s working tree, so the
  encoding is regenerated from the current source each time (evidence lists the files with their hashes). Exit codes:
  0 = every obligation discharged (`unsat`) and every differential trace agrees; 1 = a solver counterexample was replayed
  on the real torch build and reproduces (`VIOLATION` line; replay file under `replays/`, re-runnable with
  `./check <ID> --replay <file>`); 2 = harness error: `unknown`/timeout, or a counterexample that does not reproduce
  (the encoding or a stub is suspect -- never reported as a violation, never as success).
* No hooks in `/repo` were needed (`MANIFEST.hooks.source_commits = []`).
* All 20 properties have a check; C14 and C19 are restricted claims (stated in MANIFEST `level_claimed.text` and below).
  `not_applicable` is empty, but every check lists what lies outside its claim (table in 8.2).
* Soundness guard: z3py evaluates `bool(a == b)` structurally instead of refusing, so a raw solver term leaking into an
  `if` of the executed source would silently take one branch. `explore.py` replaces `BoolRef.__bool__` by a function that
  raises; symbolic values reach Python control flow only through `Tensor.__bool__`, which forks.

### 8.2 Bounds actually explored (generated from the checks' own plans by `tools/gen_tables.py bounds`)

""" + tab("bounds") + """

All levels are `model_checking` in the MANIFEST vocabulary: bounded symbolic execution with solver verdicts. The
inductive obligations (C09 moves from an arbitrary valid tour, C20 one Welford step from an arbitrary history summarised by
its sufficient statistics, C16 algebraic identities) are unbounded in the value dimension but still bounded in tensor sizes,
so they are not called proofs.

Wall time on this machine (16 cores): every quick tier finishes in under 3 minutes (C13 about 2.5 min, C04 and C09 about
2 min, most under 30 s); thorough tiers take between 1 s and about 20 min (C04, C05).

### 8.3 Deviations from the design

* **C05 float32 exact-fill jobs** were built as announced, but by running the real reset / step / mask code in FP mode
  (float32 terms, per-query `QF_FPBV` solver) rather than by a hand-written kernel: integer demands 1..9 (bit-vector
  variables selecting float32 constants d/c), capacities 17, 20, 25, 30, 33, 37, 40, n <= 5 customers, every route prefix
  (forked). This found the exact-fill defect for the library's own capacities 20 and 30 (open finding, 8.5). Everything
  else in C01-C09 models floats as reals.
* **C14 is decided in opaque-arithmetic mode** (uninterpreted layers, commutative uninterpreted product) for the
  attention-model family only, as forecast; single-start and multi-start decoding. Pointer network, MatNet, HAM, MDAM,
  PolyNet and the scheduling policies are outside. Observation (not a claim of any check): multi-start decoding of the
  attention model on mTSP raises for every batch size (`MTSPContext._distance_from_depot` gathers along the start dimension).
* **C11/C13 use an abstract decoder** (logits = uninterpreted function of the instance and the observable state), so their
  verdicts hold for every network, but only on TSP-shaped episodes. C13 additionally proves, per step, that the kept beams
  are the W best expansions under the true cumulative score re-derived from the prefixes.
* **C18 replay** feeds the solver's sampler values into the *real* generator by patching `torch.rand/randint/randperm/
  multinomial/normal`, `Tensor.uniform_` and `Uniform.sample` in call order, then re-evaluates the same predicates on
  the real output -- a deterministic replay of a random generator. Candidate models put the points of an instance on one
  line (distance abstraction exact) and restrict CVRPTW's random factors to values for which the opaque product is exact.
* **C19 text files at token level**: while the real `write` runs, each solver term that is formatted becomes an opaque
  token in the real file on disk; the reader's `int(token)` yields the term again. numpy's `savez/load` are an in-memory
  store. `CVRPEnv.load_data` is additionally checked bit-precisely in FP mode. Pickling, `torch.Generator` state and
  Lightning checkpoints cannot be encoded and are outside the claim.
* **C19 also uses CrossHair** for the one string-level helper of the data-file path: `check_extension` is extracted from
  the module source at run time and executed on a symbolic `str` (length <= 7) against "only ever appends the extension";
  a reachability twin (`post: False`) must be refuted; CrossHair's counterexample is replayed on the real function.
* **C11** has an independent entropy reference (sum over the non-forced steps of -sum p log p of the re-derived step
  distributions) and evaluates the returned actions also with an explicit `decode_type`; `Categorical(logits=)` entropy
  and the idempotence of `log_softmax` are part of the stand-in's contract for that.
* **C09** also covers every move the environments' own samplers (`_random_action`: 2-opt, 3-opt, 4-opt, ruin-repair) can
  draw; the samplers mask with -1e20 / -1e30, i.e. rely on float32 underflow of `exp`, which the softmax contract models
  in those jobs only.
* **C17** uses one symbolic permutation (distinct solver integers) as the shuffled order instead of enumerating orders.
* **torch's partial-overlap rule** (`assert_no_partial_overlap`) was added to the tensor stand-in after a seeding agent
  noticed a crash at batch size 1; with it the C09 check finds that crash itself (8.5).
* **MDCPDP** got a spec with an oracle for the documented constraints (visit once, pickup before delivery, capacity of
  the vehicle of the depot visited last) and, for `reward_mode="minsum"`, the total length driven; it is part of C01-C04 and
  C18, not of C05/C06 (no documented notion of which depot moves are allowed; its checker is a stub). Four defects found.
* **MTVRP** is also checked on batches that mix variants (as the `all` preset produces) and on instances generated with a
  speed other than 1.
* **Confirmation fallback for C04**: a counterexample in genuinely 2-D geometry has no exact (collinear) model under the
  distance abstraction, so its direct replay may not reproduce. In that case the real-torch side searches real generator
  instances in the same batch composition (random mask-admitted rollouts, the row under test re-run alone) and reports
  only a discrepancy it actually observes. The search runs only after the solver produced a counterexample; it never
  turns an `unsat` into anything.
* **Witness search for nonlinear counterexamples (C16)**: when z3 answers `unknown` on the (satisfiable) negation, ground
  candidate assignments are tried and checked by the solver; again only to obtain a witness of a violation.
* Scheduling (C07) instances come both from hand-built symbolic shapes and from the real generators with sampler stubs.
* Seeded changes are tested in a scratch worktree (`VERIF_REPO`, `VERIF_OUT`), never by patching `/repo`.
* **Budgets**: every job has a wall-clock budget (`VERIF_JOB_BUDGET_S`, 900 s quick / 5400 s thorough), every solver query a
  timeout, every real-torch request and batch a timeout. Exceeding any of them makes the job *inconclusive* (exit 2), never
  a pass and never a hang; on the unchanged tree no job comes near them.
* **Third seeding round** (12 more changes) led to: C10 also runs the filters through `DecodingStrategy.step` (the settings
  must reach `process_logits` unchanged); C07 FFSP with two rows that finish at different steps, and FJSP/JSSP environments
  built for another machine count than the instance they are reset with; C18 MTVRP generator with speed 0.75 and 2; C08
  MDPP reset mask replay; C17 also requires the baseline snapshot to be frozen (structural, not identity, comparison); a
  `torch.lerp` stand-in; and a *dyadic-collinear* candidate model for C18 counterexamples (all [0,1) draws in
  {0, 1/4, 1/2, 3/4, 7/8}): the solver's first model of a generator violation tends to sit in a degenerate corner (points
  1e-10 apart) where float32 and the reals model disagree and the replay does not reproduce; the dyadic model has margin.
* A Python truth test on a non-literal solver term (`if z3_expr:`) raises in the engine. Before that guard a comparison
  on raw solver integers silently took one branch, which is how seed C17_1 was first missed.

### 8.4 False alarms found in my own machinery and what was done

Each of these was a check (or replay) that reported, or would have reported, a violation on code that satisfies the
property. None is listed as a known finding; the machinery was corrected.

| where | symptom | cause | correction |
|---|---|---|---|
| C03 (all routing) | spurious reward counterexamples | distance abstraction lacked `norm(0,0)=0` | axiom added; counterexample models are additionally completed on a dyadic grid with collinearity axioms so that replays hit the same branch |
| C02 MTVRP | spurious dead end | my instance contract for time windows was looser than what the generator emits | contract made generator-exact (and C18 now proves the generator satisfies it) |
| C01/C05 OP, PCTSP | "feasible solution hidden" | oracle counted pointless leading depot visits as distinct solutions | documented canonical forms: rules named `canonical:` are pruning, not constraints |
| C06 | checker/oracle disagreement on final return | oracle did not include the implied return to the depot | oracle fixed (this then exposed the real checker defects 330faf7) |
| all | 4.6 vs 23/5 mismatches | Python float literals entered as binary doubles on one side and as decimals on the other | every literal converted via `Fraction(repr(x))` |
| C12 layout | "wrong group" | my obligation assumed the wrong nesting convention for `(a, s)` factors | obligation restated as "group b collects exactly the rows congruent to b mod B" |
| C10 | counterexamples from the softmax contract not reproducible | abstract softmax values do not correspond to real logits | torch side searches re-scaled logits realising the same order/tie pattern; shift-invariance check made relative |
| C03/C04/C08 | MCP known finding masked a seeded change | known-finding signature too broad | signature now includes whether the rows' quotas differ |
| translator validation (vp check #1) | mask mismatch real torch vs concrete stand-in | stand-in computed in double precision | concrete runs emulate float32 step by step; a rounding-boundary disagreement is re-run in float64 and reported as a note |
| C18 CVRPTW `scale=True` | spurious violation, then "confirmed" by a broken concrete evaluation | (a) norm abstraction has no homogeneity, (b) concrete replay left the norm uninterpreted | distances computed from re-scaled coordinates; concrete norm = `hypot`; a predicate that does not evaluate is a harness error |
| C18 CVRP `capacity=7` | demand 10/7 > capacity | the configuration itself (override below `max_demand`) makes the documented bound unsatisfiable | treated as a precondition of the configuration space (`capacity >= max_demand`), stated in MANIFEST; not a finding |
| C09 3-opt sampler | invalid tour from a "sampled" move the real sampler never draws | softmax contract gave positive probability to entries masked with -1e30 (finite), real float32 `exp` underflows to 0 | softmax contract models the underflow in the sampler jobs; replay enumerates what the real sampler draws |
| C19 `load_data` bit-exact | one-ulp counterexamples on the unchanged code | FP mode still used the real-arithmetic shortcut `a / c -> a * (1/c)` | true `fpDiv` in FP mode |
| C20 | `scale_norm` 2x2 batch and `welford m=3` with symbolic history length did not finish | nonlinear query | cases dropped from the plan / given a concrete history length; a timeout is exit 2, never success |
| C13 best-selection at n=4 | inconclusive (tour lengths of symbolic permutations) | reward term too heavy for what is a row-selection question | reward = uninterpreted function of (instance, sequence) in those jobs |
| C05 thorough | MTVRP variants with distance limit and time windows at n=3 time out | query size | those sizes removed from the plan (n=2 remains) and stated |
| C04 / C05 thorough | "reachability witness does not replay" (CVRPTW n=3 B=3) | the only model of that path left distances to the abstraction (no collinear completion), the real run need not follow it | such witnesses are marked inexact and skipped (noted in evidence), exact ones still must replay |
| C18 DPP / MDPP generators (new jobs) | "the generator raises: index 9 out of bounds" reported AND confirmed | my `randint` stub mis-read `torch.randint(high, size=...)` as `low=high`; the replay fed the out-of-support value into the real generator, which then really raised | stub fixed; the replay now refuses fed values outside the real sampler's support (harness error, not a confirmation) |
| C12 feasibility | (design decision) | "feasible ... whenever at least k feasible starts exist" read as: feasibility whenever the instance has a feasible start, distinctness whenever it has k | holds on the repaired tree except for the two recorded OP findings |
| seed handling | an agent's `git stash` and mine interleaved (the stash is shared between worktrees): /repo briefly carried an agent's mutation | process error | /repo restored from git, seeds are now tested in scratch worktrees, agents told not to stash |

### 8.5 Defects found in ai4co/rl4co

Every entry was produced by a solver counterexample replayed on the real torch build. Repairs are single unguarded
`fix:` commits in `/repo`; the existing suite (117 passing tests) is unchanged and still passes. The authoritative list
is `known_findings.json` (never written at run time); the table is generated from it.

""" + tab("findings") + """

Open findings are matched by a *signature* (environment, obligation kind, and a discriminating fact such as "the rows'
quotas differ" or "every row has k feasible starts"), so a different violation of the same property is still reported.

### 8.6 Seeded changes (`seeded/<id>/`) and which checks catch them

Sub-agents, given only the property text and a scratch worktree, produced changes that break a property while the existing
suite still passes. Each was confirmed by me (`tools/confirm_seed.sh`: demo passes on the clean tree, fails with the
patch, full pytest unchanged) and then run against the checks (`tools/seedtest.sh`). Where a seed was first missed, the
check was strengthened (never special-cased to the seed) and the table says so.

""" + tab("seeds") + """

Known blind spot: **C13_3** (a `torch.int16` parent index in beam search, wrong only once (beam_width - 1) * batch_size
reaches 32768, e.g. width 5 and batch 8192) is not detected. The stand-in models integer tensors as mathematical integers (no wrap-around) and the bound is B <= 3; a
bit-vector model of narrow integer dtypes would be needed. It is kept in `seeded/` marked `not_detected`.

### 8.7 What is not covered (summary; details per check in 8.2 and MANIFEST)

* Wrap-around of narrow integer dtypes (int16/int32 index tensors): integers are mathematical in the stand-in.

* Sizes above the stated bounds; float32 rounding (reals everywhere except the FP-mode jobs of C05 and C19; concrete
  differential runs only sample it).
* MDCPDP lateness rewards / checker / reachability; MPDP; FFSP in C05; DPP/MDPP rewards (downloaded data).
* OP `prize_type='dist'`, non-uniform location samplers (cluster, mixed, Gaussian mixture).
* The DACT / N2S / NeuOpt policies' own move selection (C09 covers every mask-admitted 2-opt and ruin-repair move and every
  move of the environments' samplers up to 4-opt, not NeuOpt's internal masks).
* C14 beyond the attention-model family; C11/C13 beyond TSP-shaped episodes and beam width 3.
* C19: deepcopy/pickle of environments, checkpoint restore, `generate_data.py`.
* Lightning trainer plumbing, optimizers, multi-worker data loading, GPU kernels.
"""
open(P, "w").write(s + "\n\n---\n\n" + sec8)
print("DESIGN.md section 8 regenerated")
