#!/bin/sh
# usage: tools/confirm_seed.sh <worktree> <seed_dir>  -- confirm a seeded change in a scratch worktree:
#   demo passes on the clean tree, fails with the patch; the existing suite gives the baseline result with the patch
wt="$1"; sd="$2"; out="$sd/confirm.log"
cd "$wt" || exit 2
git checkout -q -- rl4co
echo "== demo on clean tree" > "$out"
PYTHONPATH="$wt" /venv/bin/python "$sd/demo.py" >> "$out" 2>&1; echo "demo_clean_exit=$?" >> "$out"
git apply "$sd/patch.diff" || { echo "apply failed" >> "$out"; exit 3; }
echo "== demo with patch" >> "$out"
PYTHONPATH="$wt" /venv/bin/python "$sd/demo.py" >> "$out" 2>&1; echo "demo_patched_exit=$?" >> "$out"
echo "== test-suite with patch" >> "$out"
OMP_NUM_THREADS=4 PYTHONPATH="$wt" /venv/bin/python -m pytest -q -p no:cacheprovider --timeout=900 --continue-on-collection-errors tests 2>&1 | tail -8 >> "$out"
git checkout -q -- rl4co
grep -E "exit=|passed|failed" "$out" | tail -4
