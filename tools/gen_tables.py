#!/usr/bin/env python3
"""prints markdown tables for DESIGN.md section 8 from the live check plans, the seeded-change metadata and known_findings.json"""
import glob, importlib, json, os, sys
sys.path.insert(0, "/verif")
what = sys.argv[1]
if what == "bounds":
    print("| Property | level | quick jobs | thorough jobs | bounds (from the check's own plan) | outside the claim |\n|---|---|---|---|---|---|")
    for i in range(1, 21):
        pid = f"C{i:02d}"
        try:
            mod = importlib.import_module(f"vf.props.{pid}")
        except Exception as e:
            print(f"| {pid} | - | - | - | not built ({e}) | |"); continue
        q, t = mod.plan("quick", 0), mod.plan("thorough", 0)
        print(f"| {pid} | {q['level']} | {len(q['jobs'])} | {len(t['jobs'])} | {t['bounds']} | {t.get('outside','')} |")
elif what == "seeds":
    print("| seed | property | needs to manifest | how the checks fared |\n|---|---|---|---|")
    for f in sorted(glob.glob("/verif/seeded/*/meta.json")):
        m = json.load(open(f))
        print(f"| {m['id']} | {m['breaks_property']} | {m['needs_to_manifest']} | {m['detected_by']} |")
elif what == "findings":
    d = json.load(open("/verif/known_findings.json"))
    print("| id | property | status | what |\n|---|---|---|---|")
    for f in d["findings"]:
        print(f"| {f['id']} | {f['property']} | {f['status']}{' ' + f.get('commit','') if f['status']=='fixed' else ''} | {f['summary']} |")
